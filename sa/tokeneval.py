"""A10 - finite abstraction of hand-written token syntax checks.

A constructor that validates a command-line token by looking at characters (instead of handing the text to std::regex) is
a predicate over byte strings.  It is decided here by abstract interpretation over a finite domain:

  * characters are only ever compared for (in)equality with character / string literals of the source (anything else -
    ordering, arithmetic, <cctype> - is outside the domain: Unsupported, the check reports analysis-broken);  two strings
    that agree on the classes { each literal byte, "any other byte" } therefore take the same branches;
  * characters are only read at indices that do not derive from the length of the text or from a search position
    (tainted integers: size(), find() and what is computed from them); such integers may be compared and handed to substr.
    The largest index read (K) and the largest integer constant a length / position is compared with (C) bound what the
    verdict can depend on: the classes of the first K+1 bytes and lengths / positions capped at C+1.

Every abstract token is represented by a string of at most max(K, C) + 4 bytes over the class alphabet, so evaluating the
constructor's control-flow graph on all of them decides the predicate for every byte string.  Nothing of /repo is compiled or
run: the evaluator walks the extracted CFG and expression trees.  It also reports reads beyond the terminator (index > size()).
"""
from . import ir
from .ir import short

NPOS = 2 ** 64 - 1


class Unsupported(Exception):
    pass


class Rejected(Exception):
    def __init__(self, exc, node):
        Exception.__init__(self, exc)
        self.exc = exc
        self.node = node


class OutOfBounds(Exception):
    def __init__(self, what, node):
        Exception.__init__(self, what)
        self.node = node


class _Return(Exception):
    def __init__(self, v):
        self.v = v


class T(int):
    """an integer that derives from the length of the text or from a search position"""
    pass


def _taint(v, *src):
    return T(v) if any(isinstance(s, T) for s in src) else int(v)


class Lit(str):
    """text / a character written in the source (comparisons are only meaningful against these)"""
    pass


class Opt:
    def __init__(self, v=None):
        self.v = v


def literals_of(prog, fns):
    """bytes that occur in character / string literals of the given functions"""
    out = set()
    for f in fns:
        for bid, i, e in f.all_elems():
            x = e.get("expr")
            if not isinstance(x, dict):
                continue
            skip = set()
            for n in ir.walk(x):
                if n.get("k") == "call" and n.get("noreturn"):
                    skip.update(id(m) for a in n.get("args", []) for m in ir.walk(a))  # the words of an error message are not compared with anything
            for n in ir.walk(x):
                if id(n) in skip:
                    continue
                if n.get("k") == "lit" and n.get("t") == "char" and isinstance(n.get("v"), int):
                    out.add(n["v"] & 0xff)
                elif n.get("k") == "lit" and n.get("t") == "str" and isinstance(n.get("v"), str) and len(n["v"]) <= 8:
                    out.update(ord(c) & 0xff for c in n["v"])
    return out


class Machine:
    def __init__(self, prog, budget=20000, ordered=False, signed_char=True):
        self.prog = prog
        self.ordered = ordered
        self.signed_char = signed_char
        self.max_index = 0
        self.max_const = 0
        self.steps = 0
        self.budget = budget

    # ---- functions
    def call(self, f, fields, args):
        env = {}
        for p, a in zip(f.params, args):
            env[p.get("name")] = a
        bid = f.entry
        try:
            while True:
                self.steps += 1
                if self.steps > self.budget:
                    raise Unsupported("evaluation of %s does not terminate within the step budget" % short(f.qual))
                for e in f.elems(bid):
                    self.exec_elem(f, e, env, fields)
                if bid == f.exit:
                    return None
                t = f.term(bid)
                ss = f.succs(bid)
                if not ss:
                    return None
                if len(ss) == 2 and ss[0][1] == "true":
                    if t.get("kind") in ("for", "while", "do", "range_for"):
                        raise Unsupported("loop in %s" % short(f.qual))
                    c = self.truth(self.ev(t["cond"], env, fields))
                    bid = ss[0][0] if c else ss[1][0]
                elif len(ss) == 1:
                    bid = ss[0][0]
                else:
                    raise Unsupported("multi-way branch in %s" % short(f.qual))
        except _Return as r:
            return r.v

    def exec_elem(self, f, e, env, fields):
        x = e.get("expr")
        if e["kind"] == "init" and e.get("field"):
            fields[short(e["field"])] = self.ev(x, env, fields) if x is not None else None
            return
        if e["kind"] not in ("stmt", "init") or not isinstance(x, dict):
            return
        k = x.get("k")
        if k == "decl":
            for v in x.get("vars", []):
                env[v["name"]] = self.ev(v["init"], env, fields) if v.get("init") is not None else 0
        elif k == "return":
            raise _Return(self.ev(x["e"], env, fields) if x.get("e") is not None else None)
        else:
            self.ev(x, env, fields)

    # ---- values
    def truth(self, v):
        if isinstance(v, Opt):
            return v.v is not None
        if isinstance(v, (bool, int)):
            return bool(v)
        raise Unsupported("a %s used as a condition" % type(v).__name__)

    def const(self, v):
        if isinstance(v, int) and not isinstance(v, (bool, T)) and v < 1 << 20:
            self.max_const = max(self.max_const, v)

    def read(self, s, i, n):
        if not isinstance(s, str):
            raise Unsupported("subscript on a %s" % type(s).__name__)
        if isinstance(i, T):
            raise Unsupported("a character is read at an index that depends on the length of the text or on a search position")
        if not isinstance(i, int) or isinstance(i, bool) and False:
            raise Unsupported("index of type %s" % type(i).__name__)
        self.max_index = max(self.max_index, int(i))
        if i > len(s):
            raise OutOfBounds("reads character %d of a text of %d characters" % (i, len(s)), n)
        return s[i] if i < len(s) else "\0"

    def assign(self, lhs, v, env, fields):
        lhs = ir.unwrap(lhs)
        if lhs.get("k") == "ref" and str(lhs.get("decl", "")).split(":")[0] in ("local", "param"):
            env[lhs["decl"].split(":", 1)[1]] = v
        elif lhs.get("k") == "member" and isinstance(ir.unwrap(lhs.get("base")), dict) and ir.unwrap(lhs["base"]).get("k") == "this":
            cur = fields.get(short(lhs["field"]))
            if isinstance(cur, Opt) and not isinstance(v, Opt):
                v = Opt(v)
            fields[short(lhs["field"])] = v
        else:
            raise Unsupported("assignment to `%s`" % ir.fmt(lhs)[:40])
        return v

    def ev(self, n, env, fields):
        n = ir.unwrap(n)
        if not isinstance(n, dict):
            raise Unsupported("expression %r" % (n,))
        k = n.get("k")
        if k == "lit":
            t = n.get("t")
            if t == "char":
                return Lit(chr(n["v"] & 0xff))
            if t in ("int", "bool"):
                return n["v"] if t == "bool" else int(n["v"])
            if t == "str":
                return Lit(n["v"])
            if t == "nullptr":
                return None
            raise Unsupported("literal of kind %s" % t)
        if k == "ref":
            d = str(n.get("decl", ""))
            if d.endswith("::npos"):
                return T(NPOS)
            kind, _, name = d.partition(":")
            if kind in ("local", "param") and name in env:
                return env[name]
            raise Unsupported("reference to `%s`" % d)
        if k == "this":
            return fields
        if k == "member":
            b = ir.unwrap(n.get("base"))
            if isinstance(b, dict) and b.get("k") == "this":
                fld = short(n["field"])
                if fld in fields:
                    return fields[fld]
            raise Unsupported("member `%s`" % ir.fmt(n)[:40])
        if k in ("cast", "paren", "bind_temp", "materialize", "implicit"):
            return self.ev(n.get("e"), env, fields)
        if k == "un":
            op = n["op"]
            if op == "!":
                return not self.truth(self.ev(n["e"], env, fields))
            if op == "*":
                v = self.ev(n["e"], env, fields)
                if isinstance(v, Opt):
                    if v.v is None:
                        raise Unsupported("dereference of an empty optional")
                    return v.v
            raise Unsupported("unary %s" % op)
        if k == "cond":
            c = self.truth(self.ev(n.get("c"), env, fields))
            return self.ev(n.get("t") if c else n.get("f", n.get("e")), env, fields)
        if k == "bin":
            op = n["op"]
            if op == "&&":
                return self.truth(self.ev(n["l"], env, fields)) and self.truth(self.ev(n["r"], env, fields))
            if op == "||":
                return self.truth(self.ev(n["l"], env, fields)) or self.truth(self.ev(n["r"], env, fields))
            if op == "=":
                return self.assign(n["l"], self.ev(n["r"], env, fields), env, fields)
            a = self.ev(n["l"], env, fields)
            b = self.ev(n["r"], env, fields)
            return self.binop(op, a, b)
        if k == "subscript":
            return self.read(self.ev(n["base"], env, fields), self.ev(n["idx"], env, fields), n)
        if k == "construct":
            nm = n.get("name") or ""
            args = [a for a in n.get("args", []) if not (isinstance(a, dict) and a.get("k") == "defarg")]
            if short(nm) in ("basic_string", "string"):
                if not args:
                    return ""
                if len(args) == 1:
                    v = self.ev(args[0], env, fields)
                    if isinstance(v, str):
                        return v
                raise Unsupported("string construction `%s`" % ir.fmt(n)[:40])
            if short(nm) == "optional":
                if not args:
                    return Opt(None)
                if len(args) == 1:
                    v = self.ev(args[0], env, fields)
                    return v if isinstance(v, Opt) else Opt(v)
            raise Unsupported("construction of %s" % nm)
        if k == "call":
            return self.ev_call(n, env, fields)
        raise Unsupported("expression kind %s (`%s`)" % (k, ir.fmt(n)[:40]))

    def binop(self, op, a, b):
        if isinstance(a, str) or isinstance(b, str):
            if not (isinstance(a, str) and isinstance(b, str)):
                raise Unsupported("text compared with a number: characters are only compared with character literals")
            if op == "+":
                return a + b
            if not (isinstance(a, Lit) or isinstance(b, Lit)):
                raise Unsupported("two pieces of the token compared with each other: byte classes do not decide that")
            if op == "==":
                return str(a) == str(b)
            if op == "!=":
                return str(a) != str(b)
            if op in ("<", "<=", ">", ">=") and len(a) == 1 and len(b) == 1 and self.ordered:
                # a character against a character literal: the platform's char (signed here unless the facts say otherwise); the class
                # alphabet has a representative for every interval between the literals, so the order is decided per class
                va, vb = ord(a), ord(b)
                if self.signed_char:
                    va, vb = (va - 256 if va > 127 else va), (vb - 256 if vb > 127 else vb)
                return {"<": va < vb, "<=": va <= vb, ">": va > vb, ">=": va >= vb}[op]
            raise Unsupported("`%s` on text: only equality (and the order of single characters against literals) keeps the byte classes apart" % op)
        if isinstance(a, Opt) or isinstance(b, Opt):
            raise Unsupported("`%s` on an optional" % op)
        if a is None or b is None:
            raise Unsupported("`%s` on a null value" % op)
        for x, y in ((a, b), (b, a)):
            if isinstance(x, T):
                self.const(y)
        ia, ib = int(a), int(b)
        if op == "==":
            return ia == ib
        if op == "!=":
            return ia != ib
        if op == "<":
            return ia < ib
        if op == "<=":
            return ia <= ib
        if op == ">":
            return ia > ib
        if op == ">=":
            return ia >= ib
        if op == "+":
            return _taint((ia + ib) % (1 << 64), a, b)
        if op == "-":
            return _taint((ia - ib) % (1 << 64), a, b)
        raise Unsupported("operator %s" % op)

    def ev_call(self, n, env, fields):
        nm = n.get("name") or ""
        sn = short(nm)
        args = [a for a in n.get("args", []) if not (isinstance(a, dict) and a.get("k") == "defarg")]
        th = n.get("this")
        if nm == "nitro::except::raise" or n.get("noreturn"):
            cid = n.get("callee") or ""
            exc = "?"
            if "#<" in cid:
                exc = cid.split("#<", 1)[1].split(",")[0].strip()
            raise Rejected(exc, n)
        op = n.get("op")
        if op in ("==", "!=") and th is None and len(args) == 2:
            return self.binop(op, self.ev(args[0], env, fields), self.ev(args[1], env, fields))
        if op in ("==", "!=") and th is not None and len(args) == 1:
            return self.binop(op, self.ev(th, env, fields), self.ev(args[0], env, fields))
        if op == "=" and th is not None and len(args) == 1:
            return self.assign(th, self.ev(args[0], env, fields), env, fields)
        if op == "[]" and th is not None and len(args) == 1:
            return self.read(self.ev(th, env, fields), self.ev(args[0], env, fields), n)
        if op == "*" and th is not None:
            v = self.ev(th, env, fields)
            if isinstance(v, Opt) and v.v is not None:
                return v.v
            raise Unsupported("dereference of `%s`" % ir.fmt(th)[:30])
        if n.get("conv") and th is not None:
            v = self.ev(th, env, fields)
            if isinstance(v, Opt):
                return v.v is not None
            return v
        if nm.startswith("std::basic_string") and th is not None:
            s = self.ev(th, env, fields)
            if not isinstance(s, str):
                raise Unsupported("string member on a %s" % type(s).__name__)
            a = [self.ev(x, env, fields) for x in args]
            if sn in ("size", "length"):
                return T(len(s))
            if sn == "empty":
                return len(s) == 0
            if sn in ("find", "rfind") and a and isinstance(a[0], str):
                pos = int(a[1]) if len(a) > 1 else (0 if sn == "find" else NPOS)
                r = s.find(a[0], pos) if sn == "find" else s.rfind(a[0], 0, None if pos == NPOS else pos + len(a[0]))
                return T(NPOS if r < 0 else r)
            if sn == "substr":
                pos = int(a[0]) if a else 0
                cnt = int(a[1]) if len(a) > 1 else NPOS
                if pos > len(s):
                    raise Rejected("std::out_of_range", n)
                return s[pos:] if cnt == NPOS else s[pos:pos + cnt]
            if sn == "at" and len(a) == 1:
                if isinstance(a[0], T):
                    raise Unsupported("a character is read at an index that depends on the length of the text or on a search position")
                if int(a[0]) >= len(s):
                    self.max_index = max(self.max_index, int(a[0]))
                    raise Rejected("std::out_of_range", n)
                return self.read(s, a[0], n)
            if sn == "front":
                if not s:
                    raise OutOfBounds("front() of an empty text", n)
                return self.read(s, 0, n)
            if sn in ("c_str", "data") and not a:
                return s
            if sn == "compare" and len(a) == 3 and isinstance(a[2], str) and not isinstance(a[0], T):
                self.max_index = max(self.max_index, int(a[0]) + len(a[2]))
                if int(a[0]) > len(s):
                    raise Rejected("std::out_of_range", n)
                return 0 if s[int(a[0]):int(a[0]) + int(a[1])] == a[2] else 1
            raise Unsupported("std::string::%s: not a bounded, class-preserving observation" % sn)
        if nm in ("nitro::lang::starts_with",) and len(args) == 2:
            s, p = self.ev(args[0], env, fields), self.ev(args[1], env, fields)
            if isinstance(s, str) and isinstance(p, str):
                self.max_index = max(self.max_index, len(p))
                return s.startswith(p)
        cid = n.get("callee")
        g = self.prog.fn(cid) if cid else None
        if g is not None and g.has_cfg and g.file.startswith("/repo/"):
            if th is not None:
                tv = self.ev(th, env, fields)
                if tv is not fields:
                    raise Unsupported("member call on another object `%s`" % ir.fmt(n)[:40])
            return self.call(g, fields, [self.ev(x, env, fields) for x in args])
        if sn in ("move", "forward") and len(args) == 1:
            return self.ev(args[0], env, fields)
        raise Unsupported("call `%s`" % ir.fmt(n)[:50])


def decide(prog, ctor, extra_fns=(), limit=400000):
    """evaluate a one-string-parameter constructor on every abstract token.
    -> dict(alphabet=[bytes], length=L, verdicts={token bytes: ("accept", None) | ("reject", exception) | ("oob", text)}, K=, C=)"""
    import itertools
    fns = [ctor] + list(extra_fns)
    lits = literals_of(prog, fns) | {0x2d, 0x3d}
    other = next(b for b in (0x78, 0x71, 0x7a, 0x01, 0x02, 0x03) if b not in lits)
    alphabet = sorted(lits) + [other]
    # characters compared by ORDER with a literal somewhere: one representative for every interval the literals cut the byte range into
    # (in the platform's char order; 0x80..0xff are negative where char is signed), instead of the single "any other byte"
    ordered = False
    signed_char = True
    for f in fns:
        for bid, i, e in f.all_elems():
            x = e.get("expr")
            if not isinstance(x, dict):
                continue
            for n in ir.walk(x):
                bo = ir.as_binop(n)
                if bo and bo[0] in ("<", "<=", ">", ">="):
                    for side in (ir.unwrap(bo[1]), ir.unwrap(bo[2])):
                        while isinstance(side, dict) and side.get("k") == "cast":
                            side = ir.unwrap(side.get("e"))
                        if isinstance(side, dict) and side.get("bits") == 8 and side.get("k") in ("subscript", "call"):
                            ordered = True
                            signed_char = not side.get("u")
    if ordered:
        key = (lambda b: b - 256 if b > 127 else b) if signed_char else (lambda b: b)
        cuts = sorted(set(lits) | {0x00}, key=key)
        reps = set(lits)
        lo = -128 if signed_char else 0
        hi = 127 if signed_char else 255
        prev = lo - 1
        for c in [key(b) for b in cuts] + [hi + 1]:
            if c - prev > 1:
                reps.add((prev + 1) & 0xff)
            prev = c
        alphabet = sorted(reps)
        other = next((b for b in alphabet if b not in lits and 0x21 <= b < 0x7f), other)
    # first pass over short tokens fixes K and C, the second pass uses the derived length
    L = 3
    for _ in range(4):
        m = Machine(prog, ordered=ordered, signed_char=signed_char)
        verdicts = {}
        n = sum(len(alphabet) ** i for i in range(L + 1))
        if n > limit:
            raise Unsupported("the abstract token space has %d members (alphabet %d, length %d)" % (n, len(alphabet), L))
        for ln in range(L + 1):
            for tup in itertools.product(alphabet, repeat=ln):
                tok = bytes(tup)
                s = tok.decode("latin-1")
                m.steps = 0
                fields = {}
                try:
                    m.call(ctor, fields, [s])
                    verdicts[tok] = ("accept", None, None)
                except Rejected as r:
                    verdicts[tok] = ("reject", r.exc, r.node)
                except OutOfBounds as o:
                    verdicts[tok] = ("oob", str(o), o.node)
        need = max(m.max_index, m.max_const) + (3 if ordered else 4)
        if need <= L:
            return {"alphabet": alphabet, "other": other, "length": L, "verdicts": verdicts, "K": m.max_index, "C": m.max_const}
        L = need
    raise Unsupported("the token length bound does not stabilise")
