"""Facts IR: loading the JSON written by nitro-facts, expression helpers, CFG wrapper.

Nothing in this module knows about any property; it is the vocabulary the rules use.
"""
import json
import re
from collections import defaultdict

# --------------------------------------------------------------------------- loading

_LAMBDA_RE = re.compile(r"\(lambda at ([^:()]+):(\d+):(\d+)\)")


class Fn:
    """One analysed function: identity + CFG."""

    def __init__(self, d, unit):
        self.d = d
        self.unit = unit
        self.id = d["id"]
        self.qual = d["qual"]
        self.name = d["name"]
        self.file = d["file"]
        self.line = d["line"]
        self.endline = d.get("endline", d["line"])
        self.kind = d["kind"]
        self.flags = d.get("flags", {})
        self.params = d.get("params", [])
        self.ret = d.get("ret", "")
        self.cls = d.get("class")
        self.op = d.get("op")
        cfg = d.get("cfg")
        self.has_cfg = bool(cfg)
        self.blocks = {}
        self.entry = self.exit = None
        if cfg:
            self.entry = cfg["entry"]
            self.exit = cfg["exit"]
            for b in cfg["blocks"]:
                self.blocks[b["id"]] = b
            self._cut_dependent_noreturn()
            self._drop_assert_failures()
        self._preds = None

    def _cut_dependent_noreturn(self):
        """In a template pattern a call with a type-dependent argument is unresolved, so clang's CFG lets `raise(.., n, ..)` fall through. When
        every candidate of the call is [[noreturn]] (extractor: dep + noreturn) the statement ends its block like a resolved noreturn call does."""
        for bid, b in self.blocks.items():
            if b.get("noreturn"):
                continue
            els = b.get("elems", [])
            for i, e in enumerate(els):
                x = e.get("expr") if isinstance(e.get("expr"), dict) else None
                x = unwrap(x) if x is not None else None
                if e.get("kind") == "stmt" and isinstance(x, dict) and x.get("k") == "call" and x.get("dep") and x.get("noreturn"):
                    b["elems"] = els[:i + 1]
                    b["noreturn"] = True
                    b["succ"] = [{"to": self.exit}]
                    b["term"] = {"kind": "none"}
                    break

    _ASSERT_FAIL = ("__assert_fail", "__assert", "__assert_perror_fail", "__assert_rtn", "__assert_func")

    def _drop_assert_failures(self):
        """`assert(c)` expands to `c ? void(0) : __assert_fail(..)`. The failing arm exists in debug builds only and ends the process there; the
        analyses follow the arm every build has (without taking c for granted: the branch becomes a plain edge). What stands INSIDE an assert
        is the business of the -DNDEBUG configuration (check driver)."""
        fail = set()
        for bid, b in self.blocks.items():
            if not b.get("noreturn"):
                continue
            for e in b.get("elems", []):
                x = unwrap(e.get("expr")) if isinstance(e.get("expr"), dict) else None
                if isinstance(x, dict) and x.get("k") == "call" and (x.get("name") or "").split("::")[-1] in self._ASSERT_FAIL:
                    fail.add(bid)
        if not fail:
            return
        for bid, b in self.blocks.items():
            ss = b.get("succ", [])
            if bid in fail or not any(s.get("to") in fail for s in ss):
                continue
            keep = [s for s in ss if s.get("to") not in fail]
            if len(keep) == len(ss):
                continue
            b["succ"] = keep
            if len(keep) <= 1:
                b["term"] = {"kind": "none"}
        for bid in fail:
            self.blocks[bid]["succ"] = []
            self.blocks[bid]["unreachable_assert"] = True

    # --- identity helpers
    @property
    def is_pattern(self):
        return bool(self.flags.get("pattern"))

    @property
    def is_instantiation(self):
        return bool(self.flags.get("instantiation"))

    @property
    def site(self):
        return "%s:%d" % (self.file, self.line)

    def relfile(self):
        return self.file.replace("/repo/", "")

    # --- CFG helpers
    def succs(self, bid):
        """list of (to, label) with label in 'true','false','next', 'case'; unreachable edges dropped"""
        b = self.blocks[bid]
        out = []
        ss = b.get("succ", [])
        two_way = b["term"]["kind"] in ("if", "for", "while", "do", "range_for", "and", "or", "cond") and len(ss) == 2
        for i, s in enumerate(ss):
            if s.get("to") is None or s.get("unreachable"):
                continue
            if two_way:
                lab = "true" if i == 0 else "false"
            else:
                lab = "next"
            out.append((s["to"], lab))
        return out

    def preds(self):
        if self._preds is None:
            p = defaultdict(list)
            for bid in self.blocks:
                for to, lab in self.succs(bid):
                    p[to].append((bid, lab))
            self._preds = p
        return self._preds

    def elems(self, bid):
        return self.blocks[bid].get("elems", [])

    def block_order(self):
        """blocks in reverse post-order from the entry (execution order for straight-line code, loop bodies after their
        heads), unreachable blocks last - independent of how block ids were assigned (inlining adds high ids)"""
        o = getattr(self, "_order", None)
        if o is not None:
            return o
        seen, post = set(), []
        if self.entry is not None:
            st = [(self.entry, iter([to for to, _ in self.succs(self.entry)]))]
            seen.add(self.entry)
            while st:
                b, it = st[-1]
                adv = False
                for to in it:
                    if to not in seen and to in self.blocks:
                        seen.add(to)
                        st.append((to, iter([t for t, _ in self.succs(to)])))
                        adv = True
                        break
                if not adv:
                    post.append(b)
                    st.pop()
        o = list(reversed(post)) + [b for b in sorted(self.blocks, reverse=True) if b not in seen]
        self._order = o
        return o

    def all_elems(self):
        for bid in self.block_order():
            b = self.blocks[bid]
            for i, e in enumerate(b.get("elems", [])):
                yield bid, i, e

    def is_noreturn(self, bid):
        return bool(self.blocks[bid].get("noreturn"))

    def term(self, bid):
        return self.blocks[bid]["term"]

    def reachable_blocks(self):
        seen = set()
        st = [self.entry]
        while st:
            b = st.pop()
            if b in seen:
                continue
            seen.add(b)
            if self.is_noreturn(b):
                continue
            for to, _ in self.succs(b):
                st.append(to)
        return seen

    def return_blocks(self):
        """blocks whose successor is the exit block and that are not noreturn (normal exits)"""
        out = []
        for bid in self.reachable_blocks():
            if bid == self.exit or self.is_noreturn(bid):
                continue
            if any(to == self.exit for to, _ in self.succs(bid)):
                out.append(bid)
        return out

    def roots(self):
        """all root expression trees with (bid, idx, elem)"""
        for bid, i, e in self.all_elems():
            if e.get("expr") is not None:
                yield bid, i, e

    def __repr__(self):
        return "<Fn %s>" % self.id


class Program:
    def __init__(self):
        self.fns = {}  # id -> Fn
        self.by_qual = defaultdict(list)
        self.classes = {}  # name -> class dict
        self.units = []
        self.files = set()
        self.dups = 0

    def add_unit(self, path):
        raw = open(path, encoding="utf-8").read()
        d = json.loads(raw)
        # make lambda type spellings position independent
        fn_ranges = [(f["file"], f["line"], f.get("endline", f["line"]), f["qual"], f["kind"]) for f in d["functions"]]

        def repl(m):
            file, line = m.group(1), int(m.group(2))
            best = None
            for (ff, l0, l1, q, k) in fn_ranges:
                if ff == file and l0 <= line <= l1 and k != "lambda":
                    if best is None or l0 >= best[1]:
                        best = (q, l0)
            if best:
                return "(lambda in %s+%d)" % (best[0], line - best[1])
            return "(lambda in %s)" % file.split("/")[-1]

        if "(lambda at " in raw:
            raw = _LAMBDA_RE.sub(repl, raw)
            d = json.loads(raw)
        self.units.append(d["unit"])
        self.size_t_bits = d.get("size_t_bits", getattr(self, "size_t_bits", None))
        for f in d.get("files", []):
            self.files.add(f)
        for fd in d["functions"]:
            fn = Fn(fd, d["unit"])
            if fn.id in self.fns and (self.fns[fn.id].file, self.fns[fn.id].line) != (fn.file, fn.line) and fn.has_cfg and self.fns[fn.id].has_cfg \
                    and fn.file == self.fns[fn.id].file:
                # two definitions with one signature in one file (overloads told apart by SFINAE only): keep both
                fn.id = "%s @%s" % (fn.id, fn.line)
            if fn.id in self.fns:
                self.dups += 1
                # prefer one with a CFG
                if self.fns[fn.id].has_cfg or not fn.has_cfg:
                    continue
                self.by_qual[fn.qual] = [x for x in self.by_qual[fn.qual] if x.id != fn.id]
            self.fns[fn.id] = fn
            self.by_qual[fn.qual].append(fn)
        for c in d["classes"]:
            cur = self.classes.get(c["name"])
            if cur is None:
                self.classes[c["name"]] = c
            else:
                # merge special members seen in other units (implicit ones are declared lazily)
                for k, v in c.get("special", {}).items():
                    cur.setdefault("special", {}).setdefault(k, v)
                seen = {m["id"] for m in cur.get("methods", [])}
                for m in c.get("methods", []):
                    if m["id"] not in seen:
                        cur["methods"].append(m)

    # --- lookups
    def fn(self, fid):
        return self.fns.get(fid)

    def find(self, qual, pattern=None, pred=None):
        """functions by qualified name; pattern=True only patterns / False only non-patterns"""
        out = []
        for f in self.by_qual.get(qual, []):
            if pattern is True and not f.is_pattern:
                continue
            if pattern is False and f.is_pattern:
                continue
            if pred and not pred(f):
                continue
            out.append(f)
        return out

    def find_re(self, regex, pred=None):
        r = re.compile(regex)
        out = []
        for q, fs in self.by_qual.items():
            if r.search(q):
                for f in fs:
                    if pred is None or pred(f):
                        out.append(f)
        return out

    def by_qual_suffix(self, name):
        """functions whose qualified name is `name` or ends in `::name` (resolution of a dependent call by its spelling)"""
        idx = getattr(self, "_suffix_idx", None)
        if idx is None:
            idx = defaultdict(list)
            for q, fs in self.by_qual.items():
                parts = q.split("::")
                for i in range(len(parts)):
                    idx["::".join(parts[i:])].extend(fs)
            self._suffix_idx = idx
        return idx.get(name, [])

    def cls(self, name):
        return self.classes.get(name)

    def methods_of(self, clsname):
        return [f for f in self.fns.values() if f.cls == clsname]

    def class_family(self, template):
        """[pattern class dict (if analysed)] + every analysed specialisation of the class template"""
        out = []
        for n, c in sorted(self.classes.items()):
            if (n == template and c.get("pattern")) or c.get("template") == template:
                out.append(c)
        out.sort(key=lambda c: (0 if c.get("pattern") else 1, c["name"]))
        return out


# --------------------------------------------------------------------------- expressions

CHILD_KEYS = ("this", "base", "idx", "l", "r", "e", "c", "t", "f", "init", "fn")
LIST_KEYS = ("args", "elems", "placement", "kids")


def children(n, into_sc=True):
    """direct sub-expressions of node n. into_sc=False: do not enter operands of && || ?: that are
    evaluated in other basic blocks (the condition `c` of ?: and the lhs of &&/|| are likewise
    in other blocks)."""
    if not isinstance(n, dict):
        return
    k = n.get("k")
    if k == "decl":
        for v in n.get("vars", []):
            if v.get("init") is not None:
                yield v["init"]
        return
    if n.get("sc") and not into_sc:
        return
    for key in CHILD_KEYS:
        v = n.get(key)
        if isinstance(v, dict):
            yield v
    for key in LIST_KEYS:
        v = n.get(key)
        if isinstance(v, list):
            for x in v:
                if isinstance(x, dict):
                    yield x


def walk(n, into_sc=True):
    """pre-order walk over all nodes of the tree"""
    if not isinstance(n, dict):
        return
    st = [n]
    while st:
        x = st.pop()
        yield x
        ch = list(children(x, into_sc))
        ch.reverse()
        st.extend(ch)


def unwrap(n):
    """strip transparent wrappers: defarg, definit, std_init_list, functional/static casts to same,
    elidable copy/move constructs of a single argument"""
    while isinstance(n, dict):
        k = n.get("k")
        if k in ("defarg", "definit", "std_init_list"):
            n = n.get("e")
        elif k == "construct" and n.get("elidable") and len(n.get("args", [])) == 1:
            n = n["args"][0]
        elif k == "paren_list" and len(n.get("elems", [])) == 1:
            n = n["elems"][0]
        else:
            break
    return n


def is_call(n, name=None, names=None):
    if not isinstance(n, dict) or n.get("k") != "call":
        return False
    if name is not None:
        return n.get("name") == name
    if names is not None:
        return n.get("name") in names
    return True


def call_name(n):
    return n.get("name") if isinstance(n, dict) and n.get("k") == "call" else None


def short(name):
    """last component of a qualified name"""
    if not name:
        return name
    depth = 0
    last = 0
    i = 0
    while i < len(name):
        c = name[i]
        if c in "<(":
            depth += 1
        elif c in ">)":
            depth -= 1
        elif c == ":" and depth == 0 and name[i:i + 2] == "::":
            last = i + 2
            i += 1
        i += 1
    return name[last:]


def as_binop(n):
    """(op, lhs, rhs) for builtin binary operators and overloaded operator calls with two operands"""
    if not isinstance(n, dict):
        return None
    if n.get("k") == "bin":
        return n["op"], n["l"], n["r"]
    if n.get("k") == "call" and n.get("op"):
        ops = []
        if n.get("this") is not None:
            ops.append(n["this"])
        ops.extend(n.get("args", []))
        if len(ops) == 2 and n["op"] not in ("()", "->", "++", "--"):
            return n["op"], ops[0], ops[1]
    return None


def as_unop(n):
    if not isinstance(n, dict):
        return None
    if n.get("k") == "un":
        return n["op"], n["e"]
    if n.get("k") == "call" and n.get("op"):
        ops = []
        if n.get("this") is not None:
            ops.append(n["this"])
        ops.extend(n.get("args", []))
        op = n["op"]
        if op in ("++", "--"):
            post = n.get("nargs_written", 1) == 2
            return op + ("post" if post else "pre"), ops[0]
        if len(ops) == 1 and op in ("!", "*", "-", "~", "&", "+"):
            return op, ops[0]
    return None


def fmt(n, depth=0):
    """compact, position-free rendering of an expression tree (also the canonical atom key)"""
    if n is None:
        return "null"
    if not isinstance(n, dict):
        return str(n)
    if depth > 40:
        return "..."
    k = n.get("k")
    d = depth + 1
    if k == "ref":
        return n["decl"].split(":", 1)[1] if ":" in n["decl"] else n["decl"]
    if k == "this":
        return "this"
    if k == "lit":
        if n["t"] == "str":
            return json.dumps(n["v"])
        if n["t"] == "char":
            v = n["v"]
            return "'%s'" % (chr(v) if 32 <= v < 127 else "\\x%02x" % v)
        if n["t"] == "null":
            return "nullptr"
        if n["t"] == "bool":
            return "true" if n["v"] else "false"
        return str(n["v"])
    if k == "member":
        b = n.get("base")
        f = short(n["field"])
        if isinstance(b, dict) and b.get("k") == "this":
            return f
        return "%s%s%s" % (fmt(b, d), "->" if n.get("arrow") else ".", f)
    if k == "call":
        args = ", ".join(fmt(a, d) for a in n.get("args", []))
        bo = as_binop(n)
        if bo and n.get("op"):
            return "(%s %s %s)" % (fmt(bo[1], d), bo[0], fmt(bo[2], d))
        uo = as_unop(n)
        if uo and n.get("op"):
            o = uo[0]
            if o.endswith("post"):
                return "(%s%s)" % (fmt(uo[1], d), o[:-4])
            if o.endswith("pre"):
                o = o[:-3]
            return "(%s%s)" % (o, fmt(uo[1], d))
        nm = short(n.get("name") or "?")
        if n.get("this") is not None:
            th = n["this"]
            if n.get("op") == "()":
                return "%s(%s)" % (fmt(th, d), args)
            if th.get("k") == "this":
                return "%s(%s)" % (nm, args)
            return "%s%s%s(%s)" % (fmt(th, d), "->" if n.get("arrow") else ".", nm, args)
        q = n.get("name") or "?"
        if q.startswith("std::") or q.startswith("nitro::"):
            nm = short(q)
        return "%s(%s)" % (nm, args)
    if k == "construct":
        return "%s{%s}" % (short(n.get("name") or n.get("type") or "?"), ", ".join(fmt(a, d) for a in n.get("args", [])))
    if k == "bin":
        return "(%s %s %s)" % (fmt(n["l"], d), n["op"], fmt(n["r"], d))
    if k == "un":
        op = n["op"]
        if op.endswith("post"):
            return "(%s%s)" % (fmt(n["e"], d), op[:-4])
        if op.endswith("pre"):
            return "(%s%s)" % (op[:-3], fmt(n["e"], d))
        return "(%s%s)" % (op, fmt(n["e"], d))
    if k == "subscript":
        return "%s[%s]" % (fmt(n["base"], d), fmt(n["idx"], d))
    if k == "cast":
        return "%s_cast<%s>(%s)" % (n["ck"], n["to"], fmt(n["e"], d))
    if k == "new":
        return "new %s(%s)" % (n["type"], fmt(n.get("init"), d) if n.get("init") else "")
    if k == "delete":
        return "delete%s %s" % ("[]" if n.get("array") else "", fmt(n["e"], d))
    if k == "lambda":
        return "<lambda>"
    if k == "throw":
        return "throw %s" % fmt(n.get("e"), d)
    if k == "cond":
        return "(%s ? %s : %s)" % (fmt(n["c"], d), fmt(n["t"], d), fmt(n["f"], d))
    if k == "init_list":
        return "{%s}" % ", ".join(fmt(a, d) for a in n.get("elems", []))
    if k in ("defarg", "definit", "std_init_list", "pack"):
        return fmt(n.get("e"), d) + ("..." if k == "pack" else "")
    if k == "paren_list":
        return "(%s)" % ", ".join(fmt(a, d) for a in n.get("elems", []))
    if k == "value_init":
        return "%s{}" % n.get("type")
    if k == "decl":
        return "; ".join("%s %s = %s" % (v.get("type"), v["name"], fmt(v.get("init"), d)) for v in n.get("vars", []))
    if k == "return":
        return "return %s" % fmt(n.get("e"), d)
    if k in ("sizeof", "sizeof_pack"):
        return n.get("text", "sizeof")
    if k == "catch":
        return "catch (%s%s)" % (n.get("type"), (" " + n["var"]) if n.get("var") else "")
    if k == "other":
        return "<%s %s>" % (n.get("cls"), n.get("text", ""))
    return "<%s>" % k


def dump_fn(fn, out=None):
    """human readable CFG listing (debug aid and --explain output)"""
    lines = []
    lines.append("FUNCTION %s  [%s:%d]" % (fn.id, fn.relfile(), fn.line))
    for bid in sorted(fn.blocks, reverse=True):
        b = fn.blocks[bid]
        tag = ""
        if bid == fn.entry:
            tag = " (entry)"
        if bid == fn.exit:
            tag = " (exit)"
        if b.get("noreturn"):
            tag += " NORETURN"
        lines.append("  B%d%s -> %s" % (bid, tag, ", ".join("B%d[%s]" % s for s in fn.succs(bid))))
        for e in b.get("elems", []):
            if e["kind"] == "stmt":
                lines.append("      %4d: %s" % (e.get("ln", 0), fmt(e["expr"])))
            elif e["kind"] == "init":
                lines.append("      init %s = %s" % (e.get("field") or e.get("base") or "delegate", fmt(e["expr"])))
            else:
                lines.append("      <%s %s>" % (e["kind"], e.get("var") or e.get("field") or e.get("base")))
        t = b["term"]
        if t["kind"] != "none":
            lines.append("      T:%s %s" % (t["kind"], fmt(t.get("cond"))))
    s = "\n".join(lines)
    if out:
        out.write(s + "\n")
    return s


def strip_deep(n):
    """copy of an expression tree without casts and without single-argument (copy/converting) constructions, at every level"""
    if not isinstance(n, dict):
        return n
    k = n.get("k")
    if k == "cast" and n.get("e") is not None:
        return strip_deep(n["e"])
    if k == "construct":
        args = [a for a in n.get("args", []) if not (isinstance(a, dict) and a.get("k") == "defarg")]
        if len(args) == 1:
            return strip_deep(args[0])
    out = {}
    for kk, v in n.items():
        if isinstance(v, dict):
            out[kk] = strip_deep(v)
        elif isinstance(v, list):
            out[kk] = [strip_deep(x) if isinstance(x, dict) else x for x in v]
        else:
            out[kk] = v
    return out
