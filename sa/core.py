"""Verdict protocol: obligations, known findings, evidence, replay files.

exit 0  every obligation discharged (KNOWN-FINDING lines allowed)
exit 1  an undischarged obligation that known_findings.json does not list -> VIOLATION line
exit 2  analysis broken: anchor vanished, instance count below the confirmed minimum,
        unrecognised idiom, fixture silent, extractor/cmake failure
"""
import json
import os
import re
import sys
import time

from .extract import AnalysisBroken, VERIF, REPO

OK, VIOLATED, BROKEN = "ok", "violated", "broken"


class Ob:
    """one obligation = one (rule, site) pair that was evaluated"""

    __slots__ = ("rule", "fn", "construct", "status", "why", "site", "detail", "fixture")

    def __init__(self, rule, fn, construct, status, why, site, detail=None, fixture=False):
        self.rule = rule
        self.fn = fn  # function / class identity (position free)
        self.construct = construct  # construct signature (position free)
        self.status = status
        self.why = why
        self.site = site  # file:line for humans
        self.detail = detail
        self.fixture = fixture

    def key(self):
        return (self.rule, self.fn, self.construct)

    def as_dict(self):
        d = {"rule": self.rule, "function": self.fn, "construct": self.construct, "status": self.status,
             "why": self.why, "site": self.site}
        if self.detail is not None:
            d["detail"] = self.detail
        return d


class Ctx:
    """what a rule module gets: the program, and methods to record obligations"""

    def __init__(self, prop, prog, tier):
        self.prop = prop
        self.prog = prog
        self.tier = tier
        self.obs = []
        self.rule_doc = {}
        self.assumptions = []
        self.trusted = []
        self.tables = {}
        self.notes = []
        self.mins = {}  # rule -> (minimum, found)

    # --- recording
    def rule(self, rid, doc):
        self.rule_doc[rid] = doc

    def _site(self, where):
        if where is None:
            return "?"
        if isinstance(where, str):
            return where
        if isinstance(where, tuple):
            fn, ln = where
            return "%s:%s" % (fn.file, ln or fn.line)
        return where.site

    def _fnid(self, fn):
        if fn is None:
            return "-"
        if isinstance(fn, str):
            return fn
        return fn.id

    def ok(self, rule, fn, construct, why="", where=None, detail=None):
        self.obs.append(Ob(rule, self._fnid(fn), construct, OK, why, self._site(where if where is not None else fn), detail))

    def bad(self, rule, fn, construct, why, where=None, detail=None):
        self.obs.append(Ob(rule, self._fnid(fn), construct, VIOLATED, why, self._site(where if where is not None else fn), detail))

    def broken(self, rule, fn, construct, why, where=None, detail=None):
        self.obs.append(Ob(rule, self._fnid(fn), construct, BROKEN, why, self._site(where if where is not None else fn), detail))

    def check(self, cond, rule, fn, construct, why_bad, where=None, why_ok="", detail=None):
        if cond:
            self.ok(rule, fn, construct, why_ok, where, detail)
        else:
            self.bad(rule, fn, construct, why_bad, where, detail)
        return cond

    def fixture(self, rule, name, fired, expect=True, what=""):
        """a must-fire (expect=True) / must-stay-silent (expect=False) example under /verif/fixtures; a fixture that
        does not behave means the rule's recogniser is blind or over-eager: analysis broken"""
        ok = bool(fired) == bool(expect)
        o = Ob(rule, "fixture:" + name, "must-fire" if expect else "must-stay-silent", OK if ok else BROKEN,
               what if ok else "fixture %s: the rule %s on it" % (name, "did not fire" if expect else "fired"), "/verif/fixtures/facts_fixtures.cpp", None, True)
        self.obs.append(o)
        return ok

    def need(self, rule, what, found, minimum):
        """instance-count guard: fewer recognised instances than confirmed by hand = analysis broken"""
        self.mins[rule + ":" + what] = (minimum, found)
        if found < minimum:
            self.broken(rule, "-", "instances:" + what,
                        "recognised %d instance(s) of %s, hand-confirmed minimum is %d" % (found, what, minimum), "-")

    def anchor(self, rule, name, found):
        """an anchor (function/class) a rule is written for must exist"""
        if not found:
            self.broken(rule, name, "anchor", "anchor %s not found in the analysed program" % name, "-")
            return False
        return True

    def assume(self, text):
        if text not in self.assumptions:
            self.assumptions.append(text)

    def trust(self, text):
        if text not in self.trusted:
            self.trusted.append(text)

    def note(self, text):
        self.notes.append(text)


# --------------------------------------------------------------------------- known findings

def load_known():
    p = os.path.join(VERIF, "known_findings.json")
    if not os.path.exists(p):
        return []
    return json.load(open(p)).get("findings", [])


def match_known(prop, ob, known):
    for k in known:
        if k.get("status") != "known":
            continue  # fixed entries never suppress
        if k.get("property") != prop or k.get("rule") != ob.rule:
            continue
        key = k.get("key", {})
        if key.get("function") == ob.fn and key.get("construct") == ob.construct:
            return k
    return None


# --------------------------------------------------------------------------- running

def run_property(prop, module, prog, tier, seed, fixtures_only=False):
    ctx = Ctx(prop, prog, tier)
    module.run(ctx)
    return ctx


def finish(prop, ctx, tier, seed, t0, extra_cov=None, quiet=False):
    known = load_known()
    evid_dir = os.path.join(VERIF, "evidence")
    os.makedirs(os.path.join(evid_dir, "replay"), exist_ok=True)
    # remove stale replay files of this property
    for f in os.listdir(os.path.join(evid_dir, "replay")):
        if f.startswith(prop + "-"):
            os.unlink(os.path.join(evid_dir, "replay", f))
    real = [o for o in ctx.obs if not o.fixture]
    viol = [o for o in real if o.status == VIOLATED]
    brok = [o for o in ctx.obs if o.status == BROKEN]
    okc = [o for o in real if o.status == OK]
    out = []
    known_hits, new_viol = [], []
    for o in viol:
        k = match_known(prop, o, known)
        if k:
            known_hits.append((o, k))
        else:
            new_viol.append(o)
    for o, k in known_hits:
        out.append("KNOWN-FINDING: property=%s %s [%s %s %s]" % (prop, k.get("what", o.why), o.rule, o.site, o.construct))
    n = 0
    for o in new_viol:
        n += 1
        rp = os.path.join(evid_dir, "replay", "%s-%d.json" % (prop, n))
        json.dump({"property": prop, "rule": o.rule, "rule_doc": ctx.rule_doc.get(o.rule, ""), "function": o.fn,
                   "construct": o.construct, "site": o.site, "why": o.why, "detail": o.detail,
                   "replay": "./check %s --replay %s" % (prop, rp)}, open(rp, "w"), indent=1)
        out.append("%s: %s: %s: %s" % (o.site, o.rule, o.construct, o.why))
        out.append("VIOLATION property=%s replay=%s" % (prop, rp))
    for o in brok:
        out.append("ANALYSIS-BROKEN property=%s %s: %s: %s: %s" % (prop, o.site, o.rule, o.construct, o.why))
    # evidence
    distinct = len({o.key() for o in real if o.status in (OK, VIOLATED)})
    per_rule = {}
    for o in real:
        r = per_rule.setdefault(o.rule, {"obligations": 0, "discharged": 0, "violated": 0, "broken": 0})
        r["obligations"] += 1
        if o.status == OK:
            r["discharged"] += 1
        elif o.status == VIOLATED:
            r["violated"] += 1
        else:
            r["broken"] += 1
    samples = [o.as_dict() for o in (viol[:6] + okc[:14])]
    fix = [o for o in ctx.obs if o.fixture]
    cov = {
        "explanation": "static analysis of /repo's current source: every obligation is one (rule, construct) pair "
                       "recognised in the resolved program (clang AST + CFG facts, whole-program call graph) and decided "
                       "without executing library code; see rules and DESIGN.md section 5 (%s)" % prop,
        "obligations": len(real),
        "discharged": len(okc),
        "evaluations": len(ctx.obs),
        "distinct_nontrivial": distinct,
        "rule": "one obligation per rule instance found in the analysed program; distinct = distinct (rule, function, "
                "construct) triples whose recogniser matched real code (fixtures excluded)",
        "samples": samples,
        "rules": {r: {"doc": ctx.rule_doc.get(r, ""), **v} for r, v in sorted(per_rule.items())},
        "minimum_instances": {k: {"min": v[0], "found": v[1]} for k, v in sorted(ctx.mins.items())},
        "fixtures": {"evaluated": len(fix), "fired_as_expected": len([o for o in fix if o.status == OK])},
        "known_findings_matched": len(known_hits),
        "units": getattr(ctx.prog, "units", []),
        "functions_analysed": len(getattr(ctx.prog, "fns", {})),
        "classes_analysed": len(getattr(ctx.prog, "classes", {})),
        "tables": ctx.tables,
        "notes": ctx.notes,
        "trusted_base": ["clang 14 parser/sema/template instantiation/CFG builder", "cmake compile database",
                         "python implementation of the analyses (validated by fixtures and seeded variants)"] + ctx.trusted,
        "checker_cmd": "./check %s --tier %s" % (prop, tier),
        "exhaustive": True,
    }
    if extra_cov:
        cov.update(extra_cov)
    ev = {"property_id": prop, "tier": tier, "seed": seed, "level": "other", "coverage": cov,
          "assumptions": ctx.assumptions, "wall_s": round(time.time() - t0, 3),
          "violations": len(new_viol)}
    json.dump(ev, open(os.path.join(evid_dir, prop + ".json"), "w"), indent=1)
    if not quiet:
        for l in out:
            print(l)
        print("%s: %d obligations, %d discharged, %d violated (%d known), %d broken; %d fixtures; %.1fs" % (
            prop, len(real), len(okc), len(viol), len(known_hits), len(brok), len(fix), time.time() - t0))
    # a violated obligation comes from a *recognised* instance, so it stands even if another rule could not be evaluated
    if new_viol:
        return 1
    if brok:
        return 2
    return 0
