"""A8: languages of regex *literals*. Parses the ECMAScript subset used in the repository (literals, escapes,
classes, `.` = any byte except CR/LF, * + ? {m,n}, groups, alternation) into an NFA over bytes, determinises, and
decides inclusion / equality against a specification automaton (same syntax). Nothing is executed: this inspects a
constant in the source.
"""

ALL = frozenset(range(256))
DOT = ALL - {10, 13}
DIGIT = frozenset(range(48, 58))
WORD = frozenset(list(range(48, 58)) + list(range(65, 91)) + list(range(97, 123)) + [95])
SPACE = frozenset([9, 10, 11, 12, 13, 32])


class Unsupported(Exception):
    pass


class SyntaxError_(Exception):
    pass


class _P:
    def __init__(self, s):
        self.s = s
        self.i = 0

    def peek(self):
        return self.s[self.i] if self.i < len(self.s) else None

    def eat(self, c=None):
        ch = self.peek()
        if ch is None or (c is not None and ch != c):
            raise SyntaxError_("expected %r at %d in %r" % (c, self.i, self.s))
        self.i += 1
        return ch

    def alt(self):
        parts = [self.cat()]
        while self.peek() == "|":
            self.eat()
            parts.append(self.cat())
        return parts[0] if len(parts) == 1 else ("alt", parts)

    def cat(self):
        items = []
        while self.peek() is not None and self.peek() not in "|)":
            items.append(self.quant())
        if not items:
            return ("empty",)
        return items[0] if len(items) == 1 else ("cat", items)

    def quant(self):
        a = self.atom()
        while True:
            c = self.peek()
            if c == "*":
                self.eat()
                a = ("star", a)
            elif c == "+":
                self.eat()
                a = ("cat", [a, ("star", a)])
            elif c == "?":
                self.eat()
                a = ("alt", [a, ("empty",)])
            elif c == "{":
                j = self.s.find("}", self.i)
                body = self.s[self.i + 1:j] if j > 0 else ""
                import re
                m = re.match(r"^(\d+)(,(\d*))?$", body)
                if not m:
                    raise SyntaxError_("bad quantifier {%s}" % body)
                self.i = j + 1
                lo = int(m.group(1))
                hi = lo if m.group(2) is None else (None if m.group(3) == "" else int(m.group(3)))
                if hi is not None and hi < lo:
                    raise SyntaxError_("bad range {%s}" % body)
                parts = [a] * lo
                if hi is None:
                    parts.append(("star", a))
                else:
                    opt = ("empty",)
                    for _ in range(hi - lo):
                        opt = ("alt", [("cat", [a, opt]), ("empty",)])
                    parts.append(opt)
                a = ("cat", parts) if parts else ("empty",)
            else:
                break
            if self.peek() == "?":  # lazy quantifier: same language
                self.eat()
        return a

    def escape(self, in_class=False):
        c = self.eat()
        if c == "d":
            return DIGIT
        if c == "D":
            return ALL - DIGIT
        if c == "w":
            return WORD
        if c == "W":
            return ALL - WORD
        if c == "s":
            return SPACE
        if c == "S":
            return ALL - SPACE
        if c == "n":
            return frozenset([10])
        if c == "r":
            return frozenset([13])
        if c == "t":
            return frozenset([9])
        if c == "f":
            return frozenset([12])
        if c == "v":
            return frozenset([11])
        if c == "0":
            return frozenset([0])
        if c == "x":
            h = self.s[self.i:self.i + 2]
            self.i += 2
            try:
                return frozenset([int(h, 16)])
            except ValueError:
                raise SyntaxError_("bad \\x escape")
        if c in "bB" and not in_class:
            raise Unsupported("word boundary assertion")
        if c.isdigit():
            raise Unsupported("back reference")
        if c.isalpha() and c not in "bB":
            raise SyntaxError_("unknown escape \\%s" % c)
        return frozenset([ord(c) & 0xFF])

    def atom(self):
        c = self.peek()
        if c == "(":
            self.eat()
            if self.s[self.i:self.i + 2] == "?:":
                self.i += 2
            elif self.peek() == "?":
                raise Unsupported("lookahead / special group")
            a = self.alt()
            self.eat(")")
            return a
        if c == "[":
            self.eat()
            neg = False
            if self.peek() == "^":
                self.eat()
                neg = True
            st = set()
            first = True
            while True:
                ch = self.peek()
                if ch is None:
                    raise SyntaxError_("unterminated class")
                if ch == "]" and not first:
                    self.eat()
                    break
                if ch == "]" and first:
                    # ECMAScript: [] is the empty class, [^] is any
                    self.eat()
                    break
                first = False
                if ch == "[" and self.s[self.i:self.i + 2] in ("[:", "[=", "[."):
                    raise Unsupported("POSIX class")
                if ch == "\\":
                    self.eat()
                    lo = self.escape(True)
                else:
                    self.eat()
                    lo = frozenset([ord(ch) & 0xFF])
                if self.peek() == "-" and self.s[self.i + 1:self.i + 2] not in ("]", ""):
                    self.eat()
                    ch2 = self.eat()
                    if ch2 == "\\":
                        hi = self.escape(True)
                    else:
                        hi = frozenset([ord(ch2) & 0xFF])
                    if len(lo) != 1 or len(hi) != 1:
                        raise SyntaxError_("bad range in class")
                    a, b = min(lo), min(hi)
                    if b < a:
                        raise SyntaxError_("range out of order in class")
                    st |= set(range(a, b + 1))
                else:
                    st |= lo
            return ("set", frozenset(ALL - st if neg else st))
        if c == ".":
            self.eat()
            return ("set", DOT)
        if c == "\\":
            self.eat()
            return ("set", self.escape())
        if c in "*+?":
            raise SyntaxError_("nothing to repeat at %d" % self.i)
        if c in "^$":
            raise Unsupported("anchor")
        if c == "{":
            # literal brace when not a quantifier position (ECMAScript would reject; libstdc++ rejects too)
            raise SyntaxError_("unescaped { at %d" % self.i)
        if c == "}":
            raise SyntaxError_("unescaped } at %d" % self.i)
        self.eat()
        return ("set", frozenset([ord(c) & 0xFF]))


def parse(s):
    p = _P(s)
    a = p.alt()
    if p.peek() is not None:
        raise SyntaxError_("unbalanced ) at %d in %r" % (p.i, s))
    return a


# --------------------------------------------------------------------------- automata

class NFA:
    def __init__(self):
        self.eps = {}
        self.tr = {}
        self.n = 0

    def new(self):
        self.n += 1
        return self.n - 1

    def add_eps(self, a, b):
        self.eps.setdefault(a, set()).add(b)

    def add(self, a, st, b):
        self.tr.setdefault(a, []).append((st, b))


def _build(nfa, ast):
    k = ast[0]
    s, t = nfa.new(), nfa.new()
    if k == "empty":
        nfa.add_eps(s, t)
    elif k == "set":
        nfa.add(s, ast[1], t)
    elif k == "cat":
        cur = s
        for x in ast[1]:
            a, b = _build(nfa, x)
            nfa.add_eps(cur, a)
            cur = b
        nfa.add_eps(cur, t)
    elif k == "alt":
        for x in ast[1]:
            a, b = _build(nfa, x)
            nfa.add_eps(s, a)
            nfa.add_eps(b, t)
    elif k == "star":
        a, b = _build(nfa, ast[1])
        nfa.add_eps(s, a)
        nfa.add_eps(b, a)
        nfa.add_eps(s, t)
        nfa.add_eps(b, t)
    else:
        raise Unsupported(k)
    return s, t


class DFA:
    """complete DFA over bytes: trans[state][byte] -> state"""

    def __init__(self, trans, start, accept):
        self.trans = trans
        self.start = start
        self.accept = accept

    def accepts(self, data):
        s = self.start
        for b in data:
            s = self.trans[s][b]
        return s in self.accept


def compile(regex_or_ast):
    ast = parse(regex_or_ast) if isinstance(regex_or_ast, str) else regex_or_ast
    nfa = NFA()
    s, t = _build(nfa, ast)

    def closure(S):
        st = list(S)
        out = set(S)
        while st:
            x = st.pop()
            for y in nfa.eps.get(x, ()):
                if y not in out:
                    out.add(y)
                    st.append(y)
        return frozenset(out)

    start = closure({s})
    ids = {start: 0}
    trans = []
    work = [start]
    accept = set()
    while work:
        S = work.pop()
        i = ids[S]
        while len(trans) <= i:
            trans.append(None)
        row = [None] * 256
        # group bytes by target set
        moves = {}
        for x in S:
            for (st, y) in nfa.tr.get(x, ()):
                for b in st:
                    moves.setdefault(b, set()).add(y)
        cache = {}
        for b in range(256):
            tgt = frozenset(moves.get(b, ()))
            if tgt not in cache:
                cache[tgt] = closure(tgt)
            T = cache[tgt]
            if T not in ids:
                ids[T] = len(ids)
                work.append(T)
            row[b] = ids[T]
        trans[i] = row
        if t in S:
            accept.add(i)
    return DFA(trans, 0, accept)


def included(A, B):
    """L(A) subset of L(B)? returns (True, None) or (False, counterexample bytes)"""
    from collections import deque
    seen = {(A.start, B.start): None}
    q = deque([(A.start, B.start)])
    while q:
        a, b = q.popleft()
        if a in A.accept and b not in B.accept:
            # reconstruct
            w = []
            cur = (a, b)
            while seen[cur] is not None:
                prev, byte = seen[cur]
                w.append(byte)
                cur = prev
            return False, bytes(reversed(w))
        for byte in range(256):
            nx = (A.trans[a][byte], B.trans[b][byte])
            if nx not in seen:
                seen[nx] = ((a, b), byte)
                q.append(nx)
    return True, None


def equal(A, B):
    r, w = included(A, B)
    if not r:
        return False, ("in first only", w)
    r, w = included(B, A)
    if not r:
        return False, ("in second only", w)
    return True, None
