"""Builds the facts for /repo's *current working tree* (cached by content hash).

Units: every library unit of the compile database cmake generates for /repo (flags taken from it,
-std=gnu++17 stated explicitly) + the witness / fixture units under /verif.
"""
import fcntl
import hashlib
import json
import os
import shutil
import subprocess
import sys
import tempfile
import time
from concurrent.futures import ThreadPoolExecutor

from . import ir

VERIF = os.path.dirname(os.path.dirname(os.path.abspath(__file__)))
REPO = os.environ.get("NITRO_REPO", "/repo")
FACTS_BIN = os.path.join(VERIF, "build", "nitro-facts")
CACHE = os.path.join(VERIF, "build", "cache")


class AnalysisBroken(Exception):
    """exit 2: the analysis could not be carried out (never a pass, never a violation)"""


def _resource_dir():
    return subprocess.check_output(["clang++", "-print-resource-dir"], text=True).strip()


EXTRA_DEFINES = []  # additional -D switches of the configuration being analysed (set by load_program)
STD_OVERRIDE = []  # [-std=...] replacing the build's language standard (thorough tier: the standards the library supports)


def _hash_tree():
    h = hashlib.sha256()
    h.update(("defines:" + " ".join(EXTRA_DEFINES) + " std:" + " ".join(STD_OVERRIDE)).encode())
    paths = []
    for top in ("include", "src", "cmake"):
        for root, dirs, files in os.walk(os.path.join(REPO, top)):
            dirs.sort()
            for f in sorted(files):
                paths.append(os.path.join(root, f))
    paths.append(os.path.join(REPO, "CMakeLists.txt"))
    for sub in ("witness", "fixtures"):
        d = os.path.join(VERIF, sub)
        if os.path.isdir(d):
            for root, dirs, files in os.walk(d):
                dirs.sort()
                for f in sorted(files):
                    paths.append(os.path.join(root, f))
    paths.append(FACTS_BIN)
    for p in paths:
        try:
            with open(p, "rb") as fh:
                data = fh.read()
        except OSError:
            data = b"<missing>"
        h.update(p.encode())
        h.update(b"\0")
        h.update(hashlib.sha256(data).digest())
    return h.hexdigest()[:24]


def compile_db():
    """[(file, flags)] for the library units, from cmake's compile database for /repo"""
    tmp = tempfile.mkdtemp(prefix="nitro-cdb-")
    try:
        r = subprocess.run(["cmake", "-G", "Ninja", "-S", REPO, "-B", tmp, "-DCMAKE_EXPORT_COMPILE_COMMANDS=ON",
                            "-DCMAKE_BUILD_TYPE="],
                           stdout=subprocess.PIPE, stderr=subprocess.STDOUT, text=True)
        db_path = os.path.join(tmp, "compile_commands.json")
        if r.returncode != 0 or not os.path.exists(db_path):
            raise AnalysisBroken("cmake could not generate a compile database for %s:\n%s" % (REPO, r.stdout[-2000:]))
        db = json.load(open(db_path))
    finally:
        shutil.rmtree(tmp, ignore_errors=True)
    units = {}
    for e in db:
        f = os.path.realpath(e["file"])
        if not f.startswith(os.path.join(REPO, "src") + os.sep):
            continue
        if f in units:
            continue
        args = e.get("arguments") or _split(e["command"])
        flags = []
        skip = False
        for i, a in enumerate(args[1:]):
            if skip:
                skip = False
                continue
            if a in ("-o", "-c", "-MF", "-MT", "-MQ"):
                skip = True
                continue
            if a in ("-MD", "-MMD", "-g", "-fPIC"):
                continue
            if os.path.realpath(a) == f:
                continue
            flags.append(a)
        if not any(x.startswith("-std=") for x in flags):
            flags.append("-std=gnu++17")
        units[f] = flags
    if not units:
        raise AnalysisBroken("compile database lists no unit under %s/src" % REPO)
    return sorted(units.items())


def _split(cmd):
    import shlex
    return shlex.split(cmd)


def extra_units():
    """witness and fixture units under /verif that are analysed as facts"""
    out = []
    base = ["-std=gnu++17", "-I" + os.path.join(REPO, "include"), "-I" + os.path.join(VERIF, "witness")]
    for sub in ("witness", "fixtures"):
        d = os.path.join(VERIF, sub)
        if not os.path.isdir(d):
            continue
        for f in sorted(os.listdir(d)):
            if f.startswith("facts_") and f.endswith(".cpp"):
                out.append((os.path.join(d, f), list(base)))
    return out


def _extract_one(job):
    src, flags, out, rdir = job
    if STD_OVERRIDE:
        flags = [a for a in flags if not a.startswith("-std=")] + ["-std=" + STD_OVERRIDE[0]]
    cmd = [FACTS_BIN, "--root", REPO + "/include", "--root", REPO + "/src", "--root", VERIF + "/witness",
           "--root", VERIF + "/fixtures", "-o", out, src, "--"] + flags + ["-UNDEBUG"] + [("-U" + m[1:]) if m.startswith("!") else ("-D" + m) for m in EXTRA_DEFINES] + ["-resource-dir", rdir,
                                                                                                                  "-Wno-everything"]
    t0 = time.time()
    r = subprocess.run(cmd, stdout=subprocess.PIPE, stderr=subprocess.STDOUT, text=True)
    return src, r.returncode, r.stdout, time.time() - t0, out


def build_facts(verbose=False):
    """returns (cache_dir, manifest dict). Extracts when the tree hash is new."""
    if not os.path.exists(FACTS_BIN):
        raise AnalysisBroken("extractor %s missing: run tools/build.sh (MANIFEST.setup_cmd)" % FACTS_BIN)
    os.makedirs(CACHE, exist_ok=True)
    key = _hash_tree()
    cdir = os.path.join(CACHE, key)
    lock = open(os.path.join(CACHE, ".lock"), "w")
    fcntl.flock(lock, fcntl.LOCK_EX)
    try:
        man_path = os.path.join(cdir, "manifest.json")
        if os.path.exists(man_path):
            return cdir, json.load(open(man_path))
        if os.path.isdir(cdir):
            shutil.rmtree(cdir)
        os.makedirs(cdir)
        t0 = time.time()
        units = compile_db() + extra_units()
        rdir = _resource_dir()
        jobs = []
        for i, (src, flags) in enumerate(units):
            out = os.path.join(cdir, "u%02d_%s.json" % (i, os.path.basename(src).replace(".cpp", "")))
            jobs.append((src, flags, out, rdir))
        results = []
        with ThreadPoolExecutor(max_workers=min(16, len(jobs))) as ex:
            for res in ex.map(_extract_one, jobs):
                results.append(res)
        man = {"key": key, "units": [], "failed": [], "wall_s": 0}
        for (src, rc, out_text, dt, out), (_, flags, _, _) in zip(results, jobs):
            entry = {"src": src, "flags": flags, "facts": out, "seconds": round(dt, 2)}
            if rc != 0 or not os.path.exists(out):
                entry["error"] = out_text[-4000:]
                man["failed"].append(entry)
            else:
                man["units"].append(entry)
        man["wall_s"] = round(time.time() - t0, 2)
        # prune old caches (keep the 6 most recent)
        try:
            ds = [os.path.join(CACHE, d) for d in os.listdir(CACHE) if os.path.isdir(os.path.join(CACHE, d))]
            ds.sort(key=os.path.getmtime, reverse=True)
            for d in ds[6:]:
                shutil.rmtree(d, ignore_errors=True)
        except OSError:
            pass
        json.dump(man, open(man_path, "w"), indent=1)
        return cdir, man
    finally:
        fcntl.flock(lock, fcntl.LOCK_UN)
        lock.close()


KNOWN_MACROS_FILE = os.path.join(VERIF, "rules", "known_macros.txt")


def tested_macros():
    """identifiers that /repo's own sources test in #if / #ifdef / #ifndef / #elif / defined(...)"""
    import re
    out = {}
    for top in ("include", "src"):
        for root, dirs, files in os.walk(os.path.join(REPO, top)):
            dirs.sort()
            for f in sorted(files):
                p = os.path.join(root, f)
                try:
                    text = open(p, encoding="latin-1").read()
                except OSError:
                    continue
                text = re.sub(r"\\\n", " ", text)
                lines_ = text.splitlines()
                for ln, line in enumerate(lines_, 1):
                    m = re.match(r"\s*#\s*(ifdef|ifndef|if|elif)\b(.*)", line)
                    if not m:
                        continue
                    if m.group(1) == "ifndef":
                        # include guard: `#ifndef X` directly followed by `#define X`
                        g = m.group(2).strip()
                        nxt = next((l for l in lines_[ln:] if l.strip()), "")
                        if re.match(r"\s*#\s*define\s+%s\b" % re.escape(g), nxt):
                            continue
                    rest = re.sub(r"//.*|/\*.*?\*/", "", m.group(2))
                    for ident in re.findall(r"[A-Za-z_]\w*", rest):
                        if ident in ("defined", "__has_include", "__has_cpp_attribute", "__has_attribute", "__has_builtin", "__has_feature", "true", "false"):
                            continue
                        out.setdefault(ident, "%s:%d" % (p, ln))
    return out


def unknown_switches():
    """build-time switches the sources test that the frozen table does not know: [(macro, where)]. Reserved identifiers
    (compiler / platform / library feature macros) are not switches of this repository."""
    if not os.path.exists(KNOWN_MACROS_FILE):
        return []
    known = {l.strip() for l in open(KNOWN_MACROS_FILE) if l.strip() and not l.startswith("#")}
    out = []
    for m, where in sorted(tested_macros().items()):
        if m in known or m.startswith("__") or (m.startswith("_") and m[1:2].isupper()):
            continue
        out.append((m, where))
    return out


def extra_configurations():
    """configurations the sources ask for without a switch of their own:
    - `NDEBUG`, when a library source uses assert(): what stands inside an assert is gone in a release build;
    - `-U<feature macro>` for every language / library feature-test macro (`__cpp_*`) the sources test that the frozen table does
      not know: the branch for compilers without the feature (e.g. the C++14 branch of a header) is code of the library, too.
    -> [(label, define token, where)]"""
    import re
    out = []
    known = set()
    if os.path.exists(KNOWN_MACROS_FILE):
        known = {l.strip() for l in open(KNOWN_MACROS_FILE) if l.strip() and not l.startswith("#")}
    for m, where in sorted(tested_macros().items()):
        if m.startswith("__cpp_") and m not in known:
            out.append(("-U" + m, "!" + m, where))
    for top in ("include", "src"):
        hit = None
        for root, dirs, files in os.walk(os.path.join(REPO, top)):
            dirs.sort()
            for f in sorted(files):
                p = os.path.join(root, f)
                try:
                    text = open(p, encoding="latin-1").read()
                except OSError:
                    continue
                text = re.sub(r"//[^\n]*|/\*.*?\*/", "", text, flags=re.S)
                m = re.search(r"\bassert\s*\(", text)
                if m and re.search(r"#\s*include\s*<(cassert|assert\.h)>", text):
                    hit = "%s:%d" % (p, text[:m.start()].count("\n") + 1)
                    break
            if hit:
                break
        if hit:
            out.append(("-DNDEBUG", "NDEBUG", hit))
            break
    return out


def load_program(verbose=False, defines=(), std=None):
    EXTRA_DEFINES[:] = list(defines)
    STD_OVERRIDE[:] = [std] if std else []
    try:
        return _load_program(verbose)
    finally:
        EXTRA_DEFINES[:] = []
        STD_OVERRIDE[:] = []


def _load_program(verbose=False):
    cdir, man = build_facts(verbose)
    lib_failed = [e for e in man["failed"] if e["src"].startswith(REPO)]
    if lib_failed:
        msg = "\n".join("%s:\n%s" % (e["src"], e["error"]) for e in lib_failed)
        raise AnalysisBroken("library unit(s) do not compile with clang, no facts:\n" + msg)
    prog = ir.Program()
    for e in man["units"]:
        prog.add_unit(e["facts"])
    prog.manifest = man
    prog.failed_units = man["failed"]
    if not os.environ.get("NITRO_VERIF_NO_INLINE"):
        from . import inline
        inline.normalise(prog)
    return prog
