"""A5: whole-program call graph, direct effects (writes / moves / throws), reachability."""
from collections import defaultdict

from . import ir
from .ir import walk, fmt, short

ASSIGN_OPS = {"=", "+=", "-=", "*=", "/=", "%=", "<<=", ">>=", "&=", "|=", "^="}


def split_params(fid):
    """parameter type strings from a function id 'qual(params) const#<...>'"""
    # find the parameter list: the first top-level '(' after the qualified name
    depth = 0
    start = None
    i = 0
    n = len(fid)
    # skip 'operator()' spelled names
    k = fid.find("operator()")
    if k >= 0:
        i = k + len("operator()")
    while i < n:
        c = fid[i]
        if c == "<":
            depth += 1
        elif c == ">":
            if i > 0 and fid[i - 1] == "-":
                pass
            else:
                depth -= 1
        elif c == "(" and depth == 0:
            start = i
            break
        i += 1
    if start is None:
        return []
    depth = 0
    j = start
    parts = []
    cur = ""
    while j < n:
        c = fid[j]
        if c in "(<[":
            depth += 1
            if depth > 1:
                cur += c
        elif c in ")>]":
            if c == ">" and fid[j - 1] == "-":
                cur += c
            else:
                depth -= 1
                if depth == 0:
                    break
                cur += c
        elif c == "," and depth == 1:
            parts.append(cur.strip())
            cur = ""
        else:
            cur += c
        j += 1
    if cur.strip():
        parts.append(cur.strip())
    return parts


def is_const_method_id(fid):
    """'...) const' or '...) const#<...>'"""
    if not fid:
        return False
    base = fid.split("#<", 1)[0].split(" -> ", 1)[0].rstrip()
    return base.endswith(" const")


def nonconst_ref_param(ptype):
    p = ptype.strip()
    if not p.endswith("&") or p.endswith("&&"):
        return False
    core = p[:-1].strip()
    if core.startswith("const ") or core.endswith(" const"):
        return False
    return True


def lvalue_root(n):
    """(kind, key, node): what object an lvalue expression designates.
    kind: 'field' (key = (field qual, base repr)), 'local', 'param', 'static', 'global', 'deref', 'other'"""
    n = ir.unwrap(n)
    if not isinstance(n, dict):
        return ("other", None, n)
    k = n.get("k")
    if k == "member" and not n.get("method"):
        return ("field", (n["field"], fmt(n.get("base"))), n)
    if k == "ref":
        kind, _, name = n["decl"].partition(":")
        if kind in ("local", "param", "static", "global"):
            return (kind, name, n)
        return ("other", n["decl"], n)
    if k == "subscript":
        r = lvalue_root(n["base"])
        return ("elem:" + r[0], r[1], n)
    if k == "un" and n["op"] == "*":
        r = lvalue_root(n["e"])
        return ("deref:" + r[0], r[1], n)
    if k == "call" and n.get("op") == "*" and n.get("this") is not None:
        r = lvalue_root(n["this"])
        return ("deref:" + r[0], r[1], n)
    if k == "cast":
        return lvalue_root(n["e"])
    return ("other", None, n)


def tree_effects(tree, into_sc=False):
    """yield (effect, lvalue_node, node) for one root tree.
    effect in: 'write' (assignment / ++ / non-const method / passed by non-const ref / init),
               'move' (std::move(x) / std::forward), 'call', 'throw', 'new', 'delete'"""
    for n in walk(tree, into_sc):
        k = n.get("k")
        if k == "bin" and n["op"] in ASSIGN_OPS:
            yield ("write", n["l"], n)
        elif k == "un" and n["op"] in ("++pre", "++post", "--pre", "--post"):
            yield ("write", n["e"], n)
        elif k == "decl":
            pass
        elif k == "call":
            yield ("call", None, n)
            op = n.get("op")
            th = n.get("this")
            if op in ASSIGN_OPS or op in ("++", "--"):
                target = th if th is not None else (n["args"][0] if n.get("args") else None)
                if target is not None:
                    yield ("write", target, n)
            elif th is not None and not n.get("dep"):
                cid = n.get("callee")
                if cid and not is_const_method_id(cid) and not n.get("conv"):
                    yield ("write", th, n)
            elif th is not None and n.get("dep"):
                # unresolved member call in a template pattern: conservatively a write of the receiver - unless the receiver has a
                # const type (a member seen from a const member function, a const local / parameter): only const members are viable
                tht = (ir.unwrap(th).get("type") or "") if isinstance(ir.unwrap(th), dict) else ""
                if not (tht.startswith("const ") and not tht.rstrip().endswith("*")):
                    yield ("maybe_write", th, n)
            nm = n.get("name") or ""
            if nm in ("std::move", "std::forward") and n.get("args"):
                yield ("move", n["args"][0], n)
            cid = n.get("callee")
            if cid and not n.get("noreturn"):
                # (what a call that never returns does to its arguments cannot be observed afterwards: raise(..., x, ...))
                ps = split_params(cid)
                args = n.get("args", [])
                if len(ps) >= len(args):
                    for a, p in zip(args, ps):
                        if nonconst_ref_param(p):
                            yield ("write", a, n)
        elif k == "construct":
            yield ("call", None, n)
        elif k == "throw":
            yield ("throw", None, n)
        elif k == "new":
            yield ("new", None, n)
        elif k == "delete":
            yield ("delete", None, n)


class CallGraph:
    def __init__(self, prog):
        self.prog = prog
        self.overriders = defaultdict(set)  # method id -> ids of methods overriding it (transitively)
        for f in prog.fns.values():
            for o in f.flags.get("overrides", []):
                self.overriders[o].add(f.id)
        for c in prog.classes.values():
            for m in c.get("methods", []):
                for o in m.get("overrides", []):
                    self.overriders[o].add(m["id"])
        # transitive closure
        changed = True
        while changed:
            changed = False
            for k in list(self.overriders):
                add = set()
                for o in self.overriders[k]:
                    add |= self.overriders.get(o, set())
                if not add <= self.overriders[k]:
                    self.overriders[k] |= add
                    changed = True
        self.sites = {}  # fn id -> list of site dicts
        self.edges = defaultdict(set)
        self.redges = defaultdict(set)
        self.unresolved = []
        for f in prog.fns.values():
            self.sites[f.id] = self._sites(f)
            for s in self.sites[f.id]:
                for t in s["targets"]:
                    self.edges[f.id].add(t)
                    self.redges[t].add(f.id)

    def targets_of(self, n):
        """callee ids a call/construct node may transfer control to (analysed functions and pass-through)"""
        out = []
        k = n.get("k")
        cid = n.get("callee") if k in ("call", "subscript") else n.get("ctor")
        if cid:
            if n.get("virtual"):
                out.append(cid)
                out.extend(sorted(self.overriders.get(cid, ())))
            else:
                out.append(cid)
        for r in n.get("reaches", []) or []:
            out.append(r)
        return out

    def _sites(self, f):
        res = []
        for bid, i, e in f.all_elems():
            if e["kind"] in ("stmt", "init") and e.get("expr") is not None:
                for n in walk(e["expr"], into_sc=False):
                    k = n.get("k")
                    if k in ("call", "construct") or (k == "subscript" and n.get("callee")):
                        t = self.targets_of(n)
                        if k == "call" and not n.get("callee") and not n.get("dep"):
                            self.unresolved.append((f.id, n))
                        res.append({"bid": bid, "idx": i, "node": n, "targets": t, "ln": n.get("ln")})
                    elif k == "delete":
                        pass
            elif e["kind"] == "auto_dtor" and e.get("callee"):
                res.append({"bid": bid, "idx": i, "node": e, "targets": [e["callee"]], "ln": None})
        return res

    def reachable(self, roots, stop=None):
        """ids of functions reachable from roots (including roots); stop: ids not expanded"""
        seen = set()
        st = list(roots)
        while st:
            x = st.pop()
            if x in seen:
                continue
            seen.add(x)
            if stop and x in stop:
                continue
            for t in self.edges.get(x, ()):
                if t not in seen:
                    st.append(t)
        return seen

    def chain(self, src, dst, stop=None):
        """one shortest call chain src -> dst as list of ids (for reports)"""
        from collections import deque
        prev = {src: None}
        q = deque([src])
        while q:
            x = q.popleft()
            if x == dst:
                break
            if stop and x in stop and x != src:
                continue
            for t in sorted(self.edges.get(x, ())):
                if t not in prev:
                    prev[t] = x
                    q.append(t)
        if dst not in prev:
            return None
        out = []
        x = dst
        while x is not None:
            out.append(x)
            x = prev[x]
        return out[::-1]

    def callers(self, fid):
        return self.redges.get(fid, set())

    # --- effects
    def field_writes(self, f):
        """[(field qual, base repr, node, bid, idx)] written directly in f (ctor inits included)"""
        out = []
        # reference locals bound to a data member are names of that member: `auto& left = limit_; left--;` writes limit_
        # ... and so is a reference bound to such a name, to an element reached through an iterator into the member (`for (auto& el : member)`,
        # `auto& el = *it` with `it = member.begin()`), or to what an owning pointer member points to (`auto& v = *ptr_member_`)
        alias = {}
        iters = {}
        decls = [v for bid, i, e in f.all_elems() if isinstance(e.get("expr"), dict) and e["expr"].get("k") == "decl" for v in e["expr"].get("vars", [])]
        for _ in range(4):
            changed = False
            for v in decls:
                if v.get("init") is None or v["name"] in alias or v["name"] in iters:
                    continue
                t = (v.get("type") or "").rstrip()
                init = ir.unwrap(v["init"])
                kind0, key0, _ = lvalue_root(init)
                base_kind = kind0.split(":")[-1]
                is_ref = (v.get("ref") or t.endswith("&")) and not t.startswith("const ")
                if is_ref:
                    if base_kind == "field":
                        alias[v["name"]] = key0
                        changed = True
                    elif base_kind == "local" and kind0.startswith("deref") and key0 in iters:
                        alias[v["name"]] = iters[key0]
                        changed = True
                    elif base_kind == "local" and key0 in alias:
                        alias[v["name"]] = alias[key0]
                        changed = True
                elif "iterator" in t and "const_iterator" not in t and isinstance(init, dict) and init.get("k") == "call" and init.get("this") is not None \
                        and short(init.get("name") or "") in ("begin", "end", "rbegin", "rend", "find", "lower_bound", "upper_bound"):
                    k1, key1, _ = lvalue_root(init["this"])
                    b1 = k1.split(":")[-1]
                    if b1 == "field":
                        iters[v["name"]] = key1
                        changed = True
                    elif b1 == "local" and key1 in alias:
                        iters[v["name"]] = alias[key1]
                        changed = True
            if not changed:
                break
        for bid, i, e in f.all_elems():
            if e["kind"] == "init" and e.get("field"):
                out.append((e["field"], "this", e, bid, i, "init"))
            if e.get("expr") is None or e["kind"] not in ("stmt", "init"):
                continue
            for eff, lv, n in tree_effects(e["expr"]):
                if eff in ("write", "maybe_write") and lv is not None:
                    kind, key, _ = lvalue_root(lv)
                    base_kind = kind.split(":")[-1]
                    if base_kind == "field":
                        out.append((key[0], key[1], n, bid, i, eff))
                    elif base_kind == "local" and key in alias and eff == "write" and not key.startswith("__") and not (isinstance(n, dict) and n.get("k") == "decl"):
                        out.append((alias[key][0], alias[key][1], n, bid, i, eff))
                    elif base_kind == "local" and kind.startswith("deref") and key in iters and eff == "write" and not (isinstance(n, dict) and n.get("k") == "call" and n.get("op") in ("++", "--")):
                        out.append((iters[key][0], iters[key][1], n, bid, i, eff))
        return out

    def static_writes(self, f):
        out = []
        for bid, i, e in f.all_elems():
            if e.get("expr") is None or e["kind"] not in ("stmt", "init"):
                continue
            for eff, lv, n in tree_effects(e["expr"]):
                if eff in ("write", "maybe_write") and lv is not None:
                    kind, key, _ = lvalue_root(lv)
                    if kind.split(":")[-1] in ("static", "global"):
                        out.append((key, n, bid, i))
        return out
