"""Context-sensitive walk of the call graph below an entry point (A2 + A5, bottom-up 'requires' turned top-down).

Starting at an entry function with no facts, every *feasible* call site hands its callee (i) an environment that
substitutes the callee's `this`/parameters by the caller's expressions and (ii) the must-facts holding at the call.
Inside the callee the same must-facts dataflow runs with that initial state, so a guard `if (!P()) raise<...>` whose
precondition the caller established becomes an infeasible edge and its raise block unreachable. What remains reachable
is reported to the visitor with the call chain.
"""
from . import ir, logic
from .logic import subst, canon
from .ir import walk, short


class Walk:
    def __init__(self, prog, cg, fe, max_depth=12):
        self.prog = prog
        self.cg = cg
        self.fe = fe
        self.max_depth = max_depth
        self.visited = {}
        self.contexts = 0
        self.cut = []  # chains cut off by the depth bound
        self._lid = 0

    def run(self, entry, on_block=None, on_call=None, skip=None, on_context=None):
        """on_block(fn, bid, env, envkey, init, chain, feasible_state) for every feasible block of every context;
        on_call(fn, bid, idx, node, env, envkey, init, chain, facts) for every feasible call/construct node."""
        self.on_block = on_block
        self.on_call = on_call
        self.on_context = on_context
        self.skip = skip or (lambda fid: False)
        lp = "%s$" % short(entry.qual)
        self._visit(entry, {"this": None, "params": {}, "lprefix": lp}, "root", frozenset(), (entry.id,))

    def _visit(self, fn, env, envkey, init, chain):
        key = (fn.id, envkey, init)
        if key in self.visited:
            return
        self.visited[key] = True
        self.contexts += 1
        if len(chain) > self.max_depth:
            self.cut.append(chain)
            return
        IN, before = self.fe.analyse(fn, env, envkey, init)
        if self.on_context:
            self.on_context(fn, env, envkey, init, chain, IN, before)
        for bid in sorted(IN, reverse=True):
            if self.on_block:
                self.on_block(fn, bid, env, envkey, init, chain, IN[bid])
            for i, e in enumerate(fn.elems(bid)):
                st = before.get((bid, i))
                if st is None:
                    continue
                nodes = []
                if e["kind"] in ("stmt", "init") and e.get("expr") is not None:
                    for n in walk(e["expr"], into_sc=False):
                        if n.get("k") in ("call", "construct") or (n.get("k") == "subscript" and n.get("callee")):
                            nodes.append(n)
                elif e["kind"] == "auto_dtor" and e.get("callee"):
                    nodes.append({"k": "call", "callee": e["callee"], "name": "~", "args": [], "dtor": True})
                for n in nodes:
                    if self.on_call:
                        self.on_call(fn, bid, i, n, env, envkey, init, chain, st)
                    self._descend(fn, n, env, st, chain)

    def _descend(self, fn, n, env, st, chain):
        direct = n.get("callee") if n.get("k") in ("call", "subscript") else n.get("ctor")
        targets = self.cg.targets_of(n)
        for t in targets:
            callee = self.prog.fn(t)
            if callee is None or not callee.has_cfg or self.skip(t):
                continue
            if t in chain:
                continue  # recursion: not expanded (none on the analysed paths)
            via_std = (t != direct) and not (n.get("virtual"))
            self._lid += 1
            lp = "%s$" % short(callee.qual).replace("operator", "op")
            if via_std:
                # reached through standard-library code: arguments unknown, caller facts still hold for caller objects
                cenv = {"this": {"k": "ref", "decl": "local:%sthis@std" % lp}, "params": {}, "lprefix": lp}
                ekey = "std:" + lp
            else:
                params = {}
                args = n.get("args", [])
                for p, a in zip(callee.params, args):
                    if p.get("name"):
                        params[p["name"]] = subst(a, env) if env else a
                this = n.get("this")
                if this is not None:
                    this = subst(this, env) if env else this
                    thu = ir.unwrap(this)
                    orig = ir.unwrap(n.get("this"))
                    if n.get("arrow") and not (isinstance(orig, dict) and orig.get("k") == "this"):
                        if isinstance(thu, dict) and thu.get("k") == "call" and (thu.get("name") or "").endswith("operator->"):
                            this = {"k": "un", "op": "*", "e": thu.get("this")}
                        else:
                            this = {"k": "un", "op": "*", "e": this}
                elif n.get("k") == "construct" or callee.kind in ("ctor",):
                    this = {"k": "ref", "decl": "local:%snew@%d" % (lp, self._lid)}
                elif callee.kind in ("method", "operator", "conversion", "dtor", "lambda") and not callee.flags.get("static"):
                    # implicit this of the caller (e.g. constructor delegation) or unknown object
                    this = env.get("this") if env and fn.cls == callee.cls else {"k": "ref", "decl": "local:%sobj@%d" % (lp, self._lid)}
                cenv = {"this": this, "params": params, "lprefix": lp}
                ekey = "%s|%s|%s" % (lp, canon(this) if this is not None else "-",
                                     ",".join("%s=%s" % (k, canon(v)) for k, v in sorted(params.items())))
            self._visit(callee, cenv, ekey, frozenset(st), chain + (t,))
