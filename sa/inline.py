"""A0: normalisation by inlining.

The rule tables name the repo's functions as they are decomposed today (rules/known_functions.txt, generated from the
tree the rules were written against).  A later edit may move part of a function body into a new helper ("extract
function") without changing behaviour.  So that such an edit neither hides a violation nor raises an alarm, every call
to a /repo function that the rule tables do NOT know is spliced into its caller's CFG before any rule runs:

  * a callee whose body is one `return e` (an expression function) is substituted in place, wherever the call occurs
    (also in branch conditions);
  * any other callee is spliced at statement level: the caller's block is split at the root expression that contains
    the call, the callee's blocks are copied in between (parameters replaced by the argument expressions or bound to
    fresh locals when the argument is not a plain access path, `this` replaced by the receiver, locals renamed on a
    clash), and every `return e` of the callee becomes a copy of the caller's root with the call replaced by `e`
    (a `return helper(x)` keeps returning; a `T v = helper(x)` declares v on every return path; `helper(x);` just
    evaluates e).  noreturn blocks of the callee (raise/throw) stay noreturn.

Inlining is semantics-preserving, therefore it can only expose what the helper does to the rules that look at the
caller; the helper itself stays in the program as a function of its own.  On a tree where every function is known
nothing is inlined.  Not inlined (the call is left as it is, and the rules treat it like any unknown call): virtual
calls, recursive helpers, lambdas, helpers bigger than MAX_BLOCKS, a multi-block helper called inside a short-circuit
operand or a branch condition.
"""
import copy
import os
import re
from . import ir
from .ir import Fn, walk, fmt

MAX_BLOCKS = 60
MAX_DEPTH = 3
HERE = os.path.dirname(os.path.dirname(os.path.abspath(__file__)))
KNOWN_FILE = os.path.join(HERE, "rules", "known_functions.txt")


def strip_targs(q):
    """nitro::lang::fixed_vector<int>::at -> nitro::lang::fixed_vector::at"""
    out = []
    depth = 0
    i = 0
    while i < len(q):
        c = q[i]
        if q.startswith("operator", i) and (i == 0 or q[i - 1] == ":"):
            out.append(q[i:])
            break
        if c == "<":
            depth += 1
        elif c == ">":
            depth -= 1
        elif depth == 0:
            out.append(c)
        i += 1
    return "".join(out)


def load_known():
    if not os.path.exists(KNOWN_FILE):
        return None
    return {l.strip() for l in open(KNOWN_FILE, encoding="utf-8") if l.strip() and not l.startswith("#")}


def program_quals(prog):
    return sorted({strip_targs(f.qual) for f in prog.fns.values() if f.file.startswith("/repo/") and f.kind != "lambda"})


def _plain_path(n):
    """an argument that can be substituted textually: access path without calls, literal, this"""
    n = ir.unwrap(n)
    if not isinstance(n, dict):
        return False
    k = n.get("k")
    if k in ("ref", "lit", "this"):
        return True
    if k == "member" and not n.get("method"):
        return _plain_path(n.get("base"))
    if k == "un" and n["op"] in ("*", "&"):
        return _plain_path(n["e"])
    if k == "cast":
        return _plain_path(n["e"])
    if k == "call" and (n.get("name") in ("std::move", "std::forward")) and n.get("args"):
        return _plain_path(n["args"][0])
    if k == "call" and n.get("op") in ("*", "->") and n.get("this") is not None and not n.get("args"):
        return _plain_path(n["this"])  # *it / it-> of an iterator that is itself an access path
    return False


class Inliner:
    def __init__(self, prog, known):
        self.prog = prog
        self.known = known
        self.log = []  # (caller id, callee id, mode)
        self._memo = {}
        self._stack = []

    # ------------------------------------------------------------------ which calls
    def callee_of(self, caller, n):
        if n.get("k") == "call" and n.get("op") == "()" and not n.get("noinline") and n.get("callee"):
            # a closure defined in this very function and called by name: `auto helper = [&] {...}; helper();`
            th = ir.unwrap(n.get("this")) if n.get("this") is not None else None
            lam = self.prog.fn(n["callee"])
            if (isinstance(th, dict) and th.get("k") == "ref" and th.get("decl", "").startswith("local:") and "(lambda in" in (th.get("type") or "")
                    and lam is not None and lam.kind == "lambda" and lam.has_cfg and lam.id.startswith(caller.id.split("#")[0] + "::<lambda")
                    and lam.file.startswith("/repo/") and len(lam.blocks) <= MAX_BLOCKS and lam.id not in self._stack):
                return lam
            return None
        if n.get("k") != "call" or n.get("virtual") or n.get("op") or n.get("noinline"):
            return None
        cid = n.get("callee")
        callee = self.prog.fn(cid) if cid else None
        if callee is None and n.get("dep") and caller.cls:
            nm = ir.short(n.get("name") or "")
            th = n.get("this")
            if th is None or (isinstance(ir.unwrap(th), dict) and ir.unwrap(th).get("k") == "this"):
                nargs = len([a for a in n.get("args", []) if not (isinstance(a, dict) and a.get("k") == "defarg")])
                cands = [g for g in self.prog.methods_of(caller.cls) if g.name == nm and g.has_cfg and len(g.params) == nargs]
                if len(cands) == 1:
                    callee = cands[0]
        if callee is None and n.get("dep") and n.get("this") is None and n.get("name"):
            # dependent call of a free function template by (qualified) name from inside another template
            nm = n["name"]
            nargs = len([a for a in n.get("args", []) if not (isinstance(a, dict) and a.get("k") == "defarg")])
            cands = [g for g in self.prog.by_qual_suffix(nm) if g.has_cfg and g.is_pattern and g.kind == "function" and len(g.params) == nargs]
            if len(cands) == 1:
                callee = cands[0]
        if callee is None or not callee.has_cfg:
            return None
        if not callee.file.startswith("/repo/"):
            return None
        if callee.kind not in ("method", "function"):
            return None
        if strip_targs(callee.qual) in self.known:
            return None
        if callee.id == caller.id or callee.id in self._stack:
            return None
        if len(callee.blocks) > MAX_BLOCKS:
            return None
        if callee.flags.get("virtual"):
            return None
        if any((p0.get("type") or "").rstrip().endswith("...") for p0 in callee.params) or any(isinstance(a, dict) and (a.get("k") == "pack" or fmt(a).endswith("...")) for a in n.get("args", [])):
            return None  # a pack expansion is not one argument: the uninstantiated pattern cannot be spliced
        return callee

    # ------------------------------------------------------------------ rewriting of the callee's trees
    def _rewriter(self, caller_names, callee, call, pre_elems):
        """returns fn(tree)->tree that maps the callee's expressions into the caller"""
        args = [a for a in call.get("args", [])]
        pmap = {}
        lren = {}
        for p, a in zip(callee.params, args):
            pn = p.get("name")
            if not pn:
                continue
            if isinstance(a, dict) and a.get("k") == "defarg":
                a = a.get("e") or a
            if _plain_path(a):
                pmap[pn] = a
            else:
                ln = pn + "@" + callee.name
                pre_elems.append({"expr": {"k": "decl", "ln": call.get("ln"), "vars": [{"name": ln, "type": p.get("type", ""), "init": a}]},
                                  "kind": "stmt", "ln": call.get("ln"), "text": "%s %s = <argument>" % (p.get("type", ""), ln), "inl": callee.id})
                pmap[pn] = {"k": "ref", "decl": "local:" + ln, "type": p.get("type", "")}
        # local names of the callee that clash
        for bid, i, e in callee.all_elems():
            x = e.get("expr")
            if x is None:
                continue
            for y in walk(x):
                if y.get("k") == "decl":
                    for v in y.get("vars", []):
                        if v["name"] in caller_names:
                            lren[v["name"]] = v["name"] + "@" + callee.name
        th = call.get("this")
        thu = ir.unwrap(th) if th is not None else None
        this_obj = None  # object expression replacing *this
        this_ptr = None  # pointer expression replacing this
        if callee.kind == "lambda":
            thu = None  # `this` inside a closure body is the captured enclosing object, captured locals keep their names
        if thu is not None and not (isinstance(thu, dict) and thu.get("k") == "this"):
            if call.get("arrow"):
                this_ptr = th
            else:
                this_obj = th

        def rw(n):
            if not isinstance(n, dict):
                return n
            k = n.get("k")
            if k == "this":
                if this_ptr is not None:
                    return copy.deepcopy(this_ptr)
                if this_obj is not None:
                    return {"k": "un", "op": "&", "e": copy.deepcopy(this_obj), "type": n.get("type", "")}
                return n
            if k == "ref":
                d = n.get("decl", "")
                if d.startswith("param:") and d[6:] in pmap:
                    return copy.deepcopy(pmap[d[6:]])
                if d.startswith("local:") and d[6:] in lren:
                    m = dict(n)
                    m["decl"] = "local:" + lren[d[6:]]
                    return m
                return n
            if this_obj is not None:
                if k == "un" and n["op"] == "*" and isinstance(ir.unwrap(n["e"]), dict) and ir.unwrap(n["e"]).get("k") == "this":
                    return copy.deepcopy(this_obj)
                bkey = "base" if k == "member" else ("this" if k == "call" else None)
                if bkey and n.get("arrow") and isinstance(n.get(bkey), dict) and ir.unwrap(n[bkey]).get("k") == "this":
                    m = {kk: (rw(v) if isinstance(v, dict) else [rw(x) for x in v] if isinstance(v, list) else v) for kk, v in n.items() if kk != bkey}
                    m[bkey] = copy.deepcopy(this_obj)
                    m["arrow"] = False
                    return m
            out = {}
            for kk, v in n.items():
                if isinstance(v, dict):
                    out[kk] = rw(v)
                elif isinstance(v, list):
                    out[kk] = [rw(x) if isinstance(x, dict) else x for x in v]
                else:
                    out[kk] = v
            if k == "decl":
                for v in out.get("vars", []):
                    if v.get("name") in lren:
                        v["name"] = lren[v["name"]]
            if k == "call" and (out.get("name") or "") in ("std::forward", "std::move") and len(out.get("args", [])) == 1:
                inner = ir.unwrap(out["args"][0])
                if isinstance(inner, dict) and inner.get("k") == "call" and (inner.get("name") or "") in ("std::forward", "std::move") and len(inner.get("args", [])) == 1:
                    # forward(forward(x)) == forward(x); move(forward(x)) == move(x)
                    if (out.get("name") or "") == "std::forward":
                        return inner
                    out["args"] = [inner["args"][0]]
            return out

        return rw

    @staticmethod
    def _replace(tree, target, repl):
        """copy of tree with the node `target` (by identity) replaced"""
        if tree is target:
            return repl
        if not isinstance(tree, dict):
            return tree
        out = {}
        for kk, v in tree.items():
            if isinstance(v, dict):
                out[kk] = Inliner._replace(v, target, repl)
            elif isinstance(v, list):
                out[kk] = [Inliner._replace(x, target, repl) if isinstance(x, dict) else x for x in v]
            else:
                out[kk] = v
        return out

    @staticmethod
    def _replace_equal(tree, target, repl):
        """copy of tree with every node structurally equal to target replaced"""
        if isinstance(tree, dict) and tree == target:
            return copy.deepcopy(repl)
        if not isinstance(tree, dict):
            return tree
        out = {}
        for kk, v in tree.items():
            if isinstance(v, dict):
                out[kk] = Inliner._replace_equal(v, target, repl)
            elif isinstance(v, list):
                out[kk] = [Inliner._replace_equal(x, target, repl) if isinstance(x, dict) else x for x in v]
            else:
                out[kk] = v
        return out

    @staticmethod
    def expression_body(callee):
        """the `e` of a callee whose whole body is `return e;` (None otherwise)"""
        live = [b for b in callee.reachable_blocks() if b != callee.exit]
        elems = []
        for b in live:
            if len(callee.succs(b)) > 1 and callee.term(b).get("kind") not in ("and", "or", "cond"):
                return None  # a statement-level branch; the blocks of && / || / ?: belong to one expression
            elems += [e for e in callee.elems(b) if e.get("expr") is not None]
        rets = [e for e in elems if e["expr"].get("k") == "return"]
        if len(rets) != 1 or rets[0]["expr"].get("e") is None:
            return None
        if len(elems) > 1:
            # everything else must be an operand of the returned expression, evaluated ahead of it by the short-circuit CFG
            whole = fmt(rets[0]["expr"]["e"])
            for e in elems:
                if e is rets[0]:
                    continue
                if e["expr"].get("k") in ("decl", "return") or fmt(e["expr"]) not in whole:
                    return None
        return rets[0]["expr"]["e"]

    # ------------------------------------------------------------------ main
    def expand(self, fn, depth=0):
        if fn.id in self._memo:
            return self._memo[fn.id]
        if not fn.has_cfg or depth > MAX_DEPTH:
            return fn
        if fn.file.startswith("/verif/"):
            return fn  # witness / fixture units are written against the public API: calls stay calls
        # quick scan
        found = False
        for bid, i, e in fn.roots():
            for n in walk(e["expr"]):
                if n.get("k") == "call" and (self.callee_of(fn, n) is not None or self._is_foreach(fn, n) is not None or (n.get("name") or "") == "std::find_if"):
                    found = True
                    break
            if found:
                break
        if not found:
            self._memo[fn.id] = fn
            return fn
        self._stack.append(fn.id)
        try:
            d = copy.deepcopy(fn.d)
            blocks = {b["id"]: b for b in d["cfg"]["blocks"]}
            cexit = d["cfg"]["exit"]
            names = {p.get("name") for p in fn.params if p.get("name")}
            for b in blocks.values():
                for e in b.get("elems", []):
                    if e.get("expr") is not None:
                        for y in walk(e["expr"]):
                            if y.get("k") == "decl":
                                names |= {v["name"] for v in y.get("vars", [])}
            guard = 0
            progress = True
            while progress and guard < 200:
                progress = False
                guard += 1
                for bid in sorted(blocks):
                    b = blocks[bid]
                    for i, e in enumerate(b.get("elems", [])):
                        x = e.get("expr")
                        if x is None or e.get("inl"):
                            continue
                        if self._foreach(fn, d, blocks, cexit, names, bid, i, e):
                            progress = True
                            break
                        if self._findif(fn, d, blocks, cexit, names, bid, i, e):
                            progress = True
                            break
                        site = None
                        for n in walk(x, into_sc=True):
                            if n.get("k") == "call":
                                cal = self.callee_of(fn, n)
                                if cal is not None:
                                    site = (n, cal)
                                    break
                        if site is None:
                            continue
                        n, cal = site
                        cal = self.expand(cal, depth + 1)
                        if self._splice(fn, d, blocks, cexit, names, bid, i, e, n, cal):
                            progress = True
                        else:
                            n["noinline"] = True  # leave the call as it is and look for the next site
                            self.log.append((fn.id, cal.id, "refused"))
                        progress = True
                        break
                    if progress:
                        break
            d["cfg"]["blocks"] = [blocks[k] for k in sorted(blocks)]
            new = Fn(d, fn.unit)
            new.inlined = True
        finally:
            self._stack.pop()
        self._memo[fn.id] = new
        return new

    # ------------------------------------------------------------------ std::for_each(first, last, lambda) -> loop
    def _is_foreach(self, fn, n):
        if n.get("k") != "call" or (n.get("name") or "") != "std::for_each" or n.get("noinline"):
            return None
        args = [a for a in n.get("args", []) if not (isinstance(a, dict) and a.get("k") == "defarg")]
        if len(args) != 3:
            return None
        lam = ir.unwrap(args[2])
        if not (isinstance(lam, dict) and lam.get("k") == "lambda"):
            return None
        if not fn.file.startswith("/repo/"):
            return None
        body = None
        for cid in list(lam.get("bodies", [])) + [lam.get("id")]:
            g = self.prog.fn(cid) if cid else None
            if g is not None and g.has_cfg and len(g.params) == 1 and len(g.blocks) <= MAX_BLOCKS:
                body = g
                break
        if body is None:
            return None
        return args[0], args[1], body

    def _foreach(self, fn, d, blocks, cexit, names, bid, i, e):
        """the statement `std::for_each(first, last, [..](auto& x) {body});` becomes the CFG of `for (x : [first, last)) body`"""
        x = e["expr"]
        xu = ir.unwrap(x)
        if not (isinstance(xu, dict) and xu.get("k") == "call"):
            return False
        fe = self._is_foreach(fn, xu)
        if fe is None or e.get("kind", "stmt") != "stmt":
            return False
        first, last, lam = fe
        self._k = getattr(self, "_k", 90) + 1
        K = self._k
        b = blocks[bid]
        ln = xu.get("ln")
        rng = None
        f0, l0 = ir.unwrap(first), ir.unwrap(last)
        if (isinstance(f0, dict) and isinstance(l0, dict) and f0.get("k") == "call" and l0.get("k") == "call" and ir.short(f0.get("name") or "") in ("begin", "cbegin")
                and ir.short(l0.get("name") or "") in ("end", "cend")):
            o1 = f0.get("this") if f0.get("this") is not None else (f0.get("args") or [None])[0]
            o2 = l0.get("this") if l0.get("this") is not None else (l0.get("args") or [None])[0]
            if o1 is not None and o2 is not None and ir.fmt(o1) == ir.fmt(o2):
                rng = o1

        def ref(nm, ty=""):
            return {"k": "ref", "decl": "local:" + nm, "type": ty}

        def decl(nm, init, ty=""):
            return {"expr": {"k": "decl", "ln": ln, "vars": [{"name": nm, "type": ty, "init": init}]}, "kind": "stmt", "ln": ln, "text": "%s = %s" % (nm, ir.fmt(init)), "inl": "std::for_each"}
        init_elems = []
        B, E = "__begin%d" % K, "__end%d" % K
        if rng is not None:
            R = "__range%d" % K
            init_elems.append(decl(R, rng, (ir.unwrap(rng).get("type") or "") + " &"))
            init_elems.append(decl(E, {"k": "call", "name": l0.get("name"), "callee": l0.get("callee"), "this": ref(R), "args": [], "arrow": False, "type": l0.get("type", ""), "ln": ln}))
            init_elems.append(decl(B, {"k": "call", "name": f0.get("name"), "callee": f0.get("callee"), "this": ref(R), "args": [], "arrow": False, "type": f0.get("type", ""), "ln": ln}))
        else:
            init_elems.append(decl(E, last))
            init_elems.append(decl(B, first))
        new_id = max(blocks) + 1
        head_id, latch_id, post_id = new_id, new_id + 1, new_id + 2
        new_id += 3
        cond = {"k": "bin", "op": "!=", "l": ref(B), "r": ref(E), "type": "bool", "ln": ln}
        post = {"id": post_id, "elems": b["elems"][i + 1:], "succ": b.get("succ", []), "term": b.get("term", {"kind": "none"})}
        if b.get("noreturn"):
            post["noreturn"] = True
        # the lambda body, its parameter bound to *__begin
        p0 = lam.params[0]
        pname = p0.get("name") or "__elem%d" % K
        fake_call = {"k": "call", "args": [], "ln": ln}
        rw = self._rewriter(names | {pname}, lam, fake_call, [])
        idmap = {}
        for cb in lam.blocks:
            if cb == lam.exit:
                continue
            idmap[cb] = new_id
            new_id += 1
        entry_id = idmap[lam.entry]
        for cb, cblock in lam.blocks.items():
            if cb == lam.exit:
                continue
            nb = {"id": idmap[cb], "elems": [], "term": {}, "succ": []}
            if cb == lam.entry:
                nb["elems"].append(decl(pname, {"k": "un", "op": "*", "e": ref(B), "ln": ln}, p0.get("type", "")))
            for ce in cblock.get("elems", []):
                cx = ce.get("expr")
                ne = dict(ce)
                ne["inl"] = lam.id
                if isinstance(cx, dict) and cx.get("k") == "return":
                    if cx.get("e") is None:
                        continue
                    ne["expr"] = rw(cx["e"])
                elif cx is not None:
                    ne["expr"] = rw(cx)
                nb["elems"].append(ne)
            ct = cblock.get("term", {"kind": "none"})
            nt = dict(ct)
            for key in ("cond", "full"):
                if isinstance(ct.get(key), dict):
                    nt[key] = rw(ct[key])
            nb["term"] = nt
            if cblock.get("noreturn"):
                nb["noreturn"] = True
            for s0 in cblock.get("succ", []):
                ns = dict(s0)
                if s0.get("to") == lam.exit:
                    ns["to"] = cexit if cblock.get("noreturn") else latch_id
                elif s0.get("to") is not None:
                    ns["to"] = idmap.get(s0["to"])
                nb["succ"].append(ns)
            blocks[nb["id"]] = nb
        # parameter references inside the body are param:<name> -> make them refs to the synthesized local
        def fix_param(n):
            if isinstance(n, dict):
                if n.get("k") == "ref" and n.get("decl") == "param:" + pname:
                    n["decl"] = "local:" + pname
                for v in n.values():
                    if isinstance(v, (dict, list)):
                        fix_param(v)
            elif isinstance(n, list):
                for y in n:
                    fix_param(y)
        for nid in idmap.values():
            for el in blocks[nid]["elems"][(1 if nid == entry_id else 0):]:
                fix_param(el.get("expr"))
            fix_param(blocks[nid].get("term"))
        blocks[head_id] = {"id": head_id, "elems": [{"expr": cond, "kind": "stmt", "ln": ln, "text": "%s != %s" % (B, E), "inl": "std::for_each"}],
                           "term": {"kind": "range_for", "cond": copy.deepcopy(cond), "ln": ln}, "succ": [{"to": entry_id}, {"to": post_id}]}
        blocks[latch_id] = {"id": latch_id, "elems": [{"expr": {"k": "un", "op": "++pre", "e": ref(B), "ln": ln}, "kind": "stmt", "ln": ln, "text": "++%s" % B, "inl": "std::for_each"}],
                            "term": {"kind": "none"}, "succ": [{"to": head_id}]}
        blocks[post_id] = post
        b["elems"] = b["elems"][:i] + init_elems
        b["succ"] = [{"to": head_id}]
        b["term"] = {"kind": "none"}
        b.pop("noreturn", None)
        names.update({B, E, pname})
        self.log.append((fn.id, lam.id, "for_each->loop"))
        return True

    # ------------------------------------------------------------------ m = std::find_if(first, last, pred); if (m == last) A; B(*m)  ->  loop
    def _findif(self, fn, d, blocks, cexit, names, bid, i, e):
        """`auto m = std::find_if(R.begin(), R.end(), [..](auto& x) { return P(x); }); if (m == R.end()) { NOTFOUND } FOUND(*m)` where every path
        through FOUND leaves the function is the loop `for (x : R) if (P(x)) { FOUND(x) }  NOTFOUND` (the first element that satisfies P is
        taken in both). The rules read the loop form."""
        x = e.get("expr")
        if not (isinstance(x, dict) and x.get("k") == "decl" and len(x.get("vars", [])) == 1) or e.get("kind", "stmt") != "stmt" or not fn.file.startswith("/repo/"):
            return False
        v = x["vars"][0]
        call = ir.unwrap(v.get("init"))
        if not (isinstance(call, dict) and call.get("k") == "call" and (call.get("name") or "") == "std::find_if" and not call.get("noinline")):
            return False
        args = [a for a in call.get("args", []) if not (isinstance(a, dict) and a.get("k") == "defarg")]
        if len(args) != 3:
            return False
        lamn = ir.unwrap(args[2])
        if not (isinstance(lamn, dict) and lamn.get("k") == "lambda"):
            return False
        lam = None
        for cid in list(lamn.get("bodies", [])) + [lamn.get("id")]:
            g = self.prog.fn(cid) if cid else None
            if g is not None and g.has_cfg and len(g.params) == 1:
                lam = g
                break
        if lam is None:
            return False
        rets = [el["expr"] for _, _, el in lam.roots() if el["expr"].get("k") == "return"]
        if len(rets) != 1 or len([1 for _, _, el in lam.roots()]) != 1 or rets[0].get("e") is None:
            call["noinline"] = True
            return False
        b = blocks[bid]
        M = v["name"]
        rest = b["elems"][i + 1:]
        term = b.get("term", {})
        succ = b.get("succ", [])
        cond = ir.unwrap(term.get("cond")) if term.get("cond") is not None else None
        bo = ir.as_binop(cond) if cond is not None else None
        lastf = ir.fmt(ir.unwrap(args[1]))
        ok = term.get("kind") == "if" and len(succ) == 2 and bo and bo[0] in ("==", "!=") and {ir.fmt(ir.unwrap(bo[1])), ir.fmt(ir.unwrap(bo[2]))} == {M, lastf} \
            and all(ir.fmt(el.get("expr")) == ir.fmt(cond) for el in rest if el.get("expr") is not None)
        if not ok:
            call["noinline"] = True
            return False
        nf_to, f_to = (succ[0]["to"], succ[1]["to"]) if bo[0] == "==" else (succ[1]["to"], succ[0]["to"])
        # FOUND region: everything reachable from f_to; it must not fall into the NOTFOUND block and every exit leaves the function
        region = set()
        st = [f_to]
        while st:
            q = st.pop()
            if q in region or q == cexit:
                continue
            region.add(q)
            for s0 in blocks[q].get("succ", []):
                if s0.get("to") is not None and not s0.get("unreachable"):
                    st.append(s0["to"])
        if nf_to in region or bid in region:
            call["noinline"] = True
            return False
        for q in region:
            bq = blocks[q]
            if bq.get("noreturn"):
                continue
            to_exit = [s0 for s0 in bq.get("succ", []) if s0.get("to") == cexit]
            if to_exit and not any(isinstance(el.get("expr"), dict) and el["expr"].get("k") == "return" for el in bq.get("elems", [])):
                call["noinline"] = True
                return False  # falls off the end: in the loop form the search would go on
        self._k = getattr(self, "_k", 90) + 1
        K = self._k
        ln = call.get("ln")
        p0 = lam.params[0]
        pname = (p0.get("name") or "elem") + "@%d" % K if (p0.get("name") or "elem") in names else (p0.get("name") or "elem%d" % K)
        ptype = p0.get("type", "")

        def ref(nm, ty=""):
            return {"k": "ref", "decl": "local:" + nm, "type": ty}

        def decl(nm, init, ty=""):
            return {"expr": {"k": "decl", "ln": ln, "vars": [{"name": nm, "type": ty, "init": init}]}, "kind": "stmt", "ln": ln, "text": "%s = %s" % (nm, ir.fmt(init)), "inl": "std::find_if"}
        # every use of the iterator inside FOUND has to be a dereference
        bad = []

        def subst(n):
            if isinstance(n, list):
                return [subst(y) for y in n]
            if not isinstance(n, dict):
                return n
            if n.get("k") == "member" and n.get("arrow"):
                bb = ir.unwrap(n.get("base"))
                if isinstance(bb, dict) and ((bb.get("k") == "call" and bb.get("op") == "->" and isinstance(ir.unwrap(bb.get("this")), dict) and ir.unwrap(bb["this"]).get("decl") == "local:" + M)
                                             or (bb.get("k") == "ref" and bb.get("decl") == "local:" + M)):
                    m2 = {k2: subst(v2) for k2, v2 in n.items() if k2 != "base"}
                    m2["base"] = ref(pname, ptype)
                    m2["arrow"] = False
                    return m2
            if n.get("k") == "call" and n.get("op") == "*" and n.get("this") is not None and isinstance(ir.unwrap(n["this"]), dict) and ir.unwrap(n["this"]).get("decl") == "local:" + M and not n.get("args"):
                return ref(pname, ptype)
            if n.get("k") == "un" and n.get("op") == "*" and isinstance(ir.unwrap(n.get("e")), dict) and ir.unwrap(n["e"]).get("decl") == "local:" + M:
                return ref(pname, ptype)
            if n.get("k") == "ref" and n.get("decl") == "local:" + M:
                bad.append(n)
            return {k2: subst(v2) for k2, v2 in n.items()}
        new_blocks = {}
        for q in region:
            bq = copy.deepcopy(blocks[q])
            for el in bq.get("elems", []):
                if el.get("expr") is not None:
                    el["expr"] = subst(el["expr"])
            for key in ("cond", "full"):
                if isinstance(bq.get("term", {}).get(key), dict):
                    bq["term"][key] = subst(bq["term"][key])
            new_blocks[q] = bq
        if bad:
            call["noinline"] = True
            return False
        # `auto& opt = *m->second;` at the head of FOUND names the element's payload: the name is replaced by that lvalue (a reference cannot
        # be re-bound, and the way to the object - the loop variable - does not change inside FOUND)
        aliases = {}
        for q, bq in new_blocks.items():
            keep = []
            for el in bq.get("elems", []):
                xx = el.get("expr")
                if isinstance(xx, dict) and xx.get("k") == "decl" and len(xx.get("vars", [])) == 1:
                    vv = xx["vars"][0]
                    ty = (vv.get("type") or "").rstrip()
                    if (vv.get("ref") or ty.endswith("&")) and not ty.endswith("&&") and vv.get("init") is not None \
                            and any(y.get("k") == "ref" and y.get("decl") == "local:" + pname for y in walk(vv["init"])) \
                            and not any(y.get("k") == "call" and y.get("callee") and not (y.get("op") in ("->", "*")) for y in walk(vv["init"])):
                        aliases[vv["name"]] = vv["init"]
                        continue
                keep.append(el)
            bq["elems"] = keep
        if aliases:
            def unalias(n):
                if isinstance(n, list):
                    return [unalias(y) for y in n]
                if not isinstance(n, dict):
                    return n
                if n.get("k") == "ref" and str(n.get("decl", "")).startswith("local:") and n["decl"][6:] in aliases:
                    return copy.deepcopy(aliases[n["decl"][6:]])
                if n.get("k") in ("call", "member") and not n.get("arrow"):
                    # `alias.f()` with alias = *p is `p->f()`
                    key = "this" if n.get("k") == "call" else "base"
                    t0 = ir.unwrap(n.get(key))
                    if isinstance(t0, dict) and t0.get("k") == "ref" and str(t0.get("decl", "")).startswith("local:") and t0["decl"][6:] in aliases:
                        a0 = ir.unwrap(aliases[t0["decl"][6:]])
                        if isinstance(a0, dict) and a0.get("k") == "un" and a0.get("op") == "*":
                            m2 = {k2: unalias(v2) for k2, v2 in n.items() if k2 != key}
                            m2[key] = copy.deepcopy(a0["e"])
                            m2["arrow"] = True
                            return m2
                return {k2: unalias(v2) for k2, v2 in n.items()}
            for q, bq in new_blocks.items():
                for el in bq.get("elems", []):
                    if el.get("expr") is not None:
                        el["expr"] = unalias(el["expr"])
                for key in ("cond", "full"):
                    if isinstance(bq.get("term", {}).get(key), dict):
                        bq["term"][key] = unalias(bq["term"][key])
        # the predicate with its parameter bound to the loop variable
        fake_call = {"k": "call", "args": [], "ln": ln}
        rw = self._rewriter(names | {pname}, lam, fake_call, [])
        pred = rw(rets[0]["e"])

        def fix_param(n):
            if isinstance(n, dict):
                if n.get("k") == "ref" and n.get("decl") == "param:" + (p0.get("name") or ""):
                    n["decl"] = "local:" + pname
                for v2 in n.values():
                    if isinstance(v2, (dict, list)):
                        fix_param(v2)
            elif isinstance(n, list):
                for y in n:
                    fix_param(y)
        fix_param(pred)
        blocks.update(new_blocks)
        f0, l0 = ir.unwrap(args[0]), ir.unwrap(args[1])
        B, E = "__begin%d" % K, "__end%d" % K
        init_elems = [decl(E, args[1]), decl(B, args[0])]
        rng = None
        if (isinstance(f0, dict) and isinstance(l0, dict) and f0.get("k") == "call" and l0.get("k") == "call" and ir.short(f0.get("name") or "") in ("begin", "cbegin")
                and ir.short(l0.get("name") or "") in ("end", "cend") and f0.get("this") is not None and l0.get("this") is not None and ir.fmt(f0["this"]) == ir.fmt(l0["this"])):
            rng = f0["this"]
            R = "__range%d" % K
            init_elems = [decl(R, rng, (ir.unwrap(rng).get("type") or "") + " &"),
                          decl(E, {"k": "call", "name": l0.get("name"), "callee": l0.get("callee"), "this": ref(R), "args": [], "arrow": False, "type": l0.get("type", ""), "ln": ln}),
                          decl(B, {"k": "call", "name": f0.get("name"), "callee": f0.get("callee"), "this": ref(R), "args": [], "arrow": False, "type": f0.get("type", ""), "ln": ln})]
        new_id = max(blocks) + 1
        head_id, test_id, latch_id = new_id, new_id + 1, new_id + 2
        lcond = {"k": "bin", "op": "!=", "l": ref(B), "r": ref(E), "type": "bool", "ln": ln}
        blocks[head_id] = {"id": head_id, "elems": [{"expr": lcond, "kind": "stmt", "ln": ln, "text": "%s != %s" % (B, E), "inl": "std::find_if"}],
                           "term": {"kind": "range_for", "cond": copy.deepcopy(lcond), "ln": ln}, "succ": [{"to": test_id}, {"to": nf_to}]}
        blocks[test_id] = {"id": test_id, "elems": [decl(pname, {"k": "un", "op": "*", "e": ref(B), "ln": ln}, ptype), {"expr": pred, "kind": "stmt", "ln": ln, "text": ir.fmt(pred), "inl": lam.id}],
                           "term": {"kind": "if", "cond": copy.deepcopy(pred), "ln": ln}, "succ": [{"to": f_to}, {"to": latch_id}]}
        blocks[latch_id] = {"id": latch_id, "elems": [{"expr": {"k": "un", "op": "++pre", "e": ref(B), "ln": ln}, "kind": "stmt", "ln": ln, "text": "++%s" % B, "inl": "std::find_if"}],
                            "term": {"kind": "none"}, "succ": [{"to": head_id}]}
        b["elems"] = b["elems"][:i] + init_elems
        b["succ"] = [{"to": head_id}]
        b["term"] = {"kind": "none"}
        names.update({B, E, pname})
        self.log.append((fn.id, lam.id, "find_if->loop"))
        return True

    def _splice(self, fn, d, blocks, cexit, names, bid, i, e, call, cal):
        b = blocks[bid]
        x = e["expr"]
        pre_elems = []
        rw = self._rewriter(names, cal, call, pre_elems)
        body = self.expression_body(cal)
        if body is not None and not pre_elems:
            # ---- in place
            repl = rw(body)
            old = copy.deepcopy(call)
            e["expr"] = self._replace(x, call, repl)
            e["text"] = e.get("text", "") + "  /* inlined %s */" % cal.name
            t = b.get("term", {})
            for key in ("cond", "full"):
                if isinstance(t.get(key), dict):
                    t[key] = self._replace_equal(t[key], old, repl)
            # other blocks' terminators may quote the same expression (`full` of a short-circuit chain)
            for ob in blocks.values():
                tt = ob.get("term", {})
                for key in ("cond", "full"):
                    if isinstance(tt.get(key), dict):
                        tt[key] = self._replace_equal(tt[key], old, repl)
            self.log.append((fn.id, cal.id, "expression"))
            return True
        # ---- statement level: the call must be evaluated unconditionally within its root, and the root must not be a branch condition
        uncond = any(nn is call for nn in walk(x, into_sc=False))
        if not uncond:
            return False
        t = b.get("term", {})
        for key in ("cond", "full"):
            if isinstance(t.get(key), dict) and any(nn == call for nn in walk(t[key])):
                return False
        is_return = x.get("k") == "return"
        new_id = max(blocks) + 1
        post_id = new_id
        new_id += 1
        post = {"id": post_id, "elems": b["elems"][i + 1:], "succ": b.get("succ", []), "term": b.get("term", {"kind": "none"})}
        if b.get("noreturn"):
            post["noreturn"] = True
        idmap = {}
        for cb in cal.blocks:
            if cb == cal.exit:
                continue
            idmap[cb] = new_id
            new_id += 1
        void_stmt = (ir.unwrap(x) is call or x is call) and e.get("kind", "stmt") == "stmt"
        for cb, cblock in cal.blocks.items():
            if cb == cal.exit:
                continue
            nb = {"id": idmap[cb], "elems": [], "term": {}, "succ": []}
            returns_here = False
            for ce in cblock.get("elems", []):
                cx = ce.get("expr")
                ne = dict(ce)
                ne["inl"] = cal.id
                if isinstance(cx, dict) and cx.get("k") == "return":
                    returns_here = True
                    rv = rw(cx["e"]) if cx.get("e") is not None else None
                    if rv is None:
                        continue
                    if void_stmt:
                        ne["expr"] = rv
                    else:
                        ne = dict(e)
                        ne["inl"] = cal.id
                        ne["expr"] = self._replace(x, call, rv)
                        ne["text"] = e.get("text", "") + "  /* inlined %s: %s */" % (cal.name, ce.get("text", ""))
                    ne["ln"] = e.get("ln", ce.get("ln"))
                    nb["elems"].append(ne)
                    continue
                if cx is not None:
                    ne["expr"] = rw(cx)
                nb["elems"].append(ne)
            ct = cblock.get("term", {"kind": "none"})
            nt = dict(ct)
            for key in ("cond", "full"):
                if isinstance(ct.get(key), dict):
                    nt[key] = rw(ct[key])
            nb["term"] = nt
            if cblock.get("noreturn"):
                nb["noreturn"] = True
            for s in cblock.get("succ", []):
                ns = dict(s)
                if s.get("to") == cal.exit:
                    if cblock.get("noreturn"):
                        ns["to"] = cexit
                    elif is_return and returns_here:
                        ns["to"] = cexit
                    else:
                        ns["to"] = post_id
                elif s.get("to") is not None:
                    ns["to"] = idmap.get(s["to"])
                nb["succ"].append(ns)
            blocks[nb["id"]] = nb
        blocks[post_id] = post
        b["elems"] = b["elems"][:i] + pre_elems
        b["succ"] = [{"to": idmap[cal.entry]}]
        b["term"] = {"kind": "none"}
        b.pop("noreturn", None)
        for pe in pre_elems:
            for y in walk(pe["expr"]):
                if y.get("k") == "decl":
                    names.update(v["name"] for v in y.get("vars", []))
        for cbid, _, ce in cal.all_elems():
            cx = ce.get("expr")
            if cx is not None:
                for y in walk(cx):
                    if y.get("k") == "decl":
                        names.update(v["name"] + "@" + cal.name if v["name"] in names else v["name"] for v in y.get("vars", []))
        self.log.append((fn.id, cal.id, "statement"))
        return True


# ---------------------------------------------------------------------------------------------------- copy propagation
KNOWN_LOCALS_FILE = os.path.join(HERE, "rules", "known_locals.txt")
PURE_FREE = ("std::move", "std::forward", "std::as_const", "std::addressof", "std::get", "std::tie", "std::forward_as_tuple")


def load_known_locals():
    if not os.path.exists(KNOWN_LOCALS_FILE):
        return None
    out = set()
    for l in open(KNOWN_LOCALS_FILE, encoding="utf-8"):
        l = l.rstrip("\n")
        if l and not l.startswith("#") and "\t" in l:
            q, n = l.split("\t", 1)
            out.add((q, n))
    return out


def program_locals(prog):
    out = set()
    for f in prog.fns.values():
        if not f.has_cfg or not f.file.startswith("/repo/"):
            continue
        q = strip_targs(f.qual if f.kind != "lambda" else f.id.split("::(lambda")[0].split("(")[0])
        for _, _, e in f.roots():
            for y in walk(e["expr"]):
                if y.get("k") == "decl":
                    for v in y.get("vars", []):
                        out.add((q, v["name"]))
    return out


def copyprop(fn, known_locals, log):
    """forward-substitute locals the rule tables do not know ("introduce explaining variable") when that is trivially
    sound: declared once with an initialiser, never written / moved / address-taken afterwards, and the initialiser reads
    only objects this function never modifies and calls nothing but casts, std::move-like identities and const methods"""
    from .callgraph import tree_effects, lvalue_root, is_const_method_id
    if not fn.has_cfg:
        return fn
    q = strip_targs(fn.qual if fn.kind != "lambda" else fn.id.split("::(lambda")[0].split("(")[0])
    decls = {}
    count = {}
    for bid, i, e in fn.roots():
        for y in walk(e["expr"]):
            if y.get("k") == "decl":
                for v in y.get("vars", []):
                    count[v["name"]] = count.get(v["name"], 0) + 1
                    decls[v["name"]] = v
    cand = [n for n, v in decls.items() if count[n] == 1 and v.get("init") is not None and not v.get("static") and (q, n.split("@")[0]) not in known_locals
            and not n.startswith("__")]
    if not cand:
        return fn
    written_l, written_p, written_f = set(), set(), set()
    all_fields_unstable = False
    events = []  # (bid, idx, written_l, written_p, written_f, all_fields_unstable) per root, for the flow-sensitive refinement
    for bid, i, e in fn.roots():
        _snap = (set(written_l), set(written_p), set(written_f), all_fields_unstable)
        written_l, written_p, written_f, all_fields_unstable = set(), set(), set(), False
        for eff, lv, n in tree_effects(e["expr"], into_sc=True):
            if eff in ("write", "maybe_write", "move") and lv is not None:
                kind, key, _ = lvalue_root(lv)
                base = kind.split(":")[-1]
                if base == "local":
                    written_l.add(key)
                elif base == "param":
                    written_p.add(key)
                elif base == "field":
                    written_f.add(key[0])
                    if ir.unwrap(lv).get("k") != "member":
                        all_fields_unstable = True
                elif base == "other" and kind != "other":
                    all_fields_unstable = True
                ku = ir.unwrap(lv)
                if isinstance(ku, dict) and ku.get("k") == "this" or (isinstance(ku, dict) and ku.get("k") == "un" and ku.get("op") == "*" and isinstance(ir.unwrap(ku["e"]), dict) and ir.unwrap(ku["e"]).get("k") == "this"):
                    all_fields_unstable = True
        for y in walk(e["expr"]):
            if y.get("k") == "bin" and y.get("op") in ("<<", ">>"):
                # dependent stream insertion/extraction in a template pattern: the leftmost operand is modified
                t = y
                while isinstance(t, dict) and t.get("k") == "bin" and t.get("op") in ("<<", ">>"):
                    t = ir.unwrap(t["l"])
                if isinstance(t, dict) and t.get("k") == "ref":
                    kind, _, nm = t.get("decl", "").partition(":")
                    (written_l if kind == "local" else written_p).add(nm)
                elif isinstance(t, dict) and t.get("k") == "member":
                    written_f.add(t.get("field"))
            if y.get("k") == "call" and y.get("dep"):
                for a in y.get("args", []):
                    t = ir.unwrap(a)
                    if isinstance(t, dict) and t.get("k") == "ref":
                        kind, _, nm = t.get("decl", "").partition(":")
                        ty = (decls.get(nm, {}).get("type") or "") if kind == "local" else next((p0.get("type") or "" for p0 in fn.params if p0.get("name") == nm), "")
                        if ty.startswith("const ") and not ty.rstrip().endswith("*"):
                            continue  # a const object / reference to const cannot be modified through this name
                        (written_l if kind == "local" else written_p).add(nm)
            if y.get("k") == "un" and y.get("op") == "&":
                t = ir.unwrap(y["e"])
                if isinstance(t, dict) and t.get("k") == "ref" and t.get("decl", "").startswith("local:"):
                    if (decls.get(t["decl"][6:], {}).get("type") or "").rstrip().endswith("&"):
                        continue  # the address of a reference is the address of what it names
                    written_l.add(t["decl"][6:])
        events.append((bid, i, written_l, written_p, written_f, all_fields_unstable))
        written_l, written_p, written_f, all_fields_unstable = written_l | _snap[0], written_p | _snap[1], written_f | _snap[2], all_fields_unstable or _snap[3]

    def after_def(nm):
        """write sets restricted to the program points reachable from the declaration of nm without passing it again"""
        pos = None
        for bid, i, e in fn.roots():
            x = e["expr"]
            if x.get("k") == "decl" and any(v["name"] == nm for v in x.get("vars", [])):
                pos = (bid, i)
        if pos is None:
            return None
        order = {}
        for bid, i, e in fn.roots():
            order.setdefault(bid, []).append(i)
        reach = set()  # (bid, idx)
        for i in order.get(pos[0], []):
            if i > pos[1]:
                reach.add((pos[0], i))
        seen_b = set()
        st = [to for to, _ in fn.succs(pos[0])]
        while st:
            b = st.pop()
            if b in seen_b:
                continue
            seen_b.add(b)
            if b == pos[0]:
                for i in order.get(b, []):
                    if i < pos[1]:
                        reach.add((b, i))
                continue  # the declaration is executed again: a fresh value
            for i in order.get(b, []):
                reach.add((b, i))
            st.extend(to for to, _ in fn.succs(b))
        # ... and from which a use of nm is still ahead (a write behind the last use cannot change what a use sees)
        uses = [(bid, i) for bid, i, e in fn.roots() if (bid, i) != pos and any(y.get("k") == "ref" and y.get("decl") == "local:" + nm for y in walk(e["expr"]))]
        for b2 in fn.blocks:
            c2 = fn.term(b2).get("cond")
            if isinstance(c2, dict) and any(y.get("k") == "ref" and y.get("decl") == "local:" + nm for y in walk(c2)):
                uses.append((b2, 10 ** 6))
        preds = {}
        for b2 in fn.blocks:
            for to, _ in fn.succs(b2):
                preds.setdefault(to, []).append(b2)
        ahead = set()
        seen_b = set()
        st = []
        for (ub, ui) in uses:
            for i in order.get(ub, []):
                if i <= ui and not (ub == pos[0] and i <= pos[1] and ui > pos[1]):
                    ahead.add((ub, i))
            if not (ub == pos[0] and ui > pos[1]):
                st.extend(preds.get(ub, []))
        while st:
            b = st.pop()
            if b in seen_b:
                continue
            seen_b.add(b)
            if b == pos[0]:
                for i in order.get(b, []):
                    if i > pos[1]:
                        ahead.add((b, i))
                continue
            for i in order.get(b, []):
                ahead.add((b, i))
            st.extend(preds.get(b, []))
        reach &= ahead
        wl, wp, wf, allf = set(), set(), set(), False
        for bid, i, l0, p0, f0, a0 in events:
            if (bid, i) in reach:
                wl |= l0
                wp |= p0
                wf |= f0
                allf = allf or a0
        return wl, wp, wf, allf

    def stable(n, seen):
        n = ir.unwrap(n)
        if n is None:
            return False
        if not isinstance(n, dict):
            return False
        k = n.get("k")
        if k == "lit" or k == "this":
            return True
        if k == "ref":
            d = n.get("decl", "")
            if d.startswith("param:"):
                return d[6:] not in written_p
            if d.startswith("local:"):
                nm = d[6:]
                return nm in decls and count.get(nm) == 1 and nm not in written_l
            return False
        if k == "member" and not n.get("method"):
            if all_fields_unstable or n.get("field") in written_f:
                return False
            return stable(n.get("base"), seen)
        if k == "cast":
            return stable(n["e"], seen)
        if k == "un" and n["op"] == "*" and isinstance(ir.unwrap(n["e"]), dict) and ir.unwrap(n["e"]).get("k") == "this":
            return not all_fields_unstable and not written_f  # the object itself: only if this function never modifies it
        if k == "un" and n["op"] in ("*", "&", "-", "!", "+"):
            return stable(n["e"], seen)
        if k == "bin" and n["op"] in ("+", "-", "*", "/", "%", "==", "!=", "<", ">", "<=", ">=", "&&", "||"):
            return stable(n["l"], seen) and stable(n["r"], seen)
        if k == "cond":
            return stable(n["c"], seen) and stable(n["t"], seen) and stable(n["f"], seen)
        if k == "call":
            nm = n.get("name") or ""
            args = n.get("args", [])
            if nm in PURE_FREE:
                return all(stable(a, seen) for a in args)
            cid = n.get("callee")
            if n.get("this") is not None and not cid and n.get("dep") and not args and ir.short(nm) in ("begin", "end", "cbegin", "cend", "size", "length", "empty", "data", "c_str") \
                    and (ir.unwrap(n["this"]).get("type") or "").startswith("const "):
                # an observer called on an object of const (dependent) type inside a template pattern: only a const member can be meant
                return stable(n["this"], seen)
            if n.get("this") is not None and cid and is_const_method_id(cid):
                # a const method of a local/parameter object that this function never modifies reads only that object
                # (standard containers / iterators); of *this or a member only while no member is written at all
                root = ir.unwrap(n["this"])
                while isinstance(root, dict) and root.get("k") in ("member", "call", "un", "cast", "subscript"):
                    nxt = root.get("base") if root.get("k") in ("member", "subscript") else (root.get("this") if root.get("k") == "call" else root.get("e"))
                    if nxt is None:
                        break
                    root = ir.unwrap(nxt)
                local_root = isinstance(root, dict) and root.get("k") == "ref" and (root.get("decl", "").startswith("local:") or root.get("decl", "").startswith("param:"))
                if local_root and cid.startswith("std::"):
                    return stable(n["this"], seen) and all(stable(a, seen) for a in args)
                # a const member of an object this function only knows through a reference / object of CONST type: the function
                # cannot modify it through that name (a token, a declaration it was handed for reading)
                if local_root and (root.get("type") or "").startswith("const ") and not (root.get("type") or "").rstrip().endswith("*"):
                    return stable(n["this"], seen) and all(stable(a, seen) for a in args)
                if not all_fields_unstable and not written_f:
                    return stable(n["this"], seen) and all(stable(a, seen) for a in args)
            return False
        if k == "construct":
            args = [a for a in n.get("args", []) if not (isinstance(a, dict) and a.get("k") == "defarg")]
            if len(args) == 1 and (n.get("copy") or n.get("move")):
                return stable(args[0], seen)
            return False
        return False

    subst = {}
    glob = (written_l, written_p, written_f, all_fields_unstable)
    for nm in cand:
        if nm in written_l:
            # a (non-const) REFERENCE that is written through - `auto& opt = *entry.second; opt.update(..)` - is another name of the object it was
            # bound to: the name can be replaced by that lvalue as long as the way to the object (the pointer / the element it is reached
            # through) stays what it was
            dv = decls[nm]
            ty = (dv.get("type") or "").rstrip()
            if (dv.get("ref") or ty.endswith("&")) and not ty.endswith("&&") and not ty.startswith("const "):
                init = ir.unwrap(dv["init"])
                if isinstance(init, dict) and ((init.get("k") == "un" and init.get("op") == "*") or (init.get("k") == "call" and init.get("op") == "*") or init.get("k") == "member"):
                    saved = set(written_l)
                    written_l.discard(nm)
                    try:
                        if stable(init.get("e") if init.get("k") == "un" else (init.get("this") if init.get("k") == "call" else init), set()):
                            subst[nm] = dv["init"]
                    finally:
                        written_l.clear()
                        written_l.update(saved)
            continue
        if stable(decls[nm]["init"], set()):
            subst[nm] = decls[nm]["init"]
            continue
        # flow-sensitive retry: only what can happen between this declaration and its uses matters (a local that is
        # prepared first and then measured: `replace_all(word, ..); const auto needed = word.size() + 1;`)
        ad = after_def(nm)
        if ad is not None:
            written_l, written_p, written_f, all_fields_unstable = ad
            try:
                if nm not in written_l and stable(decls[nm]["init"], set()):
                    subst[nm] = decls[nm]["init"]
            finally:
                written_l, written_p, written_f, all_fields_unstable = glob
    # "name the operand": a local that is declared in one statement and used exactly once, as a direct argument of the call that is the
    # very next statement, next to operands that are plain access paths - putting the initialiser back changes no evaluation order
    order = {}
    moved_back = set()  # their declarations go away: the initialiser is evaluated once, at its use
    for bid, i, e in fn.roots():
        order.setdefault(bid, []).append((i, e))
    for nm in cand:
        if nm in subst or nm in written_l:
            continue
        pos = uses = None
        n_uses = 0
        for bid, i, e in fn.roots():
            x = e["expr"]
            if x.get("k") == "decl" and len(x.get("vars", [])) == 1 and x["vars"][0]["name"] == nm:
                pos = (bid, i)
                continue
            k0 = sum(1 for y in walk(x) if y.get("k") == "ref" and y.get("decl") == "local:" + nm)
            if k0:
                n_uses += k0
                uses = (bid, i, e)
        for b2 in fn.blocks:
            c2 = fn.term(b2).get("cond")
            if isinstance(c2, dict) and any(y.get("k") == "ref" and y.get("decl") == "local:" + nm for y in walk(c2)):
                n_uses += 10
        if pos is None or n_uses != 1 or uses[0] != pos[0]:
            continue
        idxs = [i for i, _ in order.get(pos[0], [])]
        if idxs.index(uses[1]) != idxs.index(pos[1]) + 1:
            continue
        top = ir.unwrap(uses[2]["expr"])
        if isinstance(top, dict) and top.get("k") == "return" and top.get("e") is not None:
            top = ir.unwrap(top["e"])
        if not (isinstance(top, dict) and top.get("k") in ("call", "construct")):
            continue
        ops = list(top.get("args", [])) + ([top["this"]] if top.get("this") is not None else [])
        direct = [a for a in ops if isinstance(ir.unwrap(a), dict) and ir.unwrap(a).get("k") == "ref" and ir.unwrap(a).get("decl") == "local:" + nm]
        if len(direct) != 1 or not all(_plain_path(a) for a in ops if a is not direct[0]):
            continue
        t0 = (decls[nm].get("type") or "")
        if t0.rstrip().endswith("&") and not t0.startswith("const "):
            continue
        subst[nm] = decls[nm]["init"]
        moved_back.add(nm)
    if not subst:
        return fn

    def rw(n, depth=0):
        if not isinstance(n, dict):
            return n
        if n.get("k") == "ref" and n.get("decl", "").startswith("local:") and n["decl"][6:] in subst and depth < 8:
            return rw(copy.deepcopy(subst[n["decl"][6:]]), depth + 1)
        out = {}
        for kk, v in n.items():
            if isinstance(v, dict):
                out[kk] = rw(v, depth)
            elif isinstance(v, list):
                out[kk] = [rw(x, depth) if isinstance(x, dict) else x for x in v]
            else:
                out[kk] = v
        return out

    d = copy.deepcopy(fn.d)
    for b in d["cfg"]["blocks"]:
        b["elems"] = [e for e in b.get("elems", []) if not (isinstance(e.get("expr"), dict) and e["expr"].get("k") == "decl" and len(e["expr"].get("vars", [])) == 1
                                                             and e["expr"]["vars"][0]["name"] in moved_back)]
        for e in b.get("elems", []):
            if e.get("expr") is not None:
                x = e["expr"]
                if x.get("k") == "decl":
                    for v in x.get("vars", []):
                        if v.get("init") is not None:
                            v["init"] = rw(v["init"])
                else:
                    e["expr"] = rw(x)
        t = b.get("term", {})
        for key in ("cond", "full"):
            if isinstance(t.get(key), dict):
                t[key] = rw(t[key])
    for nm in subst:
        log.append((fn.id, "local:" + nm, "copy-propagated"))
    new = Fn(d, fn.unit)
    new.inlined = getattr(fn, "inlined", False)
    return new


# ------------------------------------------------------------------------------------------- member names
KNOWN_FIELDS_FILE = os.path.join(HERE, "rules", "known_fields.txt")


def program_fields(prog):
    """{class name without template arguments: [field names in declaration order]} for /repo classes"""
    out = {}
    for name, c in sorted(prog.classes.items()):
        if not (c.get("file") or "").startswith("/repo/"):
            continue
        fl = [f["name"] for f in c.get("fields", []) if not f.get("static")]
        if not fl:
            continue
        key = strip_targs(name)
        if key not in out or c.get("pattern"):
            out[key] = fl
    return out


def load_known_fields():
    if not os.path.exists(KNOWN_FIELDS_FILE):
        return None
    out = {}
    for l in open(KNOWN_FIELDS_FILE, encoding="utf-8"):
        l = l.rstrip("\n")
        if l and not l.startswith("#") and "\t" in l:
            q, names = l.split("\t", 1)
            out[q] = names.split(",")
    return out


def canon_fields(prog, known_fields, log):
    """A data member that was only renamed (same class, same number of members, same position) gets its known name
    back, everywhere: the rule tables speak about members by the names of the tree they were confirmed against."""
    ren = {}  # (stripped class, new name) -> old name
    for name, c in prog.classes.items():
        if not (c.get("file") or "").startswith("/repo/"):
            continue
        key = strip_targs(name)
        old = known_fields.get(key)
        cur = [f["name"] for f in c.get("fields", []) if not f.get("static")]
        if not old or len(old) != len(cur) or old == cur:
            continue
        if set(old) == set(cur):
            continue  # reordered only
        # positions whose name changed; the new names must be unknown and the old ones gone
        ok = True
        m = {}
        for o, n in zip(old, cur):
            if o != n:
                if n in old or o in cur:
                    ok = False
                m[n] = o
        if ok:
            for n, o in m.items():
                ren[(key, n)] = o
    if not ren:
        return
    classes_hit = {k[0] for k in ren}

    def fix_qual(q):
        if not isinstance(q, str) or "::" not in q:
            return q
        cls, _, nm = q.rpartition("::")
        o = ren.get((strip_targs(cls), nm))
        return cls + "::" + o if o else q

    ctx_cls = [None]

    def rw(n):
        if isinstance(n, dict):
            if n.get("k") == "member" and "field" in n:
                q = n["field"]
                if isinstance(q, str) and q.startswith("?::") and ctx_cls[0]:
                    # dependent member access inside a template of that class: other.member / this->member
                    o = ren.get((ctx_cls[0], q[3:]))
                    if o:
                        n["field"] = "?::" + o
                else:
                    n["field"] = fix_qual(q)
            for v in n.values():
                if isinstance(v, (dict, list)):
                    rw(v)
        elif isinstance(n, list):
            for x in n:
                rw(x)

    for name, c in prog.classes.items():
        if strip_targs(name) in classes_hit:
            for f in c.get("fields", []):
                o = ren.get((strip_targs(name), f["name"]))
                if o:
                    f["qual"] = f["qual"].rsplit("::", 1)[0] + "::" + o
                    f["name"] = o
    for f in prog.fns.values():
        if not f.has_cfg:
            continue
        owner = f.cls or (f.id.split("::(lambda")[0].rsplit("::", 1)[0] if f.kind == "lambda" else None)
        ctx_cls[0] = strip_targs(owner) if owner and strip_targs(owner) in classes_hit else None
        for b in f.blocks.values():
            for e in b.get("elems", []):
                if e.get("field"):
                    e["field"] = fix_qual(e["field"])
                if e.get("expr") is not None:
                    rw(e["expr"])
            t = b.get("term", {})
            for key in ("cond", "full"):
                if isinstance(t.get(key), dict):
                    rw(t[key])
    for (k, n), o in sorted(ren.items()):
        log.append((k, "member:" + n, "renamed back to " + o))


# ------------------------------------------------------------------------------------------- countdowns
def countdown(fn, known_locals, log):
    """a local counter that mirrors `limit - container.size()`: an unknown integral local R initialised from a stable expression E and
    only ever decremented by one, each decrement sitting in a block with exactly one push_back / emplace_back on ONE local container C
    that starts empty (and every append on C has its decrement). Then R == E - C.size() at every test, so `R == 0` is rewritten to
    `E == C.size()` (and `R != 0` / `R > 0` / `0 < R` accordingly) and the decrements are dropped."""
    if not fn.has_cfg or fn.file.startswith("/verif/"):
        return fn
    q = strip_targs(fn.qual if fn.kind != "lambda" else fn.id.split("::(lambda")[0].split("(")[0])
    decls = {}
    for bid, i, e in fn.roots():
        x = e["expr"]
        if x.get("k") == "decl":
            for v in x.get("vars", []):
                decls.setdefault(v["name"], []).append((bid, i, v))
    for R, ds in decls.items():
        if len(ds) != 1 or (q, R.split("@")[0]) in known_locals or R.startswith("__"):
            continue
        bid0, i0, v = ds[0]
        if not v.get("bits") or v.get("init") is None or v.get("static") or v.get("ref") or (v.get("type") or "").rstrip().endswith("&"):
            continue  # (a reference is another name of the limit itself, not a copy that counts down)
        E = v["init"]
        # writes and reads of R
        decs, reads, bad = [], [], False
        for bid, i, e in fn.roots():
            x = e["expr"]
            if (bid, i) == (bid0, i0):
                continue
            for y in walk(x):
                if y.get("k") == "ref" and y.get("decl") == "local:" + R:
                    reads.append((bid, i, e))
        for b2 in fn.blocks:
            c2 = fn.term(b2).get("cond")
            if isinstance(c2, dict) and any(y.get("k") == "ref" and y.get("decl") == "local:" + R for y in walk(c2)):
                reads.append((b2, -1, None))
        dec_pos = set()
        for bid, i, e in fn.roots():
            x = ir.unwrap(e["expr"])
            u = ir.as_unop(x) if isinstance(x, dict) else None
            is_dec = bool(u and u[0] in ("--pre", "--post") and fmt(ir.unwrap(u[1])) == R) or \
                (isinstance(x, dict) and x.get("k") == "bin" and x.get("op") == "-=" and fmt(ir.unwrap(x["l"])) == R and fmt(ir.unwrap(x["r"])) == "1")
            if is_dec:
                decs.append((bid, i, e))
                dec_pos.add((bid, i))
        if not decs:
            continue
        # every other mention of R is a comparison with 0
        cmp_sites = []
        for bid, i, e in reads:
            if (bid, i) in dec_pos:
                continue
            trees = [e["expr"]] if e is not None else [fn.term(bid).get("cond")]
            for t in trees:
                for y in walk(t):
                    if y.get("k") == "ref" and y.get("decl") == "local:" + R:
                        pass
                ok_here = False
                for y in walk(t):
                    bo = ir.as_binop(y) if isinstance(y, dict) else None
                    if bo and bo[0] in ("==", "!=", ">", "<") and {fmt(ir.unwrap(bo[1])), fmt(ir.unwrap(bo[2]))} == {R, "0"}:
                        ok_here = True
                n_refs = sum(1 for y in walk(t) if isinstance(y, dict) and y.get("k") == "ref" and y.get("decl") == "local:" + R)
                n_cmp = sum(1 for y in walk(t) if isinstance(y, dict) and ir.as_binop(y) and ir.as_binop(y)[0] in ("==", "!=", ">", "<")
                            and {fmt(ir.unwrap(ir.as_binop(y)[1])), fmt(ir.unwrap(ir.as_binop(y)[2]))} == {R, "0"})
                if not ok_here or n_refs != n_cmp:
                    bad = True
        if bad:
            continue
        # the container: one local with an append in every decrement block, and no append elsewhere
        cont = None
        for bid, i, e in decs:
            apps = [(fmt(ir.unwrap(n.get("this"))), n) for j, e2 in enumerate(fn.elems(bid)) if e2.get("expr") is not None for n in walk(e2["expr"])
                    if n.get("k") == "call" and ir.short(n.get("name") or "") in ("push_back", "emplace_back") and n.get("this") is not None]
            if len(apps) != 1:
                cont = None
                break
            if cont is not None and cont != apps[0][0]:
                cont = None
                break
            cont = apps[0][0]
        if cont is None or cont not in decls or len(decls[cont]) != 1:
            continue
        cinit = decls[cont][0][2].get("init")
        cu = ir.unwrap(cinit) if cinit is not None else None
        if cu is not None and not (isinstance(cu, dict) and cu.get("k") == "construct" and not [a for a in cu.get("args", []) if not (isinstance(a, dict) and a.get("k") == "defarg")]):
            continue  # the container does not start empty
        from . import cfg as _cfg
        all_apps = [(bid, i) for bid, i, e in fn.roots() for n in walk(e["expr"]) if n.get("k") == "call" and n.get("this") is not None and fmt(ir.unwrap(n["this"])) == cont
                    and ir.short(n.get("name") or "") in ("push_back", "emplace_back", "insert", "emplace", "pop_back", "erase", "clear", "resize", "assign")
                    and not _cfg.contradictory_block(fn, bid)]  # (an append in dead code - reachable only under B and !B - does not count)
        if {b for b, _ in all_apps} != {b for b, _, _ in decs} or len(all_apps) != len(decs):
            continue
        # rewrite
        size_call = {"k": "call", "name": "std::vector::size", "callee": "std::vector::size() const", "args": [], "this": {"k": "ref", "decl": "local:" + cont, "type": decls[cont][0][2].get("type", "")}, "type": "std::size_t"}

        def rw(n):
            if isinstance(n, list):
                return [rw(y) for y in n]
            if not isinstance(n, dict):
                return n
            bo = ir.as_binop(n)
            if bo and bo[0] in ("==", "!=", ">", "<") and {fmt(ir.unwrap(bo[1])), fmt(ir.unwrap(bo[2]))} == {R, "0"}:
                r_left = fmt(ir.unwrap(bo[1])) == R
                op = bo[0]
                if op in ("==", "!="):
                    return {"k": "bin", "op": op, "l": copy.deepcopy(E), "r": copy.deepcopy(size_call), "type": "bool", "ln": n.get("ln")}
                if (op == ">" and r_left) or (op == "<" and not r_left):  # R > 0  <=>  size < E
                    return {"k": "bin", "op": "<", "l": copy.deepcopy(size_call), "r": copy.deepcopy(E), "type": "bool", "ln": n.get("ln")}
                return {"k": "lit", "t": "bool", "v": False}  # R < 0 on an unsigned / counted-down value never holds
            return {kk: (rw(vv) if isinstance(vv, (dict, list)) else vv) for kk, vv in n.items()}

        d = copy.deepcopy(fn.d)
        for b in d["cfg"]["blocks"]:
            keep = []
            for j, e in enumerate(b.get("elems", [])):
                if (b["id"], j) in dec_pos:
                    continue
                if e.get("expr") is not None:
                    e["expr"] = rw(e["expr"])
                keep.append(e)
            b["elems"] = keep
            t = b.get("term", {})
            for key in ("cond", "full"):
                if isinstance(t.get(key), dict):
                    t[key] = rw(t[key])
        log.append((fn.id, "local:" + R, "countdown rewritten to %s - %s.size()" % (fmt(E)[:40], cont)))
        new = Fn(d, fn.unit)
        new.inlined = getattr(fn, "inlined", False)
        return new
    return fn


# ------------------------------------------------------------------------------------------- helper objects
def sroa(prog, inl, fn, known_fields, log):
    """scalar replacement of a local helper object ("extract class"): a local of a /repo class the rule tables do not know,
    built by a constructor that only initialises members, and used - after its member functions were inlined - through its data
    members only, is replaced by one local per member (`obj__member`), initialised as the constructor does."""
    if not fn.has_cfg or fn.file.startswith("/verif/"):
        return fn
    cands = {}
    count = {}
    for bid, i, e in fn.roots():
        x = e["expr"]
        if x.get("k") == "decl":
            for v in x.get("vars", []):
                count[v["name"]] = count.get(v["name"], 0) + 1
                init = ir.unwrap(v.get("init")) if v.get("init") is not None else None
                if isinstance(init, dict) and init.get("k") == "construct" and init.get("ctor") and not (init.get("copy") or init.get("move")):
                    cands[v["name"]] = (bid, i, v, init)
    if not cands:
        return fn
    plans = {}
    for nm, (bid, i, v, init) in cands.items():
        if count.get(nm) != 1:
            continue
        ctor = prog.fn(init["ctor"])
        if ctor is None or not ctor.has_cfg or not ctor.file.startswith("/repo/") or not ctor.cls:
            continue
        cls = prog.cls(ctor.cls)
        if cls is None or cls.get("bases") or strip_targs(ctor.cls) in (known_fields or {}):
            continue
        fields = [f0 for f0 in cls.get("fields", []) if not f0.get("static")]
        inits = {}
        ok = True
        texts = []
        for _, _, ce in ctor.all_elems():
            if ce.get("expr") is None:
                continue
            if ce.get("kind") == "init" and ce.get("field"):
                inits[ce["field"]] = ce["expr"]
                texts.append(fmt(ce["expr"]))
        for _, _, ce in ctor.all_elems():
            if ce.get("expr") is None or ce.get("kind") == "init":
                continue
            if fmt(ce["expr"]) not in " ".join(texts):
                ok = False  # the constructor body does something besides initialising members
        if not ok or not fields or any(f0["qual"] not in inits for f0 in fields):
            continue
        if any(y.get("k") == "this" or (y.get("k") == "member" and not y.get("method") and y.get("base") is None) for t0 in inits.values() for y in walk(t0)):
            continue
        # uses: only obj.member
        bad = [False]

        def scan(n):
            if isinstance(n, list):
                for y in n:
                    scan(y)
                return
            if not isinstance(n, dict):
                return
            if n.get("k") == "member" and not n.get("method") and not n.get("arrow"):
                b0 = ir.unwrap(n.get("base"))
                if isinstance(b0, dict) and b0.get("k") == "ref" and b0.get("decl") == "local:" + nm:
                    return
            if n.get("k") == "ref" and n.get("decl") == "local:" + nm:
                bad[0] = True
                return
            if n.get("k") == "lambda":
                if any(c0.get("name") == nm for c0 in n.get("captures", []) if isinstance(c0, dict)):
                    bad[0] = True
            for kk, vv in n.items():
                if isinstance(vv, (dict, list)):
                    scan(vv)
        for b2, i2, e2 in fn.roots():
            x2 = e2["expr"]
            if (b2, i2) == (bid, i):
                for v2 in x2.get("vars", []):
                    if v2["name"] != nm and v2.get("init") is not None:
                        scan(v2["init"])
                continue
            scan(x2)
        for b2 in fn.blocks:
            t2 = fn.term(b2)
            for key in ("cond", "full"):
                if isinstance(t2.get(key), dict):
                    scan(t2[key])
        if bad[0]:
            continue
        pre = []
        rw = inl._rewriter({p0.get("name") for p0 in fn.params} | set(count), ctor, init, pre)
        if pre:
            continue
        plans[nm] = (bid, i, fields, {q: rw(t0) for q, t0 in inits.items()})
    if not plans:
        return fn

    def rwm(n):
        if isinstance(n, list):
            return [rwm(y) for y in n]
        if not isinstance(n, dict):
            return n
        if n.get("k") == "member" and not n.get("method") and not n.get("arrow"):
            b0 = ir.unwrap(n.get("base"))
            if isinstance(b0, dict) and b0.get("k") == "ref" and b0.get("decl", "")[6:] in plans and b0.get("decl", "").startswith("local:"):
                return {"k": "ref", "decl": "local:%s__%s" % (b0["decl"][6:], (n.get("field") or "").split("::")[-1]), "type": n.get("type", "")}
        return {kk: (rwm(vv) if isinstance(vv, (dict, list)) else vv) for kk, vv in n.items()}

    d = copy.deepcopy(fn.d)
    for b in d["cfg"]["blocks"]:
        for e in b.get("elems", []):
            x = e.get("expr")
            if x is None:
                continue
            if x.get("k") == "decl":
                nv = []
                for v in x.get("vars", []):
                    if v["name"] in plans:
                        _, _, fields, inits = plans[v["name"]]
                        for f0 in fields:
                            nv.append({"name": "%s__%s" % (v["name"], f0["name"]), "type": f0.get("type", ""), "init": inits[f0["qual"]]})
                    else:
                        v2 = dict(v)
                        if v2.get("init") is not None:
                            v2["init"] = rwm(v2["init"])
                        nv.append(v2)
                x["vars"] = nv
            else:
                e["expr"] = rwm(x)
        t = b.get("term", {})
        for key in ("cond", "full"):
            if isinstance(t.get(key), dict):
                t[key] = rwm(t[key])
    for nm in plans:
        log.append((fn.id, "local:" + nm, "helper object split into its members"))
    new = Fn(d, fn.unit)
    new.inlined = getattr(fn, "inlined", False)
    return new


def constfold(fn):
    """length of a string literal spelled as a call: std::char_traits<char>::length("--no-"), std::strlen("--no-") -> 5 (in place). The
    prefix a guard tests and the offset an accessor cuts at are then the same number however either is written."""
    def fold(tree):
        if not isinstance(tree, dict):
            return
        for n in ir.walk(tree):
            if isinstance(n, dict) and n.get("k") == "call" and len(n.get("args", [])) <= 1 and (n.get("this") is None or (isinstance(n.get("cval"), int) and ir.unwrap(n["this"]).get("k") == "this")):
                nm = n.get("name") or ""
                if isinstance(n.get("cval"), int) and not n.get("args"):
                    # an argument-less constexpr call the compiler evaluated (`reverse_prefix_length()`): its value
                    ln, v, t0, b0 = n.get("ln"), n["cval"], n.get("type"), n.get("bits")
                    n.clear()
                    n.update({"k": "lit", "t": "unsigned long" if "size_t" in (t0 or "") or "unsigned" in (t0 or "") else "int", "v": v, "ln": ln, "type": t0, "bits": b0})
                    continue
                if len(n.get("args", [])) == 1 and nm in ("std::addressof", "std::__addressof") and (fn.file or "").startswith("/repo/"):
                    # std::addressof(x) is &x for every type without an overloaded operator& (none of /repo's classes has one): read as the built-in
                    a = n["args"][0]
                    ln, t0 = n.get("ln"), n.get("type")
                    n.clear()
                    n.update({"k": "un", "op": "&", "e": a, "ln": ln})
                    if t0 is not None:
                        n["type"] = t0
                    continue
                if len(n.get("args", [])) == 1 and (nm.endswith("char_traits<char>::length") or nm in ("strlen", "std::strlen")):
                    a = ir.unwrap(n["args"][0])
                    while isinstance(a, dict) and a.get("k") == "cast":
                        a = ir.unwrap(a["e"])
                    if isinstance(a, dict) and a.get("k") == "lit" and a.get("t") == "str" and isinstance(a.get("v"), str):
                        ln = n.get("ln")
                        v = len(a["v"])
                        n.clear()
                        n.update({"k": "lit", "t": "unsigned long", "v": v, "ln": ln, "type": "std::size_t", "bits": 64})
    def named(tree):
        # a named integral / character / bool constant with a literal initialiser reads as that literal (`size() != short_name_length` is `size() != 1`)
        if not isinstance(tree, dict):
            return
        for n in ir.walk(tree):
            if isinstance(n, dict) and n.get("k") in ("ref", "member") and isinstance(n.get("const_init"), dict):
                ci = ir.unwrap(n["const_init"])
                while isinstance(ci, dict) and ci.get("k") == "cast":
                    ci = ir.unwrap(ci["e"])
                # ... and a named text constant that is a character array / constant pointer to a literal (`constexpr char key[] = "__default"`) as the literal
                text_const = isinstance(ci, dict) and ci.get("k") == "lit" and ci.get("t") == "str" and n.get("k") == "ref" and n.get("storage") in ("namespace", "static_member", "static_local") \
                    and re.match(r"^const char ?(\[\d+\]|\* ?const)$", n.get("type") or "") is not None
                if text_const or (isinstance(ci, dict) and ci.get("k") == "lit" and ci.get("t") != "str" and not isinstance(ci.get("v"), str) and (n.get("k") == "ref" or n.get("static"))):
                    keep = {"ln": n.get("ln"), "type": n.get("type"), "bits": n.get("bits")}
                    lit = dict(ci)
                    n.clear()
                    n.update(lit)
                    for k0, v0 in keep.items():
                        if v0 is not None and k0 not in n:
                            n[k0] = v0
    for b in fn.blocks.values():
        for e in b.get("elems", []):
            fold(e.get("expr"))
            if (fn.file or "").startswith("/repo/"):
                named(e.get("expr"))
        if (fn.file or "").startswith("/repo/"):
            named((b.get("term") or {}).get("cond"))
        t = b.get("term") or {}
        fold(t.get("cond"))


def normalise(prog, known=None):
    """replace every function that calls an unknown /repo helper by its expanded form; returns the inlining log"""
    known = load_known() if known is None else known
    if known is None:
        prog.inline_log = None
        return None
    inl = Inliner(prog, known)
    known_locals = load_known_locals()
    kf = load_known_fields()
    if kf is not None:
        canon_fields(prog, kf, inl.log)
    for fid in list(prog.fns):
        f = prog.fns[fid]
        if not f.has_cfg:
            continue
        constfold(f)
        g = inl.expand(f)
        constfold(g)
        if g is not f and kf is not None:
            g = sroa(prog, inl, g, kf, inl.log)
        if known_locals is not None:
            g = countdown(g, known_locals, inl.log)
            g = copyprop(g, known_locals, inl.log)
        if g is not f:
            prog.fns[fid] = g
            prog.by_qual[f.qual] = [g if x.id == fid else x for x in prog.by_qual[f.qual]]
    prog.inline_log = inl.log
    return inl.log
