"""A9: symbolic evaluation of a text-assembling loop (formatter::str).

The function is cut into three regions - the code before the loop, ONE generic iteration of the loop, the code after
it - and every acyclic path of each region is executed over a small symbolic domain:

  pos(l)     an iterator into the subject string at offset l from its begin(); l is a linear form over the symbols
             I (the cursor's value when the region starts), P<k>/L<k> (position/length of the match the match iterator
             designates after k advances), END (the subject's size)
  off(l)     an integral offset (same linear forms)
  mit(k)     the match iterator advanced k times since the region started;  mend  the past-the-end match iterator
  ait(k)     the argument iterator advanced k times;  arg(k)  the argument it designates
  subj/args  the subject string / the argument container (member fields named by the caller)

A region's result is the sequence of pieces appended to the result string - slice(a, b) of the subject or text(arg k) -
plus the final values of the loop-carried variables.  Names play no role: a variable is whatever its value says it is
(a local initialised from subject.begin() is a cursor, ...), temporaries, casts, copies and single-use locals are seen
through.  Anything outside the domain that touches a tracked variable or the result makes the region *unknown*
(the caller reports analysis-broken, never a violation).
"""
from . import ir, cfg
from .ir import fmt, walk, short
from .callgraph import tree_effects, lvalue_root


class Unknown(Exception):
    pass


def lin_add(a, b, k=1):
    out = dict(a)
    for key, v in b.items():
        out[key] = out.get(key, 0) + k * v
    return {key: v for key, v in out.items() if v}


def show_lin(l):
    if not l:
        return "0"
    parts = []
    for k in sorted(l):
        c = l[k]
        parts.append(("%s" % k if c == 1 else "%d*%s" % (c, k)) if k != "1" else str(c))
    return " + ".join(parts)


def show(v):
    if v is None:
        return "?"
    t = v[0]
    if t in ("pos", "off"):
        return ("begin + " if t == "pos" else "") + show_lin(v[1])
    if t == "slice":
        return "subject[%s, %s)" % (show_lin(v[1]), show_lin(v[2]))
    if t == "text":
        return "text(argument+%d)" % v[1]
    return "%s%s" % (t, list(v[1:]) if len(v) > 1 else "")


class StrSym:
    def __init__(self, fn, subject, args, result):
        """subject/args: field short names (format_, args_); result: name of the local that is returned"""
        self.fn = fn
        self.subject = subject
        self.args = args
        self.result = result
        # locals used as an INDEX into the argument list (`args_[i]`): an index that starts at 0 and is stepped by one plays the
        # argument iterator's part
        self.arg_indices = set()
        for _, _, e in fn.roots():
            for n in walk(e["expr"]):
                base = idx = None
                if n.get("k") == "subscript":
                    base, idx = n.get("base"), n.get("idx")
                elif n.get("k") == "call" and n.get("op") == "[]" and n.get("this") is not None and n.get("args"):
                    base, idx = n["this"], n["args"][0]
                bu, iu = ir.unwrap(base) if base is not None else None, ir.unwrap(idx) if idx is not None else None
                while isinstance(iu, dict) and iu.get("k") == "cast":
                    iu = ir.unwrap(iu["e"])
                if isinstance(bu, dict) and bu.get("k") == "member" and short(bu.get("field") or "") == args and isinstance(iu, dict) and iu.get("k") == "ref" and iu.get("decl", "").startswith("local:"):
                    self.arg_indices.add(iu["decl"][6:])

    # ------------------------------------------------------------------ expressions
    def ev(self, n, env):
        n = ir.unwrap(n)
        if not isinstance(n, dict):
            return None
        k = n.get("k")
        if k == "lit" and n.get("t") == "int":
            return ("off", {"1": n["v"]} if n["v"] else {})
        if k in ("cast",):
            return self.ev(n["e"], env)
        if k == "defarg":
            return self.ev(n.get("e"), env) if n.get("e") is not None else None
        if k == "ref":
            d = n.get("decl", "")
            if d.startswith("local:") or d.startswith("param:"):
                return env.get(d.split(":", 1)[1])
            return None
        if k == "member" and not n.get("method"):
            f = short(n.get("field") or "")
            b = ir.unwrap(n.get("base"))
            if isinstance(b, dict) and b.get("k") == "this":
                if f == self.subject:
                    return ("subj",)
                if f == self.args:
                    return ("args",)
                return None
            bv = self.ev(n.get("base"), env)
            if n.get("arrow") and bv and bv[0] == "mit":
                bv = ("match", bv[1])
            if bv and bv[0] == "match" and f in ("first", "second"):
                P, L = "P%d" % bv[1], "L%d" % bv[1]
                return ("pos", {P: 1} if f == "first" else {P: 1, L: 1})
            return None
        if k == "construct":
            args = [a for a in n.get("args", []) if not (isinstance(a, dict) and a.get("k") == "defarg")]
            nm = n.get("name") or n.get("type") or ""
            if "regex_iterator" in nm:
                if not args:
                    return ("mend",)
                if len(args) == 1:
                    return self.ev(args[0], env)
                a, b = self.ev(args[0], env), self.ev(args[1], env)
                if a == ("pos", {}) and b == ("pos", {"END": 1}):
                    return ("mit", 0, "fresh")
                return None
            if len(args) == 1:
                return self.ev(args[0], env)  # copy / converting copy of an iterator or string
            if not args and "basic_string" in nm:
                return ("empty",)
            return None
        if k == "un":
            v = self.ev(n["e"], env)
            if n["op"] == "*" and v:
                if v[0] == "mit":
                    return ("match", v[1])
                if v[0] == "ait":
                    return ("arg", v[1])
            if n["op"] == "-" and v and v[0] == "off":
                return ("off", lin_add({}, v[1], -1))
            if n["op"] in ("++pre", "--pre") and v:
                return self._step(v, 1 if n["op"][0] == "+" else -1)
            return None
        if k == "bin" and n["op"] in ("+", "-"):
            a, b = self.ev(n["l"], env), self.ev(n["r"], env)
            return self._arith(n["op"], a, b)
        if k == "subscript":
            b, i = self.ev(n.get("base"), env), self.ev(n.get("idx"), env)
            if b and b[0] == "match" and i == ("off", {}):
                return ("match", b[1])  # sub-match 0 = the whole match
            if b and b[0] == "args" and i and i[0] == "ait":
                return ("arg", i[1])
            return None
        if k == "call":
            nm = short(n.get("name") or "")
            op = n.get("op")
            args = [a for a in n.get("args", []) if not (isinstance(a, dict) and a.get("k") == "defarg" and a.get("e") is None)]
            th = n.get("this")
            if op in ("+", "-") and len(args) == 2 and th is None:
                return self._arith(op, self.ev(args[0], env), self.ev(args[1], env))
            if op in ("+", "-") and th is not None and len(args) == 1:
                return self._arith(op, self.ev(th, env), self.ev(args[0], env))
            if op in ("*", "->") and th is not None:
                v = self.ev(th, env)
                if v and v[0] == "mit":
                    return ("match", v[1])
                if v and v[0] == "ait":
                    return ("arg", v[1])
                return None
            if op == "[]" and th is not None and args:
                b, i = self.ev(th, env), self.ev(args[0], env)
                if b and b[0] == "match" and i == ("off", {}):
                    return ("match", b[1])
                if b and b[0] == "args" and i and i[0] == "ait":
                    return ("arg", i[1])
                return None
            if (n.get("name") or "") in ("std::move", "std::forward", "std::as_const") and args:
                return self.ev(args[0], env)
            if (n.get("name") or "") in ("std::next",) and args:
                a = self.ev(args[0], env)
                b = self.ev(args[1], env) if len(args) > 1 else ("off", {"1": 1})
                return self._arith("+", a, b)
            if (n.get("name") or "") in ("std::distance",) and len(args) == 2:
                return self._arith("-", self.ev(args[1], env), self.ev(args[0], env))
            if (n.get("name") or "") in ("std::begin", "std::cbegin", "std::end", "std::cend") and args:
                return self._bounds(self.ev(args[0], env), "begin" if "begin" in nm else "end")
            if th is not None:
                v = self.ev(th, env)
                if n.get("arrow") and v and v[0] in ("mit", "ait"):
                    v = ("match", v[1]) if v[0] == "mit" else ("arg", v[1])  # it->f() on an iterator (dependent form)
                if nm in ("begin", "cbegin", "end", "cend"):
                    return self._bounds(v, "begin" if "begin" in nm else "end")
                if v and v[0] == "match":
                    zero = (not args) or self.ev(args[0], env) == ("off", {})
                    if nm == "position" and zero:
                        return ("off", {"P%d" % v[1]: 1})
                    if nm == "length" and zero:
                        return ("off", {"L%d" % v[1]: 1})
                    return None
                if v and v[0] == "subj" and nm in ("size", "length"):
                    return ("off", {"END": 1})
                if v and v[0] == "subj" and nm == "substr" and args:
                    a = self.ev(args[0], env)
                    if a and a[0] == "off":
                        if len(args) > 1:
                            c = self.ev(args[1], env)
                            if c and c[0] == "off":
                                return ("slice", a[1], lin_add(a[1], c[1]))
                            return None
                        return ("slice", a[1], {"END": 1})
                if v and v[0] == "arg" and nm in ("str", "c_str", "data") and not args:
                    return v
            return None
        return None

    def _bounds(self, v, which):
        if v is None:
            return None
        if v[0] == "subj":
            return ("pos", {} if which == "begin" else {"END": 1})
        if v[0] == "args":
            return ("ait", 0, "fresh") if which == "begin" else ("aend",)
        if v[0] == "arg":
            return ("argpos", v[1], which)
        return None

    def _arith(self, op, a, b):
        if a is None or b is None:
            return None
        s = 1 if op == "+" else -1
        if a[0] == "pos" and b[0] == "off":
            return ("pos", lin_add(a[1], b[1], s))
        if a[0] == "off" and b[0] == "pos" and op == "+":
            return ("pos", lin_add(b[1], a[1]))
        if a[0] == "off" and b[0] == "off":
            return ("off", lin_add(a[1], b[1], s))
        if a[0] == "pos" and b[0] == "pos" and op == "-":
            return ("off", lin_add(a[1], b[1], -1))
        return None

    @staticmethod
    def _step(v, d):
        if v[0] in ("mit", "ait"):
            return (v[0], v[1] + d)
        if v[0] in ("pos", "off"):
            return (v[0], lin_add(v[1], {"1": d}))
        return None

    # ------------------------------------------------------------------ statements
    def exec_elem(self, e, env, out):
        x = e.get("expr")
        if x is None:
            return
        xs = ir.unwrap(x)
        if isinstance(xs, dict) and xs.get("k") == "return":
            return
        if isinstance(xs, dict) and xs.get("k") == "decl":
            for v in xs.get("vars", []):
                init = v.get("init")
                iu = ir.unwrap(init) if init is not None else None
                if isinstance(iu, dict) and iu.get("k") in ("paren_list", "init_list") and "regex_iterator" in (v.get("type") or ""):
                    # direct-initialisation with a dependent type: T name(a, b, c) / T name{}
                    init = {"k": "construct", "name": v.get("type"), "args": list(iu.get("elems", iu.get("kids", iu.get("args", []))))}
                env[v["name"]] = self.ev(init, env) if init is not None else None
                if v["name"] in self.arg_indices and env[v["name"]] == ("off", {}):
                    env[v["name"]] = ("ait", 0, "fresh")  # size_type i = 0; ... args_[i]
                self._effects(init, env, out)
            return
        self._effects(x, env, out)

    def _effects(self, x, env, out):
        if x is None:
            return
        # evaluation order: operands first (post-order walk over unconditional sub-expressions)
        def post(n):
            if not isinstance(n, dict):
                return
            if n.get("k") == "bin" and n.get("op") == ",":
                post(n["l"])
                post(n["r"])
                return
            for ch in ir.children(n, into_sc=False):
                post(ch)
            self._effect_node(n, env, out)
        post(x)

    def _tracked(self, name, env):
        v = env.get(name)
        return name == self.result or (v is not None and v[0] in ("pos", "mit", "ait", "mend", "aend"))

    def _effect_node(self, n, env, out):
        k = n.get("k")
        if k == "un" and n["op"] in ("++pre", "++post", "--pre", "--post"):
            t = ir.unwrap(n["e"])
            if isinstance(t, dict) and t.get("k") == "ref" and t.get("decl", "").startswith("local:"):
                nm = t["decl"][6:]
                v = env.get(nm)
                if v is not None:
                    env[nm] = self._step(v, 1 if n["op"][0] == "+" else -1)
            return
        if k == "bin" and n["op"] in ("=", "+=", "-="):
            t = ir.unwrap(n["l"])
            if isinstance(t, dict) and t.get("k") == "ref" and t.get("decl", "").startswith("local:"):
                nm = t["decl"][6:]
                if nm == self.result:
                    if n["op"] == "+=":
                        self._append(out, [n["r"]], env, n)
                    else:
                        out.append(("unknown", fmt(n)))
                    return
                if n["op"] == "=":
                    env[nm] = self.ev(n["r"], env)
                else:
                    env[nm] = self._arith(n["op"][0], env.get(nm), self.ev(n["r"], env))
            return
        if k != "call":
            return
        nm = short(n.get("name") or "")
        op = n.get("op")
        th = ir.unwrap(n.get("this")) if n.get("this") is not None else None
        args = [a for a in n.get("args", []) if not (isinstance(a, dict) and a.get("k") == "defarg")]
        recv = th["decl"][6:] if isinstance(th, dict) and th.get("k") == "ref" and th.get("decl", "").startswith("local:") else None
        if op in ("++", "--") and (recv or (args and isinstance(ir.unwrap(args[0]), dict) and ir.unwrap(args[0]).get("k") == "ref")):
            name = recv or ir.unwrap(args[0])["decl"].split(":", 1)[1]
            v = env.get(name)
            if v is not None:
                env[name] = self._step(v, 1 if op == "++" else -1)
            return
        if op == "=" and recv is not None:
            if recv == self.result:
                out.append(("unknown", fmt(n)))
            else:
                env[recv] = self.ev(args[0], env) if args else None
            return
        if op in ("+=",) and recv is not None:
            if recv == self.result:
                self._append(out, args, env, n)
            else:
                env[recv] = self._arith("+", env.get(recv), self.ev(args[0], env) if args else None)
            return
        if recv == self.result:
            if nm in ("append", "operator+=", "push_back", "insert"):
                if nm == "insert":
                    out.append(("unknown", fmt(n)))
                else:
                    self._append(out, args, env, n)
            elif nm in ("reserve", "size", "length", "capacity", "empty", "shrink_to_fit"):
                pass
            else:
                out.append(("unknown", fmt(n)))
            return
        if (n.get("name") or "") == "std::advance" and len(args) == 2:
            t = ir.unwrap(args[0])
            if isinstance(t, dict) and t.get("k") == "ref":
                name = t["decl"].split(":", 1)[1]
                d = self.ev(args[1], env)
                v = env.get(name)
                if v is not None and d and d[0] == "off" and set(d[1]) <= {"1"}:
                    env[name] = self._step(v, d[1].get("1", 0))
                elif v is not None:
                    env[name] = None
            return
        # a tracked variable handed to some other call by non-const reference / a stream insertion into the result
        for a in args + ([n.get("this")] if n.get("this") is not None else []):
            au = ir.unwrap(a)
            if isinstance(au, dict) and au.get("k") == "ref" and au.get("decl", "").startswith("local:"):
                name = au["decl"][6:]
                if self._tracked(name, env):
                    cid = n.get("callee") or ""
                    from .callgraph import is_const_method_id
                    if a is n.get("this") and (is_const_method_id(cid) or nm in ("begin", "end", "cbegin", "cend", "position", "length", "str", "size")):
                        continue
                    if op in ("==", "!=", "<", ">", "<=", ">=", "*", "->", "-", "+", "[]"):
                        continue
                    if (n.get("name") or "") in ("std::move", "std::forward", "std::next", "std::distance", "std::as_const"):
                        continue
                    if name == self.result:
                        out.append(("unknown", fmt(n)))
                    else:
                        env[name] = None

    def _append(self, out, args, env, node):
        vals = [self.ev(a, env) for a in args]
        if len(vals) == 2 and vals[0] and vals[1] and vals[0][0] == "pos" and vals[1][0] == "pos":
            out.append(("slice", vals[0][1], vals[1][1]))
        elif len(vals) == 2 and vals[0] and vals[1] and vals[0][0] == "argpos" and vals[1][0] == "argpos" and vals[0][1] == vals[1][1] and (vals[0][2], vals[1][2]) == ("begin", "end"):
            out.append(("text", vals[0][1]))
        elif len(vals) == 1 and vals[0] and vals[0][0] == "arg":
            out.append(("text", vals[0][1]))
        elif len(vals) == 1 and vals[0] and vals[0][0] == "slice":
            out.append(vals[0])
        elif len(vals) == 3 and vals[0] and vals[0][0] == "subj" and vals[1] and vals[2] and vals[1][0] == "off" and vals[2][0] == "off":
            out.append(("slice", vals[1][1], lin_add(vals[1][1], vals[2][1])))
        elif len(vals) == 1 and vals[0] and vals[0][0] == "empty":
            pass
        else:
            out.append(("unknown", fmt(node)))

    # ------------------------------------------------------------------ regions
    def paths(self, start, inside, stop):
        """acyclic block paths from `start` through blocks in `inside` that end by stepping to a block in `stop`
        (the stop block is not part of the path); paths into noreturn blocks are dropped"""
        fn = self.fn
        out = []
        st = [(start, (start,))]
        while st:
            b, path = st.pop()
            if fn.is_noreturn(b):
                continue
            for to, lab in fn.succs(b):
                if to in stop:
                    out.append(list(path))
                elif to in inside and to not in path:
                    st.append((to, path + (to,)))
            if len(out) > 2000:
                raise Unknown("too many paths")
        return out

    def run_path(self, path, env, upto=None):
        """execute the blocks of a path; returns (env, appended pieces)"""
        env = dict(env)
        out = []
        for b in path:
            for i, e in enumerate(self.fn.elems(b)):
                if upto is not None and (b, i) == upto:
                    return env, out
                self.exec_elem(e, env, out)
        return env, out
