"""A2: path-sensitive must-facts. Forward dataflow whose state is a set of formulas known to hold; branch edges add the
(negated) terminator condition; join is intersection; writes kill facts that mention the written object; an edge whose
condition contradicts the facts is infeasible and pruned. Calls that receive an object by non-const reference kill its
facts unless the callee's frame summary shows it is unmodified whenever the call returns false (conditional stash).
"""
import re

from . import ir, cfg, logic
from .logic import And, Or, Not, T, F, atoms_of, canon, objpath, subst
from .callgraph import tree_effects, lvalue_root, split_params, nonconst_ref_param
from .ir import walk, fmt, short


def conjuncts(f):
    """split a formula into conjuncts (NNF-ish for not-or)"""
    if f[0] == "&":
        return conjuncts(f[1]) + conjuncts(f[2])
    if f[0] == "n" and f[1][0] == "|":
        return conjuncts(Not(f[1][1])) + conjuncts(Not(f[1][2]))
    if f[0] == "n" and f[1][0] == "n":
        return conjuncts(f[1][1])
    if f == T:
        return []
    return [f]


def mentions(key, name):
    """does atom key mention object `name` (token-wise; `a.b` also mentions `a`)"""
    if key.startswith("ret:") or key.startswith("(ret:"):
        return False  # the result of a past evaluation, not a predicate of the current state
    return re.search(r"(?<![\w.])" + re.escape(name) + r"(?![\w])", key) is not None


class FactsEngine:
    def __init__(self, prog, cg, lg=None):
        self.prog = prog
        self.cg = cg
        self.lg = lg or logic.Logic(prog, cg)
        self._memo = {}
        self._frame = {}
        self.pruned = []  # (fn id, bid, to) infeasible edges found

    # ---- kills
    def _killed_names(self, fn, e, env):
        """names of objects (canonical paths) whose facts die when element e executes; plus conditional kills
        [(name, callkey)] for frame-summarised calls"""
        hard, soft = set(), []
        x = e.get("expr")
        if x is None:
            return hard, soft
        if isinstance(x, dict) and x.get("k") == "decl":
            for v in x.get("vars", []):
                hard.add((env.get("lprefix") or "") + v["name"] if env else v["name"])
        for eff, lv, n in tree_effects(x, into_sc=False):
            if eff not in ("write", "maybe_write", "move") or lv is None:
                continue
            lvs = subst(lv, env) if env else lv
            root = ir.unwrap(lvs)
            name = objpath(root)
            # strip leading deref for iterator-like writes: ++it kills `it` and `(*it)`
            base = name
            while base.startswith("(*") and base.endswith(")"):
                base = base[2:-1]
            names = {name, base}
            if n.get("k") == "call" and n.get("callee") and eff == "write":
                callee = self.prog.fn(n["callee"])
                # by-reference argument of an analysed callee with a frame summary
                args = n.get("args", [])
                idx = None
                for i, a in enumerate(args):
                    if a is lv:
                        idx = i
                if callee is not None and idx is not None and callee.has_cfg and callee.ret in ("bool", "_Bool"):
                    if self.frame_preserves_on_false(callee, idx):
                        ck = "ret:" + canon(subst(n, env) if env else n)
                        for nm in names:
                            soft.append((nm, ck))
                        continue
            hard |= names
        return hard, soft

    def frame_preserves_on_false(self, callee, pidx):
        """param #pidx (by non-const ref) is never written on a path that ends in a return of a non-`true` value"""
        key = (callee.id, pidx)
        if key in self._frame:
            return self._frame[key]
        res = False
        if pidx < len(callee.params):
            pname = callee.params[pidx]["name"]

            def writes_p(e):
                x = e.get("expr")
                if x is None:
                    return False
                for eff, lv, n in tree_effects(x, into_sc=False):
                    if eff in ("write", "maybe_write", "move") and lv is not None:
                        kind, k2, _ = lvalue_root(lv)
                        if kind.split(":")[-1] == "param" and k2 == pname:
                            return True
                return False

            def ret_not_true(e):
                x = e.get("expr")
                if isinstance(x, dict) and x.get("k") == "return":
                    r = ir.unwrap(x.get("e"))
                    return not (isinstance(r, dict) and r.get("k") == "lit" and r.get("v") is True)
                return False

            res = True
            for (bid, i, e) in cfg.find_elems(callee, writes_p):
                if cfg.reaches_without(callee, (bid, i), ret_not_true, lambda e: False) is not None:
                    res = False
                    break
        self._frame[key] = res
        return res

    # ---- dataflow
    def analyse(self, fn, env=None, envkey="", init=frozenset()):
        """returns (IN, before) with states = frozenset of formulas known to hold.
        A fact F about an object handed by non-const reference to a call c whose frame summary says "unmodified when
        c returns false" survives as the weaker fact (c || F)."""
        key = (fn.id, envkey, init)
        if key in self._memo:
            return self._memo[key]
        env = env or {}
        lg = self.lg

        def kill(state, hard, soft, callkeys):
            if not hard and not soft and not callkeys:
                return state
            out = set()
            softmap = {}
            for nm, ck in soft:
                softmap.setdefault(nm, set()).add(ck)
            for form in state:
                keys = atoms_of(form)
                # a re-evaluated call invalidates what was known about its previous result
                if any(k in callkeys or k[1:-6] in callkeys for k in keys):
                    continue
                if any(mentions(k, nm) for k in keys for nm in hard):
                    continue
                cks = set()
                for nm, cs in softmap.items():
                    if any(mentions(k, nm) for k in keys):
                        cks |= cs
                if cks:
                    g = form
                    for ck in sorted(cks):
                        g = Or(("a", ck), g)
                    out.add(g)
                else:
                    out.add(form)
            return frozenset(out)

        def gen_assign(state, e):
            """x = true / x = false (bool locals and members): the assigned truth value is known afterwards"""
            x = e.get("expr")
            if not isinstance(x, dict):
                return state
            add = []
            for n in walk(x, into_sc=False):
                if n.get("k") == "bin" and n["op"] == "=":
                    r = ir.unwrap(n["r"])
                    if isinstance(r, dict) and r.get("k") == "lit" and r.get("t") == "bool":
                        tgt = ir.unwrap(n["l"])
                        if isinstance(tgt, dict) and tgt.get("k") in ("ref", "member"):
                            a = ("a", canon(subst(tgt, env) if env else tgt))
                            add.append(a if r["v"] else Not(a))
                elif n.get("k") == "decl":
                    for v in n.get("vars", []):
                        r = ir.unwrap(v.get("init"))
                        if v.get("type") in ("bool", "_Bool") and isinstance(r, dict) and r.get("k") == "lit" and r.get("t") == "bool":
                            a = ("a", ((env.get("lprefix") or "") if env else "") + v["name"])
                            add.append(a if r["v"] else Not(a))
            if add:
                return frozenset(set(state) | set(add))
            return state

        def telem(state, bid, i, e):
            return gen_assign(telem0(state, bid, i, e), e)

        def telem0(state, bid, i, e):
            hard, soft = self._killed_names(fn, e, env)
            callkeys = set()
            x = e.get("expr")
            if x is not None:
                for n in walk(x, into_sc=False):
                    if n.get("k") == "call" and not n.get("op"):
                        callkeys.add("ret:" + canon(subst(n, env) if env else n))
            return kill(state, hard, soft, callkeys)

        def tedge(state, bid, to, lab):
            if lab not in ("true", "false"):
                return state
            t = fn.term(bid)
            c = t.get("cond")
            if c is None:
                return state
            f = lg.truthy(c, dict(env, locals={}), 0)
            if lab == "false":
                f = Not(f)
            r, _ = logic.entails(state, Not(f), lg.axioms)
            if r is True:
                self.pruned.append((fn.id, bid, to))
                return None
            new = set(state)
            for cj in conjuncts(f):
                new.add(cj)
            return frozenset(new)

        def join(a, b):
            if a == b:
                return a
            out = set(a & b)
            for g in a - b:
                r, _ = logic.entails(b, g, lg.axioms)
                if r is True:
                    out.add(g)
            only_b = []
            for g in b - a:
                r, _ = logic.entails(a, g, lg.axioms)
                if r is True:
                    out.add(g)
                else:
                    only_b.append(g)
            only_a = [g for g in a - b if g not in out]
            # keep what both sides know disjunctively (bounded): (g || h) holds on either incoming edge
            if 0 < len(only_a) * len(only_b) <= 12:
                for g in only_a:
                    for h in only_b:
                        d = Or(g, h)
                        if d != T and logic.entails([], d)[0] is not True:
                            out.add(d)
            return frozenset(out)

        IN, before = cfg.forward(fn, frozenset(init), telem, tedge, join)
        self._memo[key] = (IN, before)
        return IN, before

    def facts_at(self, fn, bid, idx, env=None, envkey=""):
        IN, before = self.analyse(fn, env, envkey)
        st = before.get((bid, idx))
        if st is None:
            return None  # unreachable position
        return list(st)

    def facts_in(self, fn, bid, env=None, envkey=""):
        IN, before = self.analyse(fn, env, envkey)
        st = IN.get(bid)
        if st is None:
            return None
        return list(st)

    def feasible_blocks(self, fn):
        IN, before = self.analyse(fn)
        return set(IN.keys())

    def proves(self, fn, bid, idx, goal, env=None, envkey=""):
        facts = self.facts_at(fn, bid, idx, env, envkey)
        if facts is None:
            return True, "unreachable"
        r, cm = logic.entails(facts, goal, self.lg.axioms)
        return bool(r), cm
