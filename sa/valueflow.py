"""A6: verbatim value flow. Decides whether expression E is a *copy-only carrier* of a source:
the source itself; a local all of whose definitions are carriers; implicit casts, copy/move construction,
std::move/forward, temporaries; a call to an accessor whose every return returns a carrier of a member that is in turn
only ever assigned carriers (checked by the caller through `accessor_ok`). Any other call on the way (trim, substr,
operator+, re-parsing through another constructor) is a transformation and is reported with the offending node.
"""
from . import ir
from .ir import fmt, walk, short
from .callgraph import tree_effects, lvalue_root

COPY_CTORS = ("std::basic_string", "std::__cxx11::basic_string")


def local_defs(fn, name):
    """all expressions assigned to local `name` in fn: [(kind, node)] kind in init/assign/out-param/other"""
    out = []
    for bid, i, e in fn.all_elems():
        x = e.get("expr")
        if x is None:
            continue
        for n in walk(x, into_sc=True):
            if n.get("k") == "decl":
                for v in n.get("vars", []):
                    if v["name"] == name:
                        out.append(("init", v.get("init"), n))
        for eff, lv, n in tree_effects(x, into_sc=True):
            if eff in ("write", "maybe_write") and lv is not None:
                kind, key, _ = lvalue_root(lv)
                if kind == "local" and key == name:
                    if n.get("k") == "bin" and n["op"] == "=":
                        out.append(("assign", n["r"], n))
                    elif n.get("k") == "call" and n.get("op") == "=":
                        out.append(("assign", n["args"][0] if n.get("args") else None, n))
                    elif n.get("k") == "call" and (n.get("name") or "") in ("std::move", "std::forward") and len(n.get("args", [])) == 1:
                        continue  # the cast itself changes nothing; what is read after the consumer took the value is R-moved's business
                    elif n.get("k") == "call":
                        th = n.get("this")
                        if th is not None and ir.unwrap(th) is ir.unwrap(lv):
                            if short(n.get("name") or "") in ("back", "front", "begin", "end", "at", "data", "operator[]", "rbegin", "rend"):
                                continue  # non-const overload of an observer: reads only
                            out.append(("method", n, n))
                        else:
                            out.append(("out-param", n, n))
                    else:
                        out.append(("other", n, n))
        # a mutable iterator / pointer into the local handed to an algorithm that writes through it
        for m in walk(x, into_sc=True):
            if m.get("k") != "call" or (m.get("name") or "") not in MUTATING_ALGOS:
                continue
            for a in m.get("args", []):
                a = ir.unwrap(a)
                while isinstance(a, dict) and a.get("k") == "cast":
                    a = ir.unwrap(a["e"])
                if isinstance(a, dict) and a.get("k") == "call" and short(a.get("name") or "") in ("begin", "end", "data", "rbegin", "rend") and a.get("this") is not None:
                    t = ir.unwrap(a["this"])
                    if isinstance(t, dict) and t.get("k") == "ref" and t.get("decl") == "local:" + name and not (t.get("type") or "").startswith("const "):
                        out.append(("out-param", m, m))
                        break
    return out


MUTATING_ALGOS = {"std::" + a for a in ("transform", "copy", "copy_n", "copy_if", "copy_backward", "move", "move_backward", "fill", "fill_n", "generate", "generate_n", "replace", "replace_if",
                                        "reverse", "rotate", "sort", "stable_sort", "remove", "remove_if", "unique", "swap_ranges", "for_each", "iota", "partition", "shuffle", "next_permutation")}


def carrier(fn, e, is_source, out_param_ok=None, accessor_ok=None, depth=0, seen=None):
    """(True, None) if e is a copy-only carrier of a source, else (False, offending node / reason)"""
    seen = seen or set()
    n = ir.unwrap(e)
    if n is None:
        return False, "no expression"
    if not isinstance(n, dict):
        return False, str(n)
    if is_source(n):
        return True, None
    if depth > 12:
        return False, "flow too deep"
    k = n.get("k")
    if k == "construct":
        args = [a for a in n.get("args", []) if not (isinstance(a, dict) and a.get("k") == "defarg")]
        nm = n.get("name") or ""
        if len(args) == 1 and (n.get("copy") or n.get("move") or any(nm.startswith(c) for c in COPY_CTORS)):
            # copy/move construction; basic_string(const char*) from a carrier char pointer is a copy too
            return carrier(fn, args[0], is_source, out_param_ok, accessor_ok, depth + 1, seen)
        return False, "constructed through %s{...}: %s" % (short(nm), fmt(n))
    if k == "call":
        nm = n.get("name") or ""
        if nm in ("std::move", "std::forward") and n.get("args"):
            return carrier(fn, n["args"][0], is_source, out_param_ok, accessor_ok, depth + 1, seen)
        if accessor_ok is not None:
            r = accessor_ok(n)
            if r is not None:
                return r
        return False, "passes through %s" % fmt(n)
    if k == "cast":
        return carrier(fn, n["e"], is_source, out_param_ok, accessor_ok, depth + 1, seen)
    if k == "ref" and n.get("decl", "").startswith("local:"):
        name = n["decl"][6:]
        if name in seen:
            return True, None
        seen = seen | {name}
        defs = local_defs(fn, name)
        if not defs:
            return False, "local %s has no definition" % name
        any_def = False
        for kind, rhs, node in defs:
            if kind == "init" and rhs is None:
                continue
            if kind == "init" and ir.unwrap(rhs) is not None and ir.unwrap(rhs).get("k") == "construct" and not ir.unwrap(rhs).get("args"):
                continue  # default-initialised, filled later
            if kind in ("init", "assign"):
                ok, why = carrier(fn, rhs, is_source, out_param_ok, accessor_ok, depth + 1, seen)
                if not ok:
                    return False, why
                any_def = True
            elif kind == "out-param" and isinstance(rhs, dict) and rhs.get("k") == "call" and short(rhs.get("name") or "") == "swap" and rhs.get("this") is not None \
                    and any(fmt(ir.unwrap(a0)) == name for a0 in rhs.get("args", [])):
                any_def = True  # `member.swap(local)`: the local is handed over as a whole
            elif kind == "out-param":
                if out_param_ok is not None and out_param_ok(rhs, name):
                    any_def = True
                    continue
                return False, "local %s is modified by %s" % (name, fmt(rhs))
            elif kind in ("method", "out-param", "other") and isinstance(node, dict) and node.get("k") == "call" and short(node.get("name") or "") == "swap" and node.get("this") is not None \
                    and any(fmt(ir.unwrap(a0)) == name for a0 in node.get("args", [])):
                # `member.swap(local)`: the local is handed over as a whole (what it receives in exchange is not read again - checked by the caller's rule)
                any_def = True
            elif kind == "method" and isinstance(node, dict) and node.get("k") == "call" and short(node.get("name") or "") in ("push_back", "emplace_back") and len(node.get("args", [])) == 1:
                # a local list that collects pieces before they are committed in one step: every piece appended is a carrier itself
                ok, why = carrier(fn, node["args"][0], is_source, out_param_ok, accessor_ok, depth + 1, seen)
                if not ok:
                    return False, why
                any_def = True
            else:
                return False, "local %s is modified by %s" % (name, fmt(node))
        if not any_def:
            return False, "local %s is never given a value" % name
        return True, None
    if k == "cond":
        a, w = carrier(fn, n["t"], is_source, out_param_ok, accessor_ok, depth + 1, seen)
        if not a:
            return a, w
        return carrier(fn, n["f"], is_source, out_param_ok, accessor_ok, depth + 1, seen)
    return False, "is %s" % fmt(n)
