"""A3: boolean skeletons. Formulas over canonical atoms, predicate inlining, truth-table decision.

Formula := ('c', bool) | ('a', key) | ('n', F) | ('&', F, G) | ('|', F, G)
An *atom* is the canonical rendering of a side-effect-free sub-expression after substituting `this`, parameters and
single-assignment locals; comparisons are reduced to '==' and '<' atoms. This is a finite abstract evaluation of the
function's shape - no program path is handed to a solver.
"""
import copy
import itertools

from . import ir
from .ir import fmt, short

import re as _re
_INTLIKE = _re.compile(r"(unsigned |signed )?(int|long|short|char|long long)( unsigned)?|std::size_t|size_t|std::(u)?int\d+_t|(u)?int\d+_t")
T = ("c", True)
F = ("c", False)
MAX_INLINE = 4


def Not(f):
    if f[0] == "c":
        return ("c", not f[1])
    if f[0] == "n":
        return f[1]
    return ("n", f)


def And(f, g):
    if f == F or g == F:
        return F
    if f == T:
        return g
    if g == T:
        return f
    if f == g:
        return f
    return ("&", f, g)


def Or(f, g):
    if f == T or g == T:
        return T
    if f == F:
        return g
    if g == F:
        return f
    if f == g:
        return f
    return ("|", f, g)


def Ite(c, t, e):
    if t == e:
        return t
    return Or(And(c, t), And(Not(c), e))


def atoms_of(f, acc=None):
    if acc is None:
        acc = set()
    if f[0] == "a":
        acc.add(f[1])
    elif f[0] == "n":
        atoms_of(f[1], acc)
    elif f[0] in "&|":
        atoms_of(f[1], acc)
        atoms_of(f[2], acc)
    return acc


def evalf(f, env):
    k = f[0]
    if k == "c":
        return f[1]
    if k == "a":
        return env[f[1]]
    if k == "n":
        return not evalf(f[1], env)
    if k == "&":
        return evalf(f[1], env) and evalf(f[2], env)
    return evalf(f[1], env) or evalf(f[2], env)


def show(f):
    k = f[0]
    if k == "c":
        return "true" if f[1] else "false"
    if k == "a":
        return f[1]
    if k == "n":
        return "!" + show(f[1]) if f[1][0] in "ac" else "!(" + show(f[1]) + ")"
    op = " && " if k == "&" else " || "
    return "(" + show(f[1]) + op + show(f[2]) + ")"


def simp(f, assign):
    """partial evaluation of f under a partial assignment of atoms"""
    k = f[0]
    if k == "c":
        return f
    if k == "a":
        v = assign.get(f[1])
        return f if v is None else ("c", v)
    if k == "n":
        return Not(simp(f[1], assign))
    if k == "&":
        return And(simp(f[1], assign), simp(f[2], assign))
    return Or(simp(f[1], assign), simp(f[2], assign))


def entails(facts, goal, axioms=(), limit=18):
    """facts (iterable of formulas) together with axioms entail goal? Unit propagation, relevance filtering, then a
    truth table over the remaining atoms. Returns (True, None) / (False, countermodel) / (None, 'too many atoms')."""
    assign = {}
    rest = []
    pending = list(facts) + list(axioms)
    inconsistent = False
    while pending:
        nxt = []
        progress = False
        for f in pending:
            f = simp(f, assign) if assign else f
            if f == T:
                continue
            if f == F:
                inconsistent = True
                break
            if f[0] == "a":
                assign[f[1]] = True
                progress = True
            elif f[0] == "n" and f[1][0] == "a":
                assign[f[1][1]] = False
                progress = True
            elif f[0] == "&":
                nxt.append(f[1])
                nxt.append(f[2])
                progress = True
            elif f[0] == "n" and f[1][0] == "|":
                nxt.append(Not(f[1][1]))
                nxt.append(Not(f[1][2]))
                progress = True
            else:
                nxt.append(f)
        if inconsistent:
            return True, None
        if not progress:
            rest = nxt
            break
        pending = nxt
    else:
        rest = []
    g = simp(goal, assign)
    if g == T:
        return True, None
    rest = [simp(f, assign) for f in rest]
    rest = [f for f in rest if f != T]
    if any(f == F for f in rest):
        return True, None
    # relevance: facts sharing atoms (transitively) with the goal
    rel = atoms_of(g)
    changed = True
    while changed:
        changed = False
        for f in rest:
            a = atoms_of(f)
            if a & rel and not a <= rel:
                rel |= a
                changed = True
    relfacts = [f for f in rest if atoms_of(f) & rel]
    # facts unrelated to the goal can still be jointly unsatisfiable; ignoring them is sound for "entails" = False
    # only if they are satisfiable - they are conjunctions of independent branch conditions, accepted here.
    atoms = sorted(rel)
    if len(atoms) > limit:
        return None, "too many atoms (%d)" % len(atoms)
    for vals in itertools.product((False, True), repeat=len(atoms)):
        env = dict(zip(atoms, vals))
        if all(evalf(f, env) for f in relfacts) and not evalf(g, env):
            env.update(assign)
            return False, env
    return True, None


def equivalent(f, g, axioms=()):
    a, _ = entails([f], g, axioms)
    b, _ = entails([g], f, axioms)
    return bool(a) and bool(b)


def satisfiable(facts, axioms=()):
    r, _ = entails(facts, F, axioms)
    return r is False


# ------------------------------------------------------------------------------------ substitution

def subst(n, env):
    """replace `this`, params and propagated locals in an expression tree (returns a new tree)"""
    if not isinstance(n, dict):
        return n
    k = n.get("k")
    if k == "this" and env.get("this") is not None:
        return env["this"]
    if k == "ref":
        d = n.get("decl", "")
        if d.startswith("param:") and d[6:] in env.get("params", {}):
            return env["params"][d[6:]]
        if d.startswith("local:") and d[6:] in env.get("locals", {}):
            return env["locals"][d[6:]]
        if d.startswith("local:") and env.get("lprefix") and not d[6:].startswith(env["lprefix"]):
            m = dict(n)
            m["decl"] = "local:" + env["lprefix"] + d[6:]
            return m
        return n
    out = {}
    if n.get("arrow") and env.get("this") is not None:
        b = n.get("base") if k == "member" else n.get("this")
        if isinstance(b, dict) and b.get("k") == "this":
            n = dict(n)
            n["arrow"] = False
    for key, v in n.items():
        if isinstance(v, dict):
            out[key] = subst(v, env)
        elif isinstance(v, list):
            out[key] = [subst(x, env) if isinstance(x, dict) else x for x in v]
        else:
            out[key] = v
    return out


def objpath(n):
    """canonical access path of an object expression: it->x == (*it).x ; returns string"""
    n = ir.unwrap(n)
    if not isinstance(n, dict):
        return str(n)
    k = n.get("k")
    if k == "ref":
        return n["decl"].split(":", 1)[1]
    if k == "this":
        return "this"
    if k == "member" and not n.get("method"):
        b = n.get("base")
        bu = ir.unwrap(b)
        f = short(n["field"])
        if isinstance(bu, dict) and bu.get("k") == "this":
            return "this." + f
        bp = objpath(b)
        if n.get("arrow"):
            # p->f == (*p).f ; operator->() on an iterator returns a pointer to *it
            if isinstance(bu, dict) and bu.get("k") == "call" and (bu.get("name") or "").endswith("operator->"):
                return "(*%s).%s" % (objpath(bu.get("this")), f)
            return "(*%s).%s" % (bp, f)
        return "%s.%s" % (bp, f)
    if k == "un" and n["op"] == "*":
        return "(*%s)" % objpath(n["e"])
    if k == "call":
        nm = n.get("name") or ""
        if n.get("op") == "*" and n.get("this") is not None and not n.get("args"):
            return "(*%s)" % objpath(n["this"])
        if nm.endswith("operator->") and n.get("this") is not None:
            return "&(*%s)" % objpath(n["this"])
        if nm in ("std::move", "std::forward") and n.get("args"):
            return objpath(n["args"][0])
    if k == "cast":
        return objpath(n["e"])
    return canon(n)


# trivial accessors of the repo (`T f() const { return member_; }`, callee id -> member short name): an atom about f() is an
# atom about the member, so `given()` and `given_` are one and the same fact (filled by Logic.__init__ for the program)
ACCESSORS = {}


def register_accessors(prog):
    ACCESSORS.clear()
    for f in prog.fns.values():
        if not f.has_cfg or not f.file.startswith("/repo/") or f.kind != "method" or f.params:
            continue
        if not f.flags.get("const") or f.flags.get("virtual"):
            continue
        rets = [ir.unwrap(e["expr"].get("e")) for _, _, e in f.roots() if e["expr"].get("k") == "return" and e["expr"].get("e") is not None]
        others = [e for _, _, e in f.roots() if e["expr"].get("k") != "return"]
        if len(rets) == 1 and not others and isinstance(rets[0], dict) and rets[0].get("k") == "member" and not rets[0].get("method"):
            b = ir.unwrap(rets[0].get("base"))
            if isinstance(b, dict) and b.get("k") == "this":
                ACCESSORS[f.id] = short(rets[0]["field"])


def canon(n):
    """canonical string of an expression (atoms); uses objpath for receivers"""
    n = ir.unwrap(n)
    if not isinstance(n, dict):
        return str(n)
    k = n.get("k")
    if k == "call" and n.get("callee") in ACCESSORS and not [a for a in n.get("args", []) if not (isinstance(a, dict) and a.get("k") == "defarg")]:
        fld = ACCESSORS[n["callee"]]
        if n.get("this") is None:
            return "this." + fld
        th = ir.unwrap(n["this"])
        recv = objpath(n["this"])
        if n.get("arrow") and not (isinstance(th, dict) and th.get("k") == "this"):
            if isinstance(th, dict) and th.get("k") == "call" and (th.get("name") or "").endswith("operator->"):
                recv = "(*%s)" % objpath(th.get("this"))
            else:
                recv = "(*%s)" % recv
        return "%s.%s" % (recv, fld)
    if k in ("ref", "this"):
        return objpath(n)
    if k == "member" and not n.get("method"):
        return objpath(n)
    if k == "un" and n["op"] == "*":
        return objpath(n)
    if k == "call":
        nm = n.get("name") or "?"
        if n.get("op") == "*" and n.get("this") is not None and not n.get("args"):
            return objpath(n)
        args = ", ".join(canon(a) for a in n.get("args", []) if not (isinstance(a, dict) and a.get("k") == "defarg"))
        if n.get("this") is not None:
            th = ir.unwrap(n["this"])
            recv = objpath(n["this"])
            if n.get("arrow") and not (isinstance(th, dict) and th.get("k") == "this"):
                if isinstance(th, dict) and th.get("k") == "call" and (th.get("name") or "").endswith("operator->"):
                    recv = "(*%s)" % objpath(th.get("this"))
                else:
                    recv = "(*%s)" % recv
            bo = ir.as_binop(n)
            if bo and n.get("op") and n["op"] not in ("()", "[]"):
                return "(%s %s %s)" % (canon(bo[1]), bo[0], canon(bo[2]))
            return "%s.%s(%s)" % (recv, short(nm), args)
        bo = ir.as_binop(n)
        if bo and n.get("op"):
            return "(%s %s %s)" % (canon(bo[1]), bo[0], canon(bo[2]))
        return "%s(%s)" % (short(nm) if nm.startswith(("std::", "nitro::")) else nm, args)
    if k == "subscript":
        return "%s[%s]" % (canon(n["base"]), canon(n["idx"]))
    if k == "bin":
        return "(%s %s %s)" % (canon(n["l"]), n["op"], canon(n["r"]))
    if k == "un":
        return "(%s%s)" % (n["op"], canon(n["e"]))
    if k == "cast":
        if n.get("to") in ("bool",):
            return "bool(%s)" % canon(n["e"])
        return canon(n["e"])
    if k == "construct":
        args = [a for a in n.get("args", []) if not (isinstance(a, dict) and a.get("k") == "defarg")]
        if len(args) == 1 and (n.get("copy") or n.get("move")):
            return canon(args[0])
        return "%s{%s}" % (short(n.get("name") or n.get("type") or "?"), ", ".join(canon(a) for a in args))
    return fmt(n)


class Logic:
    """builds formulas from expressions with inlining of the repo's own pure predicates"""

    def __init__(self, prog, cg=None):
        self.prog = prog
        self.cg = cg
        self.axioms = []  # formulas valid for all states (library facts), added as atoms appear
        self._axiom_keys = set()
        self.used_axioms = []
        self._fn_memo = {}
        if not ACCESSORS or getattr(prog, "_accessors_registered", None) is not True:
            register_accessors(prog)
            prog._accessors_registered = True

    # --- atoms
    _CHAR0 = _re.compile(r"\((.+)\[0\] == '([^'\\]|\\[^x0]|\\x[0-9a-f]*[1-9a-f][0-9a-f]*)'\)")

    def atom(self, key):
        # s[0] == 'c' for a character other than NUL: the string is not empty (s[s.size()] is '\0')
        m = self._CHAR0.fullmatch(key) if isinstance(key, str) and key.endswith("')") else None
        if m and "[0]" not in m.group(1):
            self._add_axiom(Or(Not(("a", key)), Not(("a", "%s.empty()" % m.group(1)))), "s[0] == '%s' |- !s.empty()" % m.group(2))
        return ("a", key)

    def _cmp(self, op, l, r, env, depth):
        lu, ru = ir.unwrap(l), ir.unwrap(r)
        # pointer / null comparisons
        if _is_null(ru):
            f = self.nonnull(l, env, depth)
            return Not(f) if op == "==" else (f if op == "!=" else self.atom("(%s %s nullptr)" % (canon(subst(l, env)), op)))
        if _is_null(lu):
            f = self.nonnull(r, env, depth)
            return Not(f) if op == "==" else (f if op == "!=" else self.atom("(nullptr %s %s)" % (op, canon(subst(r, env)))))
        if op in ("==", "!=") and _boolish(lu) and _boolish(ru):
            # equality of two truth values is their equivalence
            A, B = self.truthy(l, env, depth), self.truthy(r, env, depth)
            iff = Or(And(A, B), And(Not(A), Not(B)))
            return iff if op == "==" else Not(iff)
        a, b = canon(subst(l, env)), canon(subst(r, env))
        if op == "==":
            if b < a and not _is_lit(ru):
                a, b = b, a
            if _is_lit(lu) and not _is_lit(ru):
                a, b = b, a
            return self.atom("(%s == %s)" % (a, b))
        if op == "!=":
            return Not(self._cmp("==", l, r, env, depth))
        if op == "<":
            return self.atom("(%s < %s)" % (a, b))
        if op == ">":
            return self.atom("(%s < %s)" % (b, a))
        if op == ">=":
            return Not(self.atom("(%s < %s)" % (a, b)))
        if op == "<=":
            return Not(self.atom("(%s < %s)" % (b, a)))
        return self.atom("(%s %s %s)" % (a, op, b))

    def nonnull(self, x, env, depth):
        """formula for 'x converts to true' where x is a pointer-like / optional-like object"""
        return self.truthy(x, env, depth) if _optional_like(ir.unwrap(x)) else self.atom("nonnull(%s)" % objpath(subst(x, env)))

    # --- expression -> formula
    def formula(self, e, env=None, depth=0):
        env = env or {}
        n = ir.unwrap(e)
        if not isinstance(n, dict):
            return self.atom(str(n))
        k = n.get("k")
        if k == "lit":
            if n["t"] == "bool":
                return ("c", bool(n["v"]))
            if n["t"] == "int":
                return ("c", n["v"] != 0)
            if n["t"] == "null":
                return F
        if k == "ref":
            d = n.get("decl", "")
            if d.startswith("local:") and d[6:] in env.get("locals", {}):
                return self.formula(env["locals"][d[6:]], dict(env, locals={}), depth)
            if d.startswith("param:") and d[6:] in env.get("params", {}):
                return self.formula(env["params"][d[6:]], {}, depth)
            t = n.get("type", "")
            if t.endswith("*") or "unique_ptr" in t or "shared_ptr" in t:
                return self.atom("nonnull(%s)" % objpath(subst(n, env)))
            return self.atom(canon(subst(n, env)))
        if k == "un" and n["op"] == "!":
            return Not(self.formula(n["e"], env, depth))
        if k == "bin":
            op = n["op"]
            if op == "&&":
                return And(self.formula(n["l"], env, depth), self.formula(n["r"], env, depth))
            if op == "||":
                return Or(self.formula(n["l"], env, depth), self.formula(n["r"], env, depth))
            if op in ("==", "!=", "<", ">", "<=", ">="):
                return self._cmp(op, n["l"], n["r"], env, depth)
        if k == "cond":
            return Ite(self.formula(n["c"], env, depth), self.formula(n["t"], env, depth), self.formula(n["f"], env, depth))
        if k == "cast" and n.get("to") == "bool":
            return self.truthy(n["e"], env, depth)
        if k == "call":
            nm = n.get("name") or ""
            op = n.get("op")
            if op == "!":
                u = ir.as_unop(n)
                return Not(self.formula(u[1], env, depth))
            if op in ("==", "!=", "<", ">", "<=", ">="):
                bo = ir.as_binop(n)
                if bo:
                    return self._cmp(op, bo[1], bo[2], env, depth)
            if n.get("conv") == "bool" or short(nm) == "operator bool":
                return self.truthy_obj(n.get("this"), n, env, depth)
            if nm == "nitro::lang::starts_with" and len(n.get("args", [])) == 2:
                key = canon(subst(n, env))
                a = self.atom(key)
                lit = ir.unwrap(n["args"][1])
                if isinstance(lit, dict) and lit.get("k") == "construct" and lit.get("args"):
                    lit = ir.unwrap(lit["args"][0])
                if isinstance(lit, dict) and lit.get("k") == "lit" and lit["t"] == "str" and lit["v"]:
                    s = canon(subst(n["args"][0], env))
                    c0 = lit["v"][0]
                    ax = Or(Not(a), self.atom("(%s[0] == '%s')" % (s, c0)))
                    self._add_axiom(ax, "starts_with(s, \"%s\") |- s[0] == '%s'" % (lit["v"], c0))
                    for i, ch in enumerate(lit["v"][1:3], 1):
                        self._add_axiom(Or(Not(a), self.atom("(%s[%d] == '%s')" % (s, i, ch))),
                                        "starts_with(s, \"%s\") |- s[%d] == '%s'" % (lit["v"], i, ch))
                return a
            # the repo's own pure predicates: inline
            f = self._inline_call(n, env, depth)
            if f is not None:
                return f
            rt = n.get("type", "")
            if _impure_call(n):
                # the value returned by *that evaluation* of a state-changing call: not a predicate of the state
                key = "ret:" + canon(subst(n, env))
                return self.atom(key if rt in ("bool", "_Bool") else "(%s != 0)" % key)
            if rt not in ("bool", "_Bool"):
                # integral result used as a condition: the same fact as `!(result == 0)`
                return Not(self.atom("(%s == 0)" % canon(subst(n, env))))
        if k == "member" and not n.get("method"):
            t = n.get("type", "")
            if t.endswith("*") or "unique_ptr" in t or "shared_ptr" in t or "std::function" in t:
                return self.atom("nonnull(%s)" % objpath(subst(n, env)))
            if _INTLIKE.fullmatch(t.replace("const ", "").strip()):
                # an integral member used as a condition: the same fact as `member != 0` (what an accessor call yields)
                return Not(self.atom("(%s == 0)" % canon(subst(n, env))))
        return self.atom(canon(subst(n, env)))

    def truthy(self, x, env, depth):
        """contextual conversion of x to bool"""
        xu = ir.unwrap(x)
        if isinstance(xu, dict) and xu.get("k") in ("member", "ref"):
            t = xu.get("type", "")
            if "lang::optional" in t or t.startswith("optional<"):
                return self.truthy_obj(xu, None, env, depth)
            if t.endswith("*") or "unique_ptr" in t or "shared_ptr" in t or "std::function" in t:
                return self.atom("nonnull(%s)" % objpath(subst(xu, env)))
        return self.formula(x, env, depth)

    def truthy_obj(self, obj, call, env, depth):
        """obj.operator bool()"""
        if call is not None and call.get("callee"):
            callee = self.prog.fn(call["callee"])
            if callee is not None and callee.has_cfg and depth < MAX_INLINE and (callee.file or "").startswith("/repo/"):
                f = self.fn_formula(callee, {"this": subst(obj, env), "params": {}}, depth + 1)
                if f is not None:
                    return f
        return self.atom("nonnull(%s)" % objpath(subst(obj, env)))

    def _add_axiom(self, ax, doc):
        if ax not in self._axiom_keys:
            self._axiom_keys.add(ax)
            self.axioms.append(ax)
            self.used_axioms.append(doc)

    def _inline_call(self, n, env, depth):
        cid = n.get("callee")
        if not cid or depth >= MAX_INLINE:
            return None
        callee = self.prog.fn(cid)
        if n.get("virtual"):
            return None
        if callee is None or not callee.has_cfg or not callee.file.startswith("/repo/"):
            return None
        if callee.ret not in ("bool", "_Bool"):
            return None
        if callee.kind not in ("method", "function", "conversion"):
            return None
        if callee.kind == "method" and not callee.flags.get("const") and not callee.flags.get("static"):
            return None
        params = {}
        args = n.get("args", [])
        for p, a in zip(callee.params, args):
            params[p["name"]] = subst(a, env)
        this = subst(n["this"], env) if n.get("this") is not None else None
        orig_this = ir.unwrap(n.get("this")) if n.get("this") is not None else None
        if this is not None and n.get("arrow") and not (isinstance(orig_this, dict) and orig_this.get("k") == "this"):
            thu = ir.unwrap(this)
            if isinstance(thu, dict) and thu.get("k") == "call" and (thu.get("name") or "").endswith("operator->"):
                this = {"k": "un", "op": "*", "e": thu.get("this")}
            else:
                this = {"k": "un", "op": "*", "e": this}
        return self.fn_formula(callee, {"this": this, "params": params}, depth + 1)

    def fn_formula(self, fn, env, depth=0, noreturn_false=False):
        """boolean skeleton of a loop-free bool function: formula of its return value (None if not expressible).
        noreturn_false: a path that ends in a raise counts as "does not return true" (for `true only under ...` questions)"""
        from . import cfg as _cfg
        if _cfg.loop_blocks(fn):
            return None
        for b in fn.reachable_blocks():
            if fn.is_noreturn(b) and not noreturn_false:
                return None
        locals_ = {}
        # single-assignment locals: copy propagation
        assigned = {}
        for bid, i, e in fn.roots():
            x = e["expr"]
            if x.get("k") == "decl":
                for v in x.get("vars", []):
                    assigned[v["name"]] = assigned.get(v["name"], 0) + 1
                    if v.get("init") is not None:
                        locals_[v["name"]] = v["init"]
        from .callgraph import tree_effects, lvalue_root
        for bid, i, e in fn.roots():
            for eff, lv, n in tree_effects(e["expr"], into_sc=True):
                if eff in ("write", "maybe_write") and lv is not None:
                    kind, key, _ = lvalue_root(lv)
                    if kind == "local":
                        locals_.pop(key, None)
        env2 = {"this": env.get("this"), "params": env.get("params", {}),
                "locals": {k: subst(v, {"this": env.get("this"), "params": env.get("params", {})}) for k, v in locals_.items()}}
        memo = {}

        def blockf(b, guard=0):
            if b in memo:
                return memo[b]
            if guard > 200:
                return None
            if noreturn_false and fn.is_noreturn(b):
                memo[b] = F
                return F
            for e in fn.elems(b):
                x = e.get("expr")
                if isinstance(x, dict) and x.get("k") == "return":
                    if x.get("e") is None:
                        return None
                    f = self.truthy(x["e"], env2, depth) if fn.ret in ("bool", "_Bool") else None
                    if f is None:
                        f = self.formula(x["e"], env2, depth)
                    memo[b] = f
                    return f
            t = fn.term(b)
            ss = fn.succs(b)
            if len(ss) == 2 and t.get("cond") is not None:
                c = self.truthy(t["cond"], env2, depth)
                tt = blockf(dict((l, to) for to, l in ss)["true"], guard + 1)
                ff = blockf(dict((l, to) for to, l in ss)["false"], guard + 1)
                if tt is None or ff is None:
                    return None
                f = Ite(c, tt, ff)
            elif len(ss) == 1:
                f = blockf(ss[0][0], guard + 1)
            else:
                return None
            memo[b] = f
            return f

        return blockf(fn.entry)


def _impure_call(n):
    """a call that may change state: non-const member function, or an argument taken by non-const reference"""
    from .callgraph import is_const_method_id, split_params, nonconst_ref_param
    cid = n.get("callee")
    if not cid:
        return False
    if n.get("this") is not None and not n.get("op") and not is_const_method_id(cid):
        if not cid.startswith("std::"):
            return True
    for p in split_params(cid):
        if nonconst_ref_param(p) and not cid.startswith("std::"):
            return True
    return False


def _optional_like(n):
    return isinstance(n, dict) and "lang::optional" in (n.get("type") or "")


def _boolish(n):
    while isinstance(n, dict) and n.get("k") in ("cast", "paren") and n.get("e") is not None:
        n = ir.unwrap(n["e"])
    if not isinstance(n, dict):
        return False
    if n.get("k") == "lit":
        return n.get("t") == "bool"
    if n.get("k") == "bin" and n.get("op") in ("==", "!=", "<", ">", "<=", ">=", "&&", "||"):
        return True
    if n.get("k") == "un" and n.get("op") == "!":
        return True
    return (n.get("type") or "").replace("const ", "").strip() in ("bool", "_Bool")


def _is_null(n):
    return isinstance(n, dict) and n.get("k") == "lit" and n.get("t") == "null"


def _is_lit(n):
    return isinstance(n, dict) and n.get("k") == "lit"
