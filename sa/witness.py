"""A7: type-level witnesses. A witness unit is a .cpp under /verif/witness made of tagged static_asserts
(`static_assert(cond, "[C18 w3] text")`) and tagged must-compile uses (`// [C07 m2] text` on the line of the use).
It is only *type checked* (-fsyntax-only); the compiler's type checker is the decision procedure.

Result per tag: ok / violated (the tagged assert failed, or a must-compile use failed inside a /repo header)
Anything else the compiler says (renamed API, missing header, syntax error in the witness) = analysis broken.
"""
import os
import re
import subprocess

from .extract import VERIF, REPO

TAG_RE = re.compile(r"\[(C\d+) ([a-z]\d+[a-z]?)\]([^\"\n]*)")
DIAG_RE = re.compile(r"^(?P<file>[^:\s][^:]*):(?P<line>\d+):(?P<col>\d+): (?P<kind>error|fatal error|note|warning): (?P<msg>.*)$")


def tags_in(path):
    """ordered {tag: (line, text, kind)} found in the witness source"""
    out = {}
    with open(path, encoding="utf-8") as fh:
        for ln, line in enumerate(fh, 1):
            for m in TAG_RE.finditer(line):
                tag = m.group(2)
                out[tag] = (ln, m.group(3).strip().rstrip('");').strip(), "must_compile" if tag.startswith("m") else "assert")
    return out


CONFIG_DEFINES = []
CONFIG_STD = []  # language standard of the configuration under analysis (overrides the witness' default)


def run_witness(path, defines=(), compiler="clang++", std="gnu++17", extra=()):
    """returns dict(tags=..., failed={tag: message}, broken=[messages], cmd=...)"""
    tags = tags_in(path)
    if CONFIG_STD:
        std = CONFIG_STD[0]
    cmd = [compiler, "-std=" + std, "-fsyntax-only", "-I" + os.path.join(REPO, "include"), "-I" + os.path.join(VERIF, "witness")]
    if "clang" in compiler:
        cmd += ["-ferror-limit=0", "-Wno-everything", "-fno-caret-diagnostics", "-fno-color-diagnostics"]
    else:
        cmd += ["-fmax-errors=0", "-w", "-fno-diagnostics-show-caret", "-fdiagnostics-color=never"]
    for d in defines:
        cmd.append("-D" + d)
    for d in CONFIG_DEFINES:  # the configuration under analysis (set by the check driver for a switch sweep); "!X" undefines X
        cmd.append(("-U" + d[1:]) if d.startswith("!") else ("-D" + d))
    cmd += list(extra)
    cmd.append(path)
    r = subprocess.run(cmd, stdout=subprocess.PIPE, stderr=subprocess.STDOUT, text=True, errors="replace")
    failed = {}
    broken = []
    lines = r.stdout.splitlines()
    by_line = {v[0]: t for t, v in tags.items()}
    i = 0
    wpath = os.path.abspath(path)
    # group diagnostics: an error plus its following notes
    groups = []
    cur = None
    for l in lines:
        m = DIAG_RE.match(l)
        if not m:
            if cur is not None:
                cur["extra"].append(l)
            continue
        if m.group("kind") in ("error", "fatal error"):
            cur = {"file": os.path.abspath(m.group("file")), "line": int(m.group("line")), "msg": m.group("msg"), "notes": [], "extra": [],
                   "pre": []}
            groups.append(cur)
        elif m.group("kind") == "note" and cur is not None:
            cur["notes"].append((os.path.abspath(m.group("file")), int(m.group("line")), m.group("msg")))
    # g++ prints "In instantiation of"/"required from here" *before* the error; collect those too
    pending = []
    gi = 0
    for l in lines:
        m = re.match(r"^([^:\s][^:]*):(\d+):(\d+):\s+required from", l)
        if m:
            pending.append((os.path.abspath(m.group(1)), int(m.group(2)), "required from here"))
            continue
        m2 = DIAG_RE.match(l)
        if m2 and m2.group("kind") in ("error", "fatal error"):
            if gi < len(groups):
                groups[gi]["notes"] = pending + groups[gi]["notes"]
                gi += 1
            pending = []
    for g in groups:
        tm = TAG_RE.search(g["msg"])
        if tm and "static" in g["msg"].lower():
            failed[tm.group(2)] = g["msg"]
            continue
        # an error located on a tagged line of the witness itself
        if g["file"] == wpath and g["line"] in by_line:
            failed[by_line[g["line"]]] = g["msg"]
            continue
        # error inside a /repo header during an instantiation requested from a tagged witness line
        hit = None
        for (nf, nl, nm) in g["notes"]:
            if nf == wpath and nl in by_line:
                hit = by_line[nl]
        if hit and g["file"].startswith(REPO + os.sep):
            failed.setdefault(hit, "%s:%d: %s" % (g["file"], g["line"], g["msg"]))
            continue
        if hit:
            failed.setdefault(hit, "%s:%d: %s" % (g["file"], g["line"], g["msg"]))
            continue
        broken.append("%s:%d: %s" % (g["file"], g["line"], g["msg"]))
    if r.returncode != 0 and not failed and not broken:
        broken.append("compiler failed without a recognisable diagnostic:\n" + r.stdout[-1500:])
    return {"tags": tags, "failed": failed, "broken": broken, "cmd": " ".join(cmd), "rc": r.returncode}


def apply(ctx, rule_of, path, defines=(), compiler="clang++", std="gnu++17", label="", broken_tags=()):
    """run one witness unit and record one obligation per tag. rule_of(tag) -> rule id.
    broken_tags: tags whose failure means 'idiom not recognised' (analysis broken) rather than violation."""
    res = run_witness(path, defines, compiler, std)
    rel = os.path.relpath(path, VERIF)
    cfgname = (label or ("%s %s %s" % (compiler, std, " ".join(defines)))).strip()
    if res["broken"]:
        for b in res["broken"][:5]:
            ctx.broken(rule_of(None), rel, "witness-compiles[%s]" % cfgname, "witness unit does not type-check for a reason other than a tagged assertion: " + b, rel)
        return res
    for tag, (ln, text, kind) in res["tags"].items():
        site = "%s:%d" % (path, ln)
        construct = "%s%s" % (tag, ("[" + cfgname + "]") if label else "")
        if tag in res["failed"]:
            if tag in broken_tags:
                ctx.broken(rule_of(tag), rel, construct, "recogniser witness failed (%s): %s" % (text, res["failed"][tag]), site)
            else:
                ctx.bad(rule_of(tag), rel, construct, "%s -- %s" % (text, res["failed"][tag]), site)
        else:
            ctx.ok(rule_of(tag), rel, construct, text, site)
    return res
