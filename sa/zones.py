"""A4: zones (difference-bound matrices). Abstract interpretation over integer variables with constraints x - y <= c
(the variable "0" is the constant zero, so x <= c and x >= c are expressible); assignment of linear expressions,
++/--, comparisons on both branch edges (including == and the != tightening), join = pointwise max, loops by Kleene
iteration with widening (unstable bounds dropped). Arithmetic is modelled in Z; an index must be *proved* non-negative
(so `size_ - 1` needs size_ >= 1, which is exactly what unsigned wrap-around requires).
"""
from . import ir, cfg
from .ir import fmt, walk, short

INF = float("inf")
Z = "0"


class Zone:
    __slots__ = ("d", "bottom")

    def __init__(self, d=None, bottom=False):
        self.d = dict(d) if d else {}
        self.bottom = bottom

    def copy(self):
        return Zone(self.d, self.bottom)

    def vars(self):
        vs = {Z}
        for (x, y) in self.d:
            vs.add(x)
            vs.add(y)
        return vs

    def add(self, x, y, c):
        """x - y <= c"""
        if x == y:
            if c < 0:
                self.bottom = True
            return self
        k = (x, y)
        if c < self.d.get(k, INF):
            self.d[k] = c
        return self

    def close(self):
        if self.bottom:
            return self
        vs = sorted(self.vars())
        d = self.d
        for k in vs:
            for i in vs:
                ik = d.get((i, k), INF) if i != k else 0
                if ik == INF:
                    continue
                for j in vs:
                    if i == j:
                        continue
                    kj = d.get((k, j), INF) if k != j else 0
                    if kj == INF:
                        continue
                    if ik + kj < d.get((i, j), INF):
                        d[(i, j)] = ik + kj
        for i in vs:
            for j in vs:
                if i < j and d.get((i, j), INF) + d.get((j, i), INF) < 0:
                    self.bottom = True
        return self

    def bound(self, x, y):
        """least c with x - y <= c known (INF if none); call on a closed zone"""
        if x == y:
            return 0
        return self.d.get((x, y), INF)

    def entails(self, x, y, c):
        if self.bottom:
            return True
        return self.bound(x, y) <= c

    def forget(self, x):
        self.close()
        self.d = {k: v for k, v in self.d.items() if x not in k}
        return self

    def assign(self, x, term):
        """x := v + c  (term = (v, c)) or unknown (term None)"""
        if term is None:
            return self.forget(x)
        v, c = term
        if v == x:
            return self.shift(x, c)
        self.forget(x)
        self.add(x, v, c)
        self.add(v, x, -c)
        return self.close()

    def shift(self, x, k):
        """x := x + k"""
        nd = {}
        for (a, b), c in self.d.items():
            if a == x and b != x:
                nd[(a, b)] = c + k
            elif b == x and a != x:
                nd[(a, b)] = c - k
            else:
                nd[(a, b)] = c
        self.d = nd
        return self

    def join(self, other):
        if self.bottom:
            return other.copy()
        if other.bottom:
            return self.copy()
        a, b = self.copy().close(), other.copy().close()
        out = {}
        for k, v in a.d.items():
            w = b.d.get(k)
            if w is not None:
                out[k] = max(v, w)
        return Zone(out)

    def widen(self, newer):
        """keep only the constraints of self that newer does not weaken"""
        if self.bottom:
            return newer.copy()
        if newer.bottom:
            return self.copy()
        n = newer.copy().close()
        out = {}
        for k, v in self.d.items():
            w = n.d.get(k)
            if w is not None and w <= v:
                out[k] = v
        return Zone(out)

    def same(self, other):
        if self.bottom != other.bottom:
            return False
        return self.d == other.d

    def show(self):
        if self.bottom:
            return "BOTTOM"
        out = []
        for (x, y), c in sorted(self.d.items()):
            if y == Z:
                out.append("%s <= %d" % (x, c))
            elif x == Z:
                out.append("%s >= %d" % (y, -c))
            else:
                out.append("%s - %s <= %d" % (x, y, c))
        return ", ".join(out)


class ZoneAnalysis:
    """runs the domain over one function. `varname(expr)` maps lvalue expressions to variable names (or None)."""

    def __init__(self, fn, varname, getters=None, unsigned=None, on_call=None, on_store=None):
        self.fn = fn
        self.varname = varname
        self.getters = getters or {}
        self.unsigned = unsigned or (lambda v: False)
        self.on_call = on_call
        self.on_store = on_store  # on_store(analysis, zone, subscript node): a store through a subscript

    # ---- linear terms
    def lin(self, e):
        """(var, const) for var + const / const; None if not linear in one variable"""
        n = ir.unwrap(e)
        if not isinstance(n, dict):
            return None
        k = n.get("k")
        if k == "lit" and n.get("t") in ("int", "char"):
            return (Z, int(n["v"]))
        if k == "lit" and n.get("t") == "bool":
            return (Z, 1 if n["v"] else 0)
        if k == "cast":
            return self.lin(n["e"])
        if k == "un" and n["op"] == "-":
            t = self.lin(n["e"])
            if t and t[0] == Z:
                return (Z, -t[1])
            return None
        if k == "un" and n["op"] == "+":
            return self.lin(n["e"])
        if k == "bin" and n["op"] in ("+", "-"):
            a, b = self.lin(n["l"]), self.lin(n["r"])
            if a is None or b is None:
                return None
            if n["op"] == "+":
                if b[0] == Z:
                    return (a[0], a[1] + b[1])
                if a[0] == Z:
                    return (b[0], a[1] + b[1])
                return None
            if b[0] == Z:
                # unsigned `x - k`: the difference only when x >= k is known in the current zone - otherwise it wraps around to a huge
                # value and says nothing about x (recorded in self.wraps: a bound computed this way bounds nothing)
                cz = getattr(self, "cur_zone", None)
                if n.get("u") and a[0] != Z and b[1] > 0 and cz is not None and self.unsigned(a[0]):
                    cz.close()
                    if not cz.bottom and not cz.entails(Z, a[0], a[1] - b[1]):
                        if not hasattr(self, "wraps"):
                            self.wraps = []
                        if all(w is not n for w in self.wraps):
                            self.wraps.append(n)
                        return None
                return (a[0], a[1] - b[1])
            if a[0] == b[0]:
                return (Z, a[1] - b[1])
            return None
        if k == "call" and id(n) in getattr(self, "_xchg", {}):
            return (self._xchg[id(n)], 0)  # std::exchange(x, v): the value x had before (see transfer)
        if k == "call":
            g = self.getters.get(short(n.get("name") or ""))
            if g is not None and not [a for a in n.get("args", []) if not (isinstance(a, dict) and a.get("k") == "defarg")]:
                recv = n.get("this")
                v = g(recv)
                if v:
                    return (v, 0)
            return None
        v = self.varname(n)
        if v:
            return (v, 0)
        return None

    # ---- conditions
    def lin_at(self, z, e):
        """lin(e) read in zone z (unsigned differences are only differences where the zone excludes the wrap-around)"""
        self.cur_zone = z.copy() if z is not None else None
        return self.lin(e)

    def assume(self, z, cond, truth):
        """refine zone z with cond == truth; returns zone (may be bottom)"""
        self.cur_zone = z
        n = ir.unwrap(cond)
        if not isinstance(n, dict):
            return z
        if n.get("k") == "un" and n["op"] == "!":
            return self.assume(z, n["e"], not truth)
        if n.get("k") == "lit" and n.get("t") == "bool":
            if bool(n["v"]) != truth:
                z.bottom = True
            return z
        bo = ir.as_binop(n)
        if not bo:
            # x.empty()  <=>  x.size() == 0 (the container's own empty(), or empty() of an object whose size() is tracked)
            if n.get("k") == "call" and short(n.get("name") or "") == "empty" and not [a for a in n.get("args", []) if a.get("k") != "defarg"]:
                sz = dict(n)
                sz["name"] = (n.get("name") or "empty")[:-5] + "size"
                sz["callee"] = None
                a = self.lin(sz)
                if a is not None:
                    x, cx = a
                    if truth:
                        z.add(x, Z, -cx)
                        z.add(Z, x, cx)
                    else:
                        z.add(Z, x, cx - 1)  # size >= 1
                    return z.close()
            return z
        op, l, r = bo
        if op == "&&":
            if truth:
                return self.assume(self.assume(z, l, True), r, True)
            return z
        if op == "||":
            if not truth:
                return self.assume(self.assume(z, l, False), r, False)
            return z
        if op not in ("<", "<=", ">", ">=", "==", "!="):
            return z
        a, b = self.lin(l), self.lin(r)
        if a is None or b is None:
            return z
        if not truth:
            op = {"<": ">=", "<=": ">", ">": "<=", ">=": "<", "==": "!=", "!=": "=="}[op]
        (x, cx), (y, cy) = a, b
        # x + cx  op  y + cy   <=>   x - y  op  cy - cx
        k = cy - cx
        if op == "<":
            z.add(x, y, k - 1)
        elif op == "<=":
            z.add(x, y, k)
        elif op == ">":
            z.add(y, x, -k - 1)
        elif op == ">=":
            z.add(y, x, -k)
        elif op == "==":
            z.add(x, y, k)
            z.add(y, x, -k)
        elif op == "!=":
            z.close()
            # tighten: x - y <= k known and != k  =>  x - y <= k-1 ; similarly on the other side
            if not z.bottom:
                if z.bound(x, y) == k:
                    z.add(x, y, k - 1)
                if z.bound(y, x) == -k:
                    z.add(y, x, -k - 1)
        return z.close()

    # ---- statements
    def transfer(self, z, e, record=None):
        """effect of one CFG element on zone z (mutates and returns). record(kind, node, zone_before) is called for
        every interesting node *before* its effect (subscripts, writes, ++/--)."""
        if z.bottom:
            return z
        self.cur_zone = z
        # std::exchange(x, v) yields the old x and stores v: the old value is kept under a temporary name, then x := v
        if isinstance(e.get("expr"), dict):
            for y in walk(e["expr"], into_sc=False):
                if y.get("k") == "call" and (y.get("name") or "") == "std::exchange" and len(y.get("args", [])) == 2:
                    xv = self.varname(ir.unwrap(y["args"][0]))
                    if xv:
                        if not hasattr(self, "_xchg"):
                            self._xchg = {}
                        tmp = "$old:%s@%s" % (xv, y.get("ln"))
                        self._xchg[id(y)] = tmp
                        z.assign(tmp, (xv, 0))
                        z.assign(xv, self.lin(y["args"][1]))
                        if self.unsigned(xv):
                            z.add(Z, xv, 0)
                        z.close()
        if e["kind"] == "init":
            v = self.varname({"k": "member", "field": e.get("field"), "base": {"k": "this"}}) if e.get("field") else None
            if record:
                self._visit(z, e.get("expr"), record)
            if v:
                z.assign(v, self.lin(e.get("expr")))
                if self.unsigned(v):
                    z.add(Z, v, 0)
            return z
        x = e.get("expr")
        if x is None:
            return z
        self._exec(z, x, record)
        return z

    def _visit(self, z, n, record):
        for y in walk(n, into_sc=False):
            if y.get("k") == "subscript":
                record("subscript", y, z)

    def _exec(self, z, n, record):
        """evaluate expression tree n in evaluation order (children first), applying side effects"""
        n0 = n
        n = n if isinstance(n, dict) else None
        if n is None:
            return
        k = n.get("k")
        if k == "decl":
            for v in n.get("vars", []):
                if v.get("init") is not None:
                    self._exec(z, v["init"], record)
                name = v["name"]
                t = self.lin(v["init"]) if v.get("init") is not None else None
                z.assign(name, t)
                if v.get("u"):
                    z.add(Z, name, 0)
                    z.close()
            return
        if k == "return":
            if n.get("e") is not None:
                self._exec(z, n["e"], record)
            return
        if n.get("sc"):
            return  # operands evaluated in other blocks
        # address-of: mark subscripts directly under & (no value use)
        if k == "un" and n["op"] == "&":
            inner = ir.unwrap(n["e"])
            if isinstance(inner, dict) and inner.get("k") == "subscript":
                self._exec(z, inner.get("base"), record)
                self._exec(z, inner.get("idx"), record)
                if record:
                    record("subscript_addr", inner, z)
                return
        # assignments and ++/--
        if k == "bin" and n["op"] in ("=", "+=", "-="):
            self._exec(z, n["r"], record)
            tgt = ir.unwrap(n["l"])
            if isinstance(tgt, dict) and tgt.get("k") == "subscript":
                self._exec(z, tgt.get("base"), record)
                self._exec(z, tgt.get("idx"), record)
                if self.on_store:
                    self.on_store(self, z, tgt)
                if record:
                    record("subscript_write", tgt, z)
                return
            v = self.varname(tgt)
            if record:
                record("assign", n, z)
            if v:
                if n["op"] == "=":
                    z.assign(v, self.lin(n["r"]))
                else:
                    t = self.lin(n["r"])
                    if t and t[0] == Z:
                        z.shift(v, t[1] if n["op"] == "+=" else -t[1])
                    else:
                        z.forget(v)
                if self.unsigned(v):
                    z.add(Z, v, 0)
                    z.close()
            else:
                self._exec(z, n["l"], record)
            return
        if k == "un" and n["op"] in ("++pre", "++post", "--pre", "--post"):
            v = self.varname(ir.unwrap(n["e"]))
            if record:
                record("incdec", n, z)
            if v:
                z.shift(v, 1 if n["op"].startswith("++") else -1)
            return
        # generic: children first
        for ch in ir.children(n, into_sc=False):
            self._exec(z, ch, record)
        if k == "subscript":
            if record:
                record("subscript", n, z)
        elif k == "call":
            if record:
                record("call", n, z)
            if self.on_call:
                self.on_call(self, z, n)

    # ---- fixpoint
    def run(self, init, record=None, widen_after=3, max_iter=400):
        fn = self.fn
        IN = {fn.entry: init.copy()}
        counts = {}
        work = [fn.entry]
        it = 0
        heads = {h for h, _ in cfg.loop_blocks(fn)}
        while work:
            it += 1
            if it > max_iter:
                raise RuntimeError("zone analysis did not converge in %s" % fn.id)
            b = work.pop(0)
            z = IN[b].copy()
            for e in fn.elems(b):
                self.transfer(z, e, None)
            if fn.is_noreturn(b):
                continue
            for to, lab in fn.succs(b):
                z2 = z.copy()
                if lab in ("true", "false"):
                    c = fn.term(b).get("cond")
                    if c is not None:
                        z2 = self.assume(z2, c, lab == "true")
                z2.close()
                if z2.bottom:
                    continue
                if to not in IN:
                    IN[to] = z2
                    work.append(to)
                else:
                    old = IN[to]
                    j = old.join(z2)
                    if to in heads:
                        counts[to] = counts.get(to, 0) + 1
                        if counts[to] > widen_after:
                            j = old.copy().close().widen(j)
                    j.close()
                    if not j.same(old.copy().close()):
                        IN[to] = j
                        if to not in work:
                            work.append(to)
        # replay with recording
        self.replaying = False
        if record:
            self.replaying = True
            for b, z0 in IN.items():
                z = z0.copy()
                z.close()
                for e in fn.elems(b):
                    self.transfer(z, e, lambda kind, node, zz, e=e, b=b: record(kind, node, zz, b, e))
                # terminator condition sub-expressions contain subscripts as well? they are elements already
        self.replaying = False
        self.IN = IN
        return IN
