"""A1: CFG path rules - dominators, must-pass-through, must-happen-on-all-normal-exits, path enumeration."""
from collections import defaultdict

EXIT = "EXIT"


def dominators(fn):
    blocks = fn.reachable_blocks()
    preds = fn.preds()
    dom = {b: set(blocks) for b in blocks}
    dom[fn.entry] = {fn.entry}
    changed = True
    order = sorted(blocks, reverse=True)
    while changed:
        changed = False
        for b in order:
            if b == fn.entry:
                continue
            ps = [p for p, _ in preds.get(b, []) if p in blocks and not fn.is_noreturn(p)]
            if not ps:
                new = {b}
            else:
                new = set.intersection(*[dom[p] for p in ps]) | {b}
            if new != dom[b]:
                dom[b] = new
                changed = True
    return dom


def pos_dominates(fn, dom, a, b):
    """position a=(bid,idx) dominates position b"""
    if a[0] == b[0]:
        return a[1] <= b[1]
    return a[0] in dom.get(b[0], ())


def find_elems(fn, pred):
    """positions (bid, idx, elem) whose root element satisfies pred(elem)"""
    out = []
    for bid in fn.reachable_blocks():
        for i, e in enumerate(fn.elems(bid)):
            if pred(e):
                out.append((bid, i, e))
    return out


def reaches_without(fn, src, is_dst, barrier, edge_ok=None):
    """Is there a CFG path starting *after* position src=(bid, idx) (idx=-1: from block start) that reaches an
    element with is_dst(elem) (or the normal exit if is_dst == EXIT) without passing an element with barrier(elem)?
    Returns a witness path (list of block ids) or None. noreturn blocks end a path.
    edge_ok(bid, to, label): optional edge filter (pruned infeasible edges)."""
    start_bid, start_idx = src
    seen = set()
    st = [(start_bid, start_idx + 1, (start_bid,))]
    while st:
        bid, idx, path = st.pop()
        elems = fn.elems(bid)
        blocked = False
        for i in range(idx, len(elems)):
            e = elems[i]
            if is_dst != EXIT and is_dst(e):
                return list(path)
            if barrier(e):
                blocked = True
                break
        if blocked:
            continue
        if fn.is_noreturn(bid):
            continue
        if bid == fn.exit:
            if is_dst == EXIT:
                return list(path)
            continue
        for to, lab in fn.succs(bid):
            if edge_ok and not edge_ok(bid, to, lab):
                continue
            if to in seen:
                continue
            seen.add(to)
            st.append((to, 0, path + (to,)))
    return None


def must_happen_before_exit(fn, pred, edge_ok=None):
    """every normal path entry->exit passes an element satisfying pred. Returns (True, None) or (False, path)"""
    p = reaches_without(fn, (fn.entry, -1), EXIT, pred, edge_ok)
    return (p is None, p)


def must_precede(fn, pred_first, pred_then, edge_ok=None):
    """every path from entry to any element satisfying pred_then passes pred_first before. (True,None)/(False,path)"""
    p = reaches_without(fn, (fn.entry, -1), pred_then, pred_first, edge_ok)
    return (p is None, p)


def loop_blocks(fn):
    """back edges (src -> head) by dominance; returns list of (head, set(body blocks))"""
    dom = dominators(fn)
    loops = []
    for b in fn.reachable_blocks():
        for to, _ in fn.succs(b):
            if to in dom.get(b, ()):
                # natural loop of back edge b -> to
                body = {to, b}
                st = [b]
                preds = fn.preds()
                while st:
                    x = st.pop()
                    if x == to:
                        continue
                    for p, _ in preds.get(x, []):
                        if p not in body:
                            body.add(p)
                            st.append(p)
                loops.append((to, body))
    # merge loops with same head
    merged = {}
    for h, body in loops:
        merged.setdefault(h, set()).update(body)
    return sorted(merged.items())


def acyclic_paths(fn, src_bid, dst_bid, limit=4000, within=None):
    """all acyclic block paths src->dst (lists of (bid,label-taken-to-next)); limited"""
    out = []
    st = [(src_bid, ((src_bid, None),), {src_bid})]
    while st:
        b, path, seen = st.pop()
        if b == dst_bid and len(path) > 1:
            out.append(list(path))
            if len(out) > limit:
                raise RuntimeError("too many paths")
            continue
        if fn.is_noreturn(b):
            continue
        for to, lab in fn.succs(b):
            if within is not None and to not in within and to != dst_bid:
                continue
            if to in seen and to != dst_bid:
                continue
            st.append((to, path[:-1] + ((b, lab), (to, None)), seen | {to}))
    return out


def forward(fn, init, transfer_elem, transfer_edge, join, bottom=None, edge_ok=None, max_iter=10000):
    """generic forward dataflow. States at block entry. transfer_elem(state, bid, idx, elem) -> state;
    transfer_edge(state, bid, to, label) -> state or None (infeasible). join(a, b) -> state.
    Returns (in_states: bid->state, elem_states: (bid,idx)->state before the element)."""
    IN = {fn.entry: init}
    work = [fn.entry]
    it = 0
    while work:
        it += 1
        if it > max_iter:
            raise RuntimeError("dataflow did not converge in %s" % fn.id)
        b = work.pop()
        s = IN[b]
        for i, e in enumerate(fn.elems(b)):
            s = transfer_elem(s, b, i, e)
        if fn.is_noreturn(b):
            continue
        for to, lab in fn.succs(b):
            if edge_ok and not edge_ok(b, to, lab):
                continue
            s2 = transfer_edge(s, b, to, lab)
            if s2 is None:
                continue
            if to not in IN:
                IN[to] = s2
                work.append(to)
            else:
                j = join(IN[to], s2)
                if j != IN[to]:
                    IN[to] = j
                    work.append(to)
    before = {}
    for b, s in IN.items():
        for i, e in enumerate(fn.elems(b)):
            before[(b, i)] = s
            s = transfer_elem(s, b, i, e)
        before[(b, len(fn.elems(b)))] = s
    return IN, before


def strip_not(c):
    """(condition without leading negations, True if an odd number of `!` was removed)"""
    from . import ir
    flipped = False
    while True:
        u = ir.as_unop(ir.unwrap(c))
        if u and u[0] == "!":
            c = u[1]
            flipped = not flipped
            continue
        return c, flipped


def reachable_without_edge(fn, src, dst, goal):
    """is `goal` reachable from the entry when the edge src->dst is removed?"""
    seen = set()
    st = [fn.entry]
    while st:
        b = st.pop()
        if b in seen:
            continue
        seen.add(b)
        if b == goal:
            return True
        if fn.is_noreturn(b):
            continue
        for to, _ in fn.succs(b):
            if b == src and to == dst:
                continue
            st.append(to)
    return False


def dominated_by_edge(fn, bid, cond_pred, label="true"):
    """block bid is reachable only through the edge on which a branch condition P with cond_pred(P) has the truth value
    `label` (`if (!P)` counts with the labels exchanged; exact edge dominance: bid is unreachable once that edge is
    removed): returns the list of such branch blocks"""
    dom = dominators(fn)
    out = []
    for d in dom.get(bid, ()):
        t = fn.term(d)
        c = t.get("cond")
        if c is None:
            continue
        want = label
        if not cond_pred(c):
            c2, flipped = strip_not(c)
            if not flipped or not cond_pred(c2):
                continue
            want = "false" if label == "true" else "true"
        succ = dict((lab, to) for to, lab in fn.succs(d))
        tgt = succ.get(want)
        if tgt is None:
            continue
        other = succ.get("false" if want == "true" else "true")
        if tgt != other and not reachable_without_edge(fn, d, tgt, bid):
            out.append(d)
    return out


def contradictory_block(fn, bid):
    """block bid can only be reached under a side-effect-free condition AND under its negation (e.g. the `else` of `if (A || B)`
    followed by `if (... && B)`): it is dead code. Purely syntactic and conservative - the condition text must coincide and nothing
    it reads may be written in between is NOT checked beyond "no assignment / increment / non-const-looking call in the text"."""
    from .ir import fmt
    from . import ir
    dom = dominators(fn)
    seen = {}
    for d in dom.get(bid, ()):
        if d == bid:
            continue
        c = fn.term(d).get("cond")
        if c is None:
            continue
        c2, flipped = strip_not(c)
        t = fmt(ir.unwrap(c2))
        if any(tok in t for tok in ("++", "--", " = ", "+=", "-=", "push_back", "emplace", "insert", "erase", "next", "get(")):
            continue
        succ = dict((lab, to) for to, lab in fn.succs(d))
        for lab in ("true", "false"):
            tgt = succ.get(lab)
            other = succ.get("false" if lab == "true" else "true")
            if tgt is None or tgt == other:
                continue
            if not reachable_without_edge(fn, d, tgt, bid):
                pol = (lab == "true") != flipped
                seen.setdefault(t, set()).add(pol)
    return any(len(v) == 2 for v in seen.values())
