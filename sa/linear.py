"""Linear integer forms and half-spaces over opaque leaves (A2 helper).

lin(expr)      -> {leaf-text: coefficient, "1": constant} or None (not linear); leaves are rendered sub-expressions
                  (member calls such as word.size(), references); casts are transparent.
halfspace(cmp) -> (coefs, c) meaning  sum(coefs) <= c  over the integers, for a comparison node; None if not linear
neg(h)         -> the complement half-space (integers)
implies(h1,h2) -> h1 => h2 for half-spaces with proportional coefficient vectors
"""
from fractions import Fraction

from . import ir
from .ir import fmt


def _add(a, b, k=1):
    out = dict(a)
    for key, v in b.items():
        out[key] = out.get(key, 0) + k * v
    return {key: v for key, v in out.items() if v}


def lin(n):
    n = ir.unwrap(n)
    while isinstance(n, dict) and n.get("k") == "cast":
        n = ir.unwrap(n["e"])
    if not isinstance(n, dict):
        return None
    k = n.get("k")
    if k == "lit" and n.get("t") in ("int", "char") and isinstance(n.get("v"), int):
        return {"1": n["v"]} if n["v"] else {}
    if k == "un" and n.get("op") == "-":
        a = lin(n["e"])
        return None if a is None else _add({}, a, -1)
    if k == "un" and n.get("op") == "+":
        return lin(n["e"])
    if k == "bin" and n.get("op") in ("+", "-"):
        a, b = lin(n["l"]), lin(n["r"])
        if a is None or b is None:
            return None
        return _add(a, b, 1 if n["op"] == "+" else -1)
    if k == "bin" and n.get("op") == "*":
        a, b = lin(n["l"]), lin(n["r"])
        if a is None or b is None:
            return None
        for x, y in ((a, b), (b, a)):
            if set(x) <= {"1"}:
                return {key: v * x.get("1", 0) for key, v in y.items() if v * x.get("1", 0)}
        return None
    if k in ("ref", "call", "member", "subscript"):
        return {fmt(n): 1}
    return None


def halfspace(n):
    bo = ir.as_binop(ir.unwrap(n)) if isinstance(n, dict) else None
    if not bo or bo[0] not in ("<", "<=", ">", ">="):
        return None
    l, r = lin(bo[1]), lin(bo[2])
    if l is None or r is None:
        return None
    d = _add(l, r, -1) if bo[0] in ("<", "<=") else _add(r, l, -1)  # d <= 0  resp.  d < 0
    c = -d.pop("1", 0)
    if bo[0] in ("<", ">"):
        c -= 1
    return (d, c)


def neg(h):
    d, c = h
    return ({k: -v for k, v in d.items()}, -c - 1)


def implies(h1, h2):
    """(d1 <= c1) => (d2 <= c2) when d2 = t * d1 with t > 0: holds iff floor(t * c1) <= c2 (over the integers, sufficient test)"""
    d1, c1 = h1
    d2, c2 = h2
    if not d1 or set(d1) != set(d2):
        return False
    t = None
    for k in d1:
        q = Fraction(d2[k], d1[k])
        if q <= 0 or (t is not None and q != t):
            return False
        t = q
    return t * c1 <= c2


def show(h):
    d, c = h
    return " ".join("%+d*%s" % (v, k) for k, v in sorted(d.items())) + " <= %d" % c
