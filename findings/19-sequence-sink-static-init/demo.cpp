// a record logged from a static initialiser through sink::sequence is lost: sequence<Sinks...>::sinks is a static data member of a
// class template (unordered dynamic initialisation) - the member sink is constructed AFTER it received the record
#include <nitro/log/log.hpp>
#include <nitro/log/sink/sequence.hpp>
#include <nitro/log/attribute/message.hpp>
#include <nitro/log/attribute/severity.hpp>
#include <nitro/log/attribute/timestamp.hpp>
#include <nitro/log/filter/severity_filter.hpp>
#include <iostream>
#include <string>
#include <vector>

struct collecting_sink
{
    std::vector<std::string> records; // all-zero bytes are a valid empty vector in libstdc++
    collecting_sink() { records.reserve(4); }
    void sink(nitro::log::severity_level, const std::string& r) { records.push_back(r); }
};
static collecting_sink* the_sink = nullptr;
struct spy_sink : collecting_sink
{
    spy_sink() { the_sink = this; }
    void sink(nitro::log::severity_level s, const std::string& r) { the_sink = this; collecting_sink::sink(s, r); }
};

using record = nitro::log::record<nitro::log::message_attribute, nitro::log::severity_attribute, nitro::log::timestamp_attribute>;
template <typename R> struct fmt { std::string format(R& r) { return r.message(); } };
template <typename R> using filter = nitro::log::filter::severity_filter<R>;
using logging = nitro::log::logger<record, fmt, nitro::log::sink::sequence<spy_sink>, filter>;

struct component
{
    component() { logging::warn() << "component registered"; }
};
static component c; // a namespace-scope object of the application that logs while it is constructed

int main()
{
    logging::warn() << "from main";
    std::size_t n = the_sink ? the_sink->records.size() : 0;
    std::cout << "records held by the sink: " << n << "\n";
    if (n != 2) { std::cout << "BROKEN: the record logged during static initialisation is gone\n"; return 1; }
    std::cout << "ok\n";
    return 0;
}
