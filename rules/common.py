"""Anchors and helpers shared by the rule modules (names of the repo's entities live here, once)."""
from sa import ir, cfg
from sa.callgraph import CallGraph, tree_effects, lvalue_root, ASSIGN_OPS
from sa.ir import fmt, walk, short

NS = "nitro::options::"
KINDS = ("option", "multi_option", "toggle")
PARSE_VEC = NS + "parser::parse(const std::vector<options::user_input> &)"
PARSE_ARGV = NS + "parser::parse(int, const char *const *)"

_cg_cache = {}


def callgraph(ctx):
    cg = _cg_cache.get(id(ctx.prog))
    if cg is None:
        cg = CallGraph(ctx.prog)
        _cg_cache.clear()
        _cg_cache[id(ctx.prog)] = cg
    return cg


def one(ctx, rule, qual, pattern=None, pred=None, what=None):
    """the single function with this qualified name (analysis-broken if absent or ambiguous)"""
    fs = ctx.prog.find(qual, pattern=pattern, pred=pred)
    if not fs:
        ctx.broken(rule, qual, "anchor", "function %s not found in the analysed program" % (what or qual), "-")
        return None
    if len(fs) > 1:
        ctx.broken(rule, qual, "anchor", "function %s is ambiguous: %s" % (qual, [f.id for f in fs]), "-")
        return None
    if not fs[0].has_cfg:
        ctx.broken(rule, qual, "anchor", "function %s has no CFG" % qual, fs[0].site)
        return None
    return fs[0]


def class_chain(prog, name):
    """[class, base, base-of-base...] names (single inheritance chains of the option classes)"""
    out = []
    seen = set()
    st = [name]
    while st:
        n = st.pop(0)
        if n in seen:
            continue
        seen.add(n)
        c = prog.cls(n)
        if not c:
            continue
        out.append(n)
        for b in c.get("bases", []):
            if b.get("name"):
                st.append(b["name"])
    return out


def class_fields(prog, name, inherited=True):
    """{field qual: field dict} of class (and its bases)"""
    out = {}
    for cn in (class_chain(prog, name) if inherited else [name]):
        c = prog.cls(cn)
        for f in c.get("fields", []):
            if not f.get("static"):
                out[f["qual"]] = f
    return out


def field_class(fq):
    return fq.rsplit("::", 1)[0]


def is_this(n):
    return isinstance(n, dict) and n.get("k") == "this"


def receiver_is_this(call):
    th = call.get("this")
    return th is not None and is_this(ir.unwrap(th))


def elem_calls(e, into_sc=False):
    if e.get("expr") is None:
        return
    for n in walk(e["expr"], into_sc):
        if n.get("k") in ("call", "construct"):
            yield n


def elem_has_call(e, pred, into_sc=False):
    for n in elem_calls(e, into_sc):
        if pred(n):
            return True
    return False


def calls_named(fn, qual):
    """[(bid, idx, node)] calls in fn whose resolved callee has this qualified name"""
    out = []
    for bid, i, e in fn.all_elems():
        for n in elem_calls(e):
            if n.get("name") == qual:
                out.append((bid, i, n))
    return out


def literal_value(n):
    n = ir.unwrap(n)
    if isinstance(n, dict) and n.get("k") == "lit":
        return (n["t"], n["v"])
    if isinstance(n, dict) and n.get("k") == "cast":
        return literal_value(n["e"])
    return None


def const_int(n, depth=0):
    """value of an integral constant expression built from literals, const globals with literal initialisers, | & + - ~ << and casts; None otherwise"""
    n = ir.unwrap(n)
    if not isinstance(n, dict) or depth > 8:
        return None
    k = n.get("k")
    if k == "lit":
        return n["v"] if n.get("t") in ("int", "char") and isinstance(n.get("v"), int) else None
    if k in ("cast", "paren"):
        return const_int(n.get("e"), depth + 1)
    if k == "ref" and n.get("const_init") is not None:
        return const_int(n["const_init"], depth + 1)
    if k == "un" and n.get("op") in ("~", "-", "+"):
        v = const_int(n["e"], depth + 1)
        return None if v is None else {"~": ~v, "-": -v, "+": v}[n["op"]]
    if k == "bin" and n.get("op") in ("|", "&", "+", "-", "<<", "^"):
        a, b = const_int(n["l"], depth + 1), const_int(n["r"], depth + 1)
        if a is None or b is None:
            return None
        return {"|": a | b, "&": a & b, "+": a + b, "-": a - b, "<<": a << b if 0 <= b < 63 else None, "^": a ^ b}[n["op"]]
    return None


def is_empty_temp(n):
    """a value-initialised / default-constructed temporary or an empty braced list"""
    n = ir.unwrap(n)
    if not isinstance(n, dict):
        return False
    k = n.get("k")
    if k == "construct":
        args = [a for a in n.get("args", []) if not (isinstance(a, dict) and a.get("k") == "defarg")]
        if not args:
            return True
        if len(args) == 1 and (n.get("copy") or n.get("move")):
            return is_empty_temp(args[0])
        if len(args) == 1:
            a = ir.unwrap(args[0])
            if isinstance(a, dict) and a.get("k") == "init_list" and not a.get("elems"):
                return True
            if isinstance(a, dict) and a.get("k") == "lit" and a["t"] == "null":
                return True  # unique_ptr{nullptr}
        return False
    if k == "init_list":
        return not n.get("elems")
    if k == "value_init":
        return True
    if k == "cast" and n.get("ck") == "functional":
        return is_empty_temp(n["e"])
    if k == "lit" and n["t"] == "null":
        return True
    return False


def static_locals(f):
    """[(name, elem)] static / thread_local objects declared inside f"""
    out = []
    for bid, i, e in f.all_elems():
        x = e.get("expr")
        if x is None:
            continue
        for y in walk(x):
            if y.get("k") == "decl":
                for v in y.get("vars", []):
                    if v.get("static"):
                        out.append((v["name"], e))
    return out


def fx(ctx, qual):
    """the fixture function vfix::<qual> (None + broken obligation if the fixtures unit was not extracted)"""
    fs = [f for f in ctx.prog.find("vfix::" + qual) if f.has_cfg]
    return fs[0] if fs else None


def share(ctx, module, rules, as_rule, what, minimum):
    """re-evaluate `rules` of another property's module inside this check and book their obligations under `as_rule`
    (the same structural fact is a necessary condition of both properties). Only the check that owns ctx.prop does it,
    so shared modules do not recurse."""
    import importlib
    if getattr(ctx, "_sharing", False):
        return
    mod = importlib.import_module("rules." + module)
    sub = type(ctx)(ctx.prop, ctx.prog, ctx.tier)
    sub._sharing = True
    mod.run(sub)
    n = 0
    for o in sub.obs:
        if o.rule in rules:
            n += 1
            o.rule = as_rule
            ctx.obs.append(o)
    ctx.need(as_rule, what, n, minimum)
