"""Anchors and helpers shared by the rule modules (names of the repo's entities live here, once)."""
import os
import re
from sa import ir, cfg
from sa.callgraph import CallGraph, tree_effects, lvalue_root, ASSIGN_OPS
from sa.ir import fmt, walk, short

NS = "nitro::options::"
KINDS = ("option", "multi_option", "toggle")
PARSE_VEC = NS + "parser::parse(const std::vector<options::user_input> &)"
PARSE_ARGV = NS + "parser::parse(int, const char *const *)"

_cg_cache = {}


def callgraph(ctx):
    cg = _cg_cache.get(id(ctx.prog))
    if cg is None:
        cg = CallGraph(ctx.prog)
        _cg_cache.clear()
        _cg_cache[id(ctx.prog)] = cg
    return cg


def one(ctx, rule, qual, pattern=None, pred=None, what=None):
    """the single function with this qualified name (analysis-broken if absent or ambiguous)"""
    fs = ctx.prog.find(qual, pattern=pattern, pred=pred)
    if not fs:
        ctx.broken(rule, qual, "anchor", "function %s not found in the analysed program" % (what or qual), "-")
        return None
    if len(fs) > 1:
        ctx.broken(rule, qual, "anchor", "function %s is ambiguous: %s" % (qual, [f.id for f in fs]), "-")
        return None
    if not fs[0].has_cfg:
        ctx.broken(rule, qual, "anchor", "function %s has no CFG" % qual, fs[0].site)
        return None
    return fs[0]


def class_chain(prog, name):
    """[class, base, base-of-base...] names (single inheritance chains of the option classes)"""
    out = []
    seen = set()
    st = [name]
    while st:
        n = st.pop(0)
        if n in seen:
            continue
        seen.add(n)
        c = prog.cls(n)
        if not c:
            continue
        out.append(n)
        for b in c.get("bases", []):
            if b.get("name"):
                st.append(b["name"])
    return out


def class_fields(prog, name, inherited=True):
    """{field qual: field dict} of class (and its bases)"""
    out = {}
    for cn in (class_chain(prog, name) if inherited else [name]):
        c = prog.cls(cn)
        for f in c.get("fields", []):
            if not f.get("static"):
                out[f["qual"]] = f
    return out


def field_class(fq):
    return fq.rsplit("::", 1)[0]


def is_this(n):
    return isinstance(n, dict) and n.get("k") == "this"


def receiver_is_this(call):
    th = call.get("this")
    return th is not None and is_this(ir.unwrap(th))


def elem_calls(e, into_sc=False):
    if e.get("expr") is None:
        return
    for n in walk(e["expr"], into_sc):
        if n.get("k") in ("call", "construct"):
            yield n


def elem_has_call(e, pred, into_sc=False):
    for n in elem_calls(e, into_sc):
        if pred(n):
            return True
    return False


def calls_named(fn, qual):
    """[(bid, idx, node)] calls in fn whose resolved callee has this qualified name"""
    out = []
    for bid, i, e in fn.all_elems():
        for n in elem_calls(e):
            if n.get("name") == qual:
                out.append((bid, i, n))
    return out


def literal_value(n):
    n = ir.unwrap(n)
    if isinstance(n, dict) and n.get("k") == "lit":
        return (n["t"], n["v"])
    if isinstance(n, dict) and n.get("k") == "cast":
        return literal_value(n["e"])
    return None


def named_constant(prog, n, scope):
    """value of a static constant data member named through a dependent expression (`iterator::first_index` inside a class
    template): all static const members of that name in classes under `scope` carry the same literal initialiser"""
    n = ir.unwrap(n)
    if not isinstance(n, dict):
        return None
    name = None
    if n.get("k") == "member" and (n.get("field") or "").startswith("?::"):
        name = n["field"][3:]
    elif n.get("k") in ("ref", "dep_ref") and n.get("dep"):
        name = short(str(n.get("decl") or n.get("name") or "").split(":")[-1])
    if not name:
        return None
    vals = set()
    for cn, c in prog.classes.items():
        if not cn.startswith(scope):
            continue
        for fl in c.get("fields", []):
            if fl.get("name") == name and fl.get("static") and (fl.get("type") or "").startswith(("const ", "constexpr ")):
                vals.add(const_int(fl.get("init")) if fl.get("init") is not None else None)
    return vals.pop() if len(vals) == 1 else None


def const_int(n, depth=0):
    """value of an integral constant expression built from literals, const globals with literal initialisers, | & + - ~ << and casts; None otherwise"""
    n = ir.unwrap(n)
    if not isinstance(n, dict) or depth > 8:
        return None
    k = n.get("k")
    if k == "lit":
        return n["v"] if n.get("t") in ("int", "char") and isinstance(n.get("v"), int) else None
    if k in ("cast", "paren"):
        return const_int(n.get("e"), depth + 1)
    if k == "ref" and n.get("const_init") is not None:
        return const_int(n["const_init"], depth + 1)
    if k == "un" and n.get("op") in ("~", "-", "+"):
        v = const_int(n["e"], depth + 1)
        return None if v is None else {"~": ~v, "-": -v, "+": v}[n["op"]]
    if k == "bin" and n.get("op") in ("|", "&", "+", "-", "<<", "^"):
        a, b = const_int(n["l"], depth + 1), const_int(n["r"], depth + 1)
        if a is None or b is None:
            return None
        return {"|": a | b, "&": a & b, "+": a + b, "-": a - b, "<<": a << b if 0 <= b < 63 else None, "^": a ^ b}[n["op"]]
    return None


def is_empty_temp(n):
    """a value-initialised / default-constructed temporary or an empty braced list"""
    n = ir.unwrap(n)
    if not isinstance(n, dict):
        return False
    k = n.get("k")
    if k == "construct":
        args = [a for a in n.get("args", []) if not (isinstance(a, dict) and a.get("k") == "defarg")]
        if not args:
            return True
        if len(args) == 1 and (n.get("copy") or n.get("move")):
            return is_empty_temp(args[0])
        if len(args) == 1:
            a = ir.unwrap(args[0])
            if isinstance(a, dict) and a.get("k") == "init_list" and not a.get("elems"):
                return True
            if isinstance(a, dict) and a.get("k") == "lit" and a["t"] == "null":
                return True  # unique_ptr{nullptr}
        return False
    if k == "init_list":
        return not n.get("elems")
    if k == "value_init":
        return True
    if k == "cast" and n.get("ck") == "functional":
        return is_empty_temp(n["e"])
    if k == "lit" and n["t"] == "null":
        return True
    return False


def static_locals(f):
    """[(name, elem)] static / thread_local objects declared inside f"""
    out = []
    for bid, i, e in f.all_elems():
        x = e.get("expr")
        if x is None:
            continue
        for y in walk(x):
            if y.get("k") == "decl":
                for v in y.get("vars", []):
                    if v.get("static"):
                        out.append((v["name"], e))
    return out


def fx(ctx, qual):
    """the fixture function vfix::<qual> (None + broken obligation if the fixtures unit was not extracted)"""
    fs = [f for f in ctx.prog.find("vfix::" + qual) if f.has_cfg]
    return fs[0] if fs else None


def share(ctx, module, rules, as_rule, what, minimum):
    """re-evaluate `rules` of another property's module inside this check and book their obligations under `as_rule`
    (the same structural fact is a necessary condition of both properties). Only the check that owns ctx.prop does it,
    so shared modules do not recurse."""
    import importlib
    if getattr(ctx, "_sharing", False):
        return
    mod = importlib.import_module("rules." + module)
    sub = type(ctx)(ctx.prop, ctx.prog, ctx.tier)
    sub._sharing = True
    mod.run(sub)
    n = 0
    for o in sub.obs:
        if o.rule in rules:
            n += 1
            o.rule = as_rule
            ctx.obs.append(o)
    ctx.need(as_rule, what, n, minimum)


# ---------------------------------------------------------------------------------------------------------------- general rules
def chosen(prog, wf):
    """[(line, text, kind, Fn-or-None, node)] for the operator= calls and constructions at statement level of a witness function:
    what overload resolution selected"""
    out = []
    for bid, i, e in wf.roots():
        x = e["expr"]
        nodes = []
        if x.get("k") == "decl":
            for v in x.get("vars", []):
                init = ir.unwrap(v.get("init")) if v.get("init") is not None else None
                while isinstance(init, dict) and init.get("k") == "cast":
                    init = ir.unwrap(init["e"])
                if isinstance(init, dict) and init.get("k") == "construct":
                    nodes.append(("construct", init, init.get("ctor")))
        else:
            y = ir.unwrap(x)
            while isinstance(y, dict) and y.get("k") == "cast":
                y = ir.unwrap(y["e"])
            if isinstance(y, dict) and y.get("k") == "call" and y.get("op") == "=":
                nodes.append(("assign", y, y.get("callee")))
            elif isinstance(y, dict) and y.get("k") == "call":
                nodes.append(("call", y, y.get("callee")))
        for kind, n, cid in nodes:
            out.append((e.get("ln"), fmt(x)[:80], kind, prog.fn(cid) if cid else None, n))
    return out



def raising_functions(prog, cg):
    """{fn id: (line, text)} of /repo functions that contain a reachable raise / throw"""
    from . import C04
    out = {}
    for f in prog.fns.values():
        if not f.has_cfg or not f.file.startswith("/repo/"):
            continue
        for b in f.reachable_blocks():
            rn = C04.raise_nodes(f, b)
            if rn:
                out[f.id] = (rn[0][2].get("ln"), (rn[0][2].get("text") or fmt(rn[0][0]))[:70])
                break
        if f.id in out:
            continue
        # range-checked standard accessors throw by contract (`at`, `optional::value`, `stoi` ...): a function that calls one raises, too
        for bid, i, e in f.roots():
            if f.id in out:
                break
            for n in walk(e["expr"]):
                if n.get("k") == "call" and re.search(r"^std::(vector|deque|array|map|unordered_map|basic_string|basic_string_view)<.*>::at$|^std::(__cxx11::)?sto(i|l|ll|ul|ull|f|d|ld)$|^std::optional<.*>::value$", n.get("name") or ""):
                    out[f.id] = (n.get("ln"), fmt(n)[:70])
                    break
    return out


def rule_noexcept(ctx, rule, scope, what, minimum=0):
    """G-noexcept: a function of the scope that is declared noexcept reaches no raise: the exception could not leave it, the
    process would end in std::terminate instead of the documented error. scope: predicate on Fn."""
    prog = ctx.prog
    cg = callgraph(ctx)
    raisers = raising_functions(prog, cg)
    n = 0
    seen = set()
    for f in sorted(prog.fns.values(), key=lambda g: g.id):
        if not f.has_cfg or not f.file.startswith("/repo/") or not f.flags.get("noexcept") or not scope(f):
            continue
        key = (f.file, f.line, f.name)
        if key in seen:
            continue
        seen.add(key)
        n += 1
        reach = cg.reachable([f.id])
        hit = sorted(r for r in reach if r in raisers)
        # inside a template: an operation on an object whose type the user supplies (`++it_`, `it_ != other.it_`, `*it_` with it_ of a
        # template parameter's type) is a call of the user's code - it may throw whatever it likes
        userop = None
        if f.is_pattern and not hit:
            for _, _, e in f.roots():
                for y in walk(e["expr"]):
                    if isinstance(y, dict) and y.get("k") in ("un", "bin", "call", "subscript") and ((y.get("type") or "") == "<dependent type>" or y.get("dep")) \
                            and not (y.get("k") == "call" and (y.get("name") or "") in ("std::move", "std::forward", "std::addressof")):
                        userop = y
                        break
                if userop is not None:
                    break
        if userop is not None:
            ctx.bad(rule, f, "noexcept-reaches-raise:%s" % short(f.qual),
                    "%s is declared noexcept but applies `%s` to an object of a type the caller supplies (line %s): an exception thrown by that operation - a lazily "
                    "parsing iterator that meets bad input, an element whose comparison throws - cannot leave the function, std::terminate ends the process instead of the "
                    "caller seeing the elements reached so far and then the exception" % (short(f.qual), fmt(userop)[:50], userop.get("ln")), (f, userop.get("ln")))
            continue
        if hit:
            g = prog.fn(hit[0])
            ctx.bad(rule, f, "noexcept-reaches-raise:%s" % short(f.qual),
                    "%s is declared noexcept but reaches `%s` (%s:%s): %s - the exception cannot leave the noexcept function, std::terminate ends the process instead"
                    % (short(f.qual), raisers[hit[0]][1], os.path.basename(g.file), raisers[hit[0]][0], what), f)
        else:
            ctx.ok(rule, f, "noexcept-reaches-raise:%s" % short(f.qual), "no raise reachable", f)
    # the rule is about declarations that may not exist at all: the count of scoped functions is its census
    scoped = len({(f.file, f.line) for f in prog.fns.values() if f.has_cfg and f.file.startswith("/repo/") and scope(f)})
    ctx.need(rule, "functions in the noexcept scope (%d of them noexcept)" % n, scoped, max(1, minimum))


def rule_no_static_state(ctx, rule, scope, what, allowed=(), minimum=1):
    """G-static: the functions of the scope keep no state between calls or share none between threads: no function-local
    static / thread_local object (other than constant tables and the named exceptions). scope: predicate on Fn;
    allowed: {(function short qual, local name): reason}"""
    prog = ctx.prog
    nf = 0
    seen = set()
    for f in sorted(prog.fns.values(), key=lambda g: g.id):
        if not f.has_cfg or not f.file.startswith("/repo/") or not scope(f):
            continue
        key = (f.file, f.line)
        if key in seen:
            continue
        seen.add(key)
        nf += 1
        for bid, i, e in f.all_elems():
            x = e.get("expr")
            if not isinstance(x, dict) or x.get("k") != "decl":
                continue
            for v in x.get("vars", []):
                if not v.get("static"):
                    continue
                t = (v.get("type") or "")
                dyn = isinstance(v.get("init"), dict) and any(isinstance(y, dict) and y.get("k") in ("call", "ucall", "new", "lambda") for y in walk(v["init"]))
                if (t.startswith("const ") or " const" in t.split("<")[0] or "constexpr" in t) and not dyn and not v.get("thread_local"):
                    continue  # a constant table
                if (short(f.qual), v["name"]) in allowed:
                    continue
                ctx.bad(rule, f, "no-static-state:%s:%s" % (short(f.qual), v["name"]),
                        "%s keeps `%s %s %s` across calls: %s" % (short(f.qual), "thread_local" if v.get("thread_local") else "static", t, v["name"], what), (f, x.get("ln")))
    ctx.need(rule, "functions scanned for static state", nf, minimum)
    if nf:
        ctx.ok(rule, "-", "no-static-state:scanned", "%d function(s)" % nf, "-")


def rule_no_narrowing(ctx, rule, cls, what, minimum=1):
    """G-narrow: an integral data member of cls that is assigned from an integral parameter (setter / constructor) is at
    least as wide as that parameter."""
    prog = ctx.prog
    c = prog.cls(cls)
    if not ctx.anchor(rule, cls, c is not None):
        return
    fbits = {fl["qual"]: (fl.get("bits"), fl.get("type")) for fl in c.get("fields", []) if fl.get("bits")}
    n = 0
    seen = set()
    for f in prog.methods_of(cls):
        if not f.has_cfg:
            continue
        pb = {p0["name"]: (p0.get("bits"), p0.get("type")) for p0 in f.params if p0.get("bits")}
        if not pb:
            continue
        writes = []
        for bid, i, e in f.all_elems():
            x = e.get("expr")
            if x is None:
                continue
            if e.get("kind") == "init" and e.get("field") in fbits:
                writes.append((e["field"], x, e.get("ln")))
            for y in walk(x):
                if y.get("k") == "bin" and y.get("op") == "=":
                    l = ir.unwrap(y["l"])
                    if isinstance(l, dict) and l.get("k") == "member" and l.get("field") in fbits:
                        writes.append((l["field"], y["r"], y.get("ln")))
        for fld, rhs, ln in writes:
            r = ir.unwrap(rhs)
            while isinstance(r, dict) and r.get("k") == "cast" and not r.get("explicit") and r.get("ck") not in ("static", "functional", "cstyle"):
                r = ir.unwrap(r["e"])
            if isinstance(r, dict) and r.get("k") == "ref" and r.get("decl", "").startswith("param:") and r["decl"][6:] in pb:
                key = (fld, f.name, r["decl"][6:])
                if key in seen:
                    continue
                seen.add(key)
                n += 1
                (mb, mt), (qb, qt) = fbits[fld], pb[r["decl"][6:]]
                ctx.check(mb >= qb, rule, f, "member-as-wide-as-parameter:%s<-%s(%s)" % (short(fld), f.name, r["decl"][6:]),
                          "%s is `%s` (%d bits) but %s() assigns it from `%s %s` (%d bits): %s" % (short(fld), mt, mb, f.name, qt, r["decl"][6:], qb, what), (f, ln),
                          why_ok="%s (%d) <- %s (%d)" % (mt, mb, qt, qb))
    ctx.need(rule, "integral members of %s assigned from integral parameters" % short(cls), n, minimum)


def rule_validate_before_commit(ctx, rule, scope, what, minimum=1):
    """G-commit: a function of the scope that can refuse its arguments (it reaches a raise of its own) writes no data member of its object on a
    path that can still reach that raise: what it refuses leaves no trace (a declaration that was rejected is not half made). scope: predicate on Fn."""
    prog = ctx.prog
    cg = callgraph(ctx)
    nf = 0
    seen = set()
    for f in sorted(prog.fns.values(), key=lambda g: g.id):
        if not f.has_cfg or not f.file.startswith("/repo/") or f.kind in ("ctor", "dtor") or not scope(f) or (f.file, f.line) in seen:
            continue
        rb = [b for b in f.reachable_blocks() if f.is_noreturn(b)]
        if not rb:
            continue
        seen.add((f.file, f.line))
        nf += 1
        bad = None
        for (fq, base, node, bid, i, how) in cg.field_writes(f):
            if how != "write" or base != "this" or std_lookup(node):
                continue
            after, st = set(), [bid]
            while st:
                x = st.pop()
                for to, _ in f.succs(x):
                    if to not in after:
                        after.add(to)
                        st.append(to)
            # a raise later in the same block counts as well
            same = any(isinstance(e2.get("expr"), dict) and any(isinstance(y, dict) and y.get("k") == "call" and y.get("noreturn") for y in walk(e2["expr"])) for e2 in f.elems(bid)[i + 1:])
            hit = [b for b in rb if b in after]
            if hit or same:
                bad = (fq, node, hit[0] if hit else bid)
                break
        ctx.check(bad is None, rule, f, "refusal-leaves-no-trace:%s" % short(f.qual),
                  "%s writes %s (line %s) and can still refuse the call afterwards (raise in B%s): %s" % (short(f.qual), short(bad[0]) if bad else "", bad[1].get("ln") if bad else "", bad[2] if bad else "", what),
                  (f, bad[1].get("ln") if bad else None), why_ok="every member write lies behind the last raise")
    ctx.need(rule, "refusing functions in scope", nf, minimum)


def delegating_overload(prog, f):
    """the sibling overload g when f does nothing but hand its own parameters to g - `R name(A&& a, B b) { name(a, b); return std::move(a); }`,
    `void reset(std::nullptr_t) { reset(); }`: one call of a same-named function with another signature whose arguments are f's parameters
    (each at most once, in order), optionally followed by returning the call's result or one of the parameters. Else None.
    What the rules say about `name` they say about g; f adds a way to spell the call."""
    if f is None or not f.has_cfg:
        return None
    roots = [e["expr"] for _, _, e in f.roots()]
    if not 1 <= len(roots) <= 2 or len(f.reachable_blocks()) > 3:
        return None
    pn = [p0["name"] for p0 in f.params]

    def plain(x):
        x = ir.unwrap(x)
        while isinstance(x, dict) and ((x.get("k") in ("cast", "construct") and (x.get("e") is not None or len(x.get("args", [])) == 1)) or
                                       (x.get("k") == "call" and (x.get("name") or "") in ("std::move", "std::forward") and len(x.get("args", [])) == 1)):
            x = ir.unwrap(x.get("e") if x.get("e") is not None else x["args"][0])
        return x
    first = roots[0]
    call = plain(first.get("e")) if first.get("k") == "return" else plain(first)
    if not (isinstance(call, dict) and call.get("k") == "call" and call.get("callee") and call["callee"] != f.id):
        return None
    g = prog.fn(call["callee"])
    if g is None or g.qual != f.qual:
        return None
    if call.get("this") is not None and ir.unwrap(call["this"]).get("k") != "this":
        return None
    used = []
    for a in call.get("args", []):
        a = plain(a)
        if not (isinstance(a, dict) and a.get("k") == "ref" and a.get("decl", "").startswith("param:") and a["decl"][6:] in pn):
            return None
        used.append(pn.index(a["decl"][6:]))
    if used != sorted(set(used)):
        return None
    if len(roots) == 2:
        r = roots[1]
        if r.get("k") != "return":
            return None
        rv = plain(r.get("e")) if r.get("e") is not None else None
        if rv is not None and not (isinstance(rv, dict) and ((rv.get("k") == "ref" and rv.get("decl", "").startswith("param:")) or (rv.get("k") == "un" and rv.get("op") == "*" and ir.unwrap(rv["e"]).get("k") == "this"))):
            return None
    return g


def rule_every_argument_tokenised(ctx, rule, minimum=1):
    """G-argv: in parse(argc, argv) an iteration of a loop that builds the token vector cannot come back to the loop head without
    having appended a token: no element of argv is passed over. (Iterations that raise do not come back; what happens to the rest
    after a `break` is the next loop's business and not judged here.)"""
    from sa import cfg as _cfg
    prog = ctx.prog
    pa = prog.fn(PARSE_ARGV)
    if not ctx.anchor(rule, PARSE_ARGV, pa is not None and pa.has_cfg):
        return

    def is_append(e):
        for n in elem_calls(e):
            if n.get("k") == "call" and short(n.get("name") or "") in ("push_back", "emplace_back", "emplace", "insert") and n.get("this") is not None:
                t = (ir.unwrap(n["this"]).get("type") or "") if isinstance(ir.unwrap(n["this"]), dict) else ""
                if "user_input" in t and "vector" in t:
                    return True
        return False
    nloops = 0
    for h, body in _cfg.loop_blocks(pa):
        app = {b for b in body if any(is_append(e) for e in pa.elems(b))}
        if not app:
            continue
        nloops += 1
        # blocks of the body reachable from the head without executing an append; arriving at the head again = an element passed over
        seen = set()
        st = [to for to, _ in pa.succs(h) if to in body]
        back = None
        prev = {}
        for x in st:
            prev[x] = h
        while st:
            x = st.pop()
            if x in seen or x in app:
                continue
            seen.add(x)
            if pa.is_noreturn(x):
                continue
            for to, lab in pa.succs(x):
                if to == h:
                    back = x
                elif to in body and to not in seen:
                    prev.setdefault(to, x)
                    st.append(to)
        path = []
        x = back
        while x is not None and x != h and len(path) < 50:
            path.append(x)
            x = prev.get(x)
        lns = [pa.term(b).get("ln") for b in reversed(path) if pa.term(b).get("cond") is not None]
        ctx.check(back is None, rule, pa, "every-argument-becomes-a-token@%s" % (pa.term(h).get("ln") or h),
                  "parse(argc, argv): an iteration of the loop that builds the token vector can return to the loop head (through B%s, decided at line(s) %s) without appending a token - "
                  "that element of argv is passed over: it is reported nowhere, the positional limit never sees it, and an option waiting for its value takes the NEXT word instead"
                  % ("->B".join(str(b) for b in reversed(path)), ", ".join(str(l) for l in lns if l)), (pa, lns[0] if lns and lns[0] else None),
                  why_ok="every path from the loop head back to it passes an append to the token vector (%d appending block(s))" % len(app))
    ctx.need(rule, "token-building loops in parse(argc, argv)", nloops, minimum)


FOLDS = {"std::accumulate": 2, "std::reduce": 2, "std::inner_product": 3, "std::transform_reduce": 2, "std::partial_sum": None}


def narrow_fold_start(prog, n):
    """for a call of a std fold: (type spelling, bits) of its start value when that is an integral narrower than std::size_t - the
    accumulator of std::accumulate has the TYPE OF THE START VALUE, whatever the step function takes and returns: every intermediate
    result is converted back to it. None when the start value is as wide as std::size_t (or not integral)."""
    if not (isinstance(n, dict) and n.get("k") == "call"):
        return None
    pos = FOLDS.get(n.get("name") or "")
    args = n.get("args", [])
    if pos is None or len(args) <= pos:
        return None
    a = ir.unwrap(args[pos])
    while isinstance(a, dict) and a.get("k") == "cast" and not a.get("explicit") and a.get("ck") not in ("static", "functional", "cstyle"):
        a = ir.unwrap(a["e"])
    if not isinstance(a, dict):
        return None
    want = prog.size_t_bits if getattr(prog, "size_t_bits", None) else 64
    if a.get("k") == "lit" and a.get("t") in ("int", "unsigned int", "short", "char", "bool"):
        return (a["t"], 32 if "int" in a["t"] else 8)
    b = a.get("bits")
    if b and b < want:
        return (a.get("type") or a.get("t") or "?", b)
    return None


def rule_fold_keeps_width(ctx, rule, scope, what, minimum=1):
    """G-fold: in the functions selected by scope a std fold starts from a value as wide as std::size_t."""
    prog = ctx.prog
    nf = nfold = 0
    seen = set()
    for f in sorted(prog.fns.values(), key=lambda g: g.id):
        if not f.has_cfg or not scope(f):
            continue
        nf += 1
        for bid, i, e in f.roots():
            for n in walk(e["expr"]):
                if isinstance(n, dict) and n.get("k") == "call" and (n.get("name") or "") in FOLDS:
                    key = (f.file, n.get("ln"), n.get("col"))
                    if key in seen:
                        continue
                    seen.add(key)
                    nfold += 1
                    nar = narrow_fold_start(prog, n)
                    ctx.check(nar is None, rule, f, "fold-start-as-wide-as-result:%s" % short(f.qual),
                              "%s folds with %s starting from `%s` of type %s (%d bits): the accumulator has the type of the start value, so every "
                              "intermediate result is cut to %d bits - %s" % (short(f.qual), n.get("name"), fmt(n["args"][FOLDS[n["name"]]]), nar[0] if nar else "", nar[1] if nar else 0, nar[1] if nar else 0, what),
                              (f, n.get("ln")), why_ok="start value `%s`" % fmt(n["args"][FOLDS[n["name"]]]) if FOLDS.get(n["name"]) is not None and len(n.get("args", [])) > FOLDS[n["name"]] else "")
    ctx.need(rule, "functions scanned for folds", nf, minimum)
    g1, g2 = fx(ctx, "folds_narrow"), fx(ctx, "folds_wide")

    def first_fold(g):
        return next((n for _, _, e in g.roots() for n in walk(e["expr"]) if isinstance(n, dict) and n.get("k") == "call" and (n.get("name") or "") in FOLDS), None) if g else None
    ctx.fixture(rule, "folds_narrow", g1 is not None and narrow_fold_start(prog, first_fold(g1)) is not None, True, "a fold starting from the int literal 0 recognised as narrow")
    ctx.fixture(rule, "folds_wide", g2 is not None and narrow_fold_start(prog, first_fold(g2)) is None, True, "a fold starting from std::size_t{0} accepted")
    if nf and not nfold:
        ctx.ok(rule, "-", "fold-start-as-wide-as-result:none", "%d function(s) scanned, no std fold among them" % nf, "-")


def rule_no_use_after_move(ctx, rule, scope, what, minimum=1):
    """G-moved: a local or parameter handed to std::move is not read again before it is given a new value (assignment,
    clear / reset / assign, or its declaration executed again). scope: predicate on Fn."""
    prog = ctx.prog
    nf = 0
    seen = set()
    hits = 0
    for f in sorted(prog.fns.values(), key=lambda g: g.id):
        if not f.has_cfg or not f.file.startswith("/repo/") or not scope(f):
            continue
        key = (f.file, f.line)
        if key in seen:
            continue
        seen.add(key)
        nf += 1
        for bid, i, e in f.roots():
            x = e["expr"]
            if x.get("k") == "return":
                continue
            for n in walk(x):
                if not (n.get("k") == "call" and (n.get("name") or "") == "std::move" and len(n.get("args", [])) == 1):
                    continue
                a = ir.unwrap(n["args"][0])
                if not (isinstance(a, dict) and a.get("k") == "ref" and a.get("decl", "").split(":")[0] in ("local", "param")):
                    continue
                t = (a.get("type") or "")
                if a.get("bits") or t.rstrip().endswith("*") or t in ("bool", "double", "float", "char"):
                    continue  # moving a scalar is a copy
                name = a["decl"]

                def refs(el, name=name):
                    y = el.get("expr")
                    return [r for r in walk(y) if isinstance(r, dict) and r.get("k") == "ref" and r.get("decl") == name] if isinstance(y, dict) else []

                def kills(el, name=name):
                    y = el.get("expr")
                    if not isinstance(y, dict):
                        return False
                    if y.get("k") == "decl" and any("local:" + v["name"] == name for v in y.get("vars", [])):
                        return True
                    z = ir.unwrap(y)
                    if isinstance(z, dict) and z.get("k") in ("bin", "call") and z.get("op") == "=":
                        l = ir.unwrap(z.get("l") if z.get("k") == "bin" else z.get("this"))
                        if isinstance(l, dict) and l.get("k") == "ref" and l.get("decl") == name:
                            return True
                    if isinstance(z, dict) and z.get("k") == "call" and short(z.get("name") or "") in ("clear", "reset", "assign") and z.get("this") is not None:
                        l = ir.unwrap(z["this"])
                        if isinstance(l, dict) and l.get("k") == "ref" and l.get("decl") == name:
                            return True
                    return False

                p = cfg.reaches_without(f, (bid, i), lambda el: bool(refs(el)) and not kills(el), kills)
                if p is not None:
                    hits += 1
                    ctx.bad(rule, f, "no-use-after-move:%s:%s" % (short(f.qual), name.split(":", 1)[1]),
                            "%s reads `%s` after handing it to std::move at line %s (blocks B%s): the moved-from object is empty / unspecified - %s"
                            % (short(f.qual), name.split(":", 1)[1], n.get("ln"), "->B".join(map(str, p)), what), (f, n.get("ln")))
    ctx.need(rule, "functions scanned for use after move", nf, minimum)
    if not hits:
        ctx.ok(rule, "-", "no-use-after-move:scanned", "%d function(s)" % nf, "-")


_STD_LOOKUPS = ("at", "begin", "end", "rbegin", "rend", "find", "front", "back", "data", "lower_bound", "upper_bound", "equal_range", "get")


def std_lookup(n):
    """the non-const overload of a standard element accessor: hands out a position / reference and changes nothing by itself"""
    from sa.ir import short as _short
    return isinstance(n, dict) and n.get("k") == "call" and (n.get("name") or "").startswith("std::") and _short(n.get("name") or "") in _STD_LOOKUPS


def regex_runs(f):
    """[(node, matcher short name, subject argument nodes)]: every place where f runs a std::regex over some text
    (regex_match / regex_search / regex_replace calls, regex_iterator / regex_token_iterator constructions)"""
    out = []
    for bid, i, e in f.all_elems():
        x = e.get("expr")
        if not isinstance(x, dict):
            continue
        nodes = list(walk(x))
        if x.get("k") == "decl":
            for v in x.get("vars", []):
                iu = ir.unwrap(v.get("init")) if v.get("init") is not None else None
                if isinstance(iu, dict) and iu.get("k") in ("paren_list", "init_list") and "regex_" in (v.get("type") or "") and "iterator" in (v.get("type") or ""):
                    nodes.append({"k": "construct", "name": v.get("type"), "args": list(iu.get("elems", iu.get("kids", []))), "ln": e.get("ln")})
        for n in nodes:
            k = n.get("k")
            nm = n.get("name") or n.get("type") or ""
            if k == "construct" and "regex_" in nm and "iterator" in nm and len(n.get("args", [])) >= 2:
                out.append((n, "regex_iterator", n["args"][:2]))
            elif k == "call" and short(nm) in ("regex_search", "regex_match", "regex_replace") and n.get("args"):
                a = n["args"]
                # (first, last, ...) or (text, ...)
                two = len(a) >= 3 and fmt(ir.unwrap(a[0])).endswith("begin()") and fmt(ir.unwrap(a[1])).endswith("end()")
                out.append((n, short(nm), a[:2] if two else a[:1]))
    return out


TOKEN_DOC = "-{1,2}[^-=]+[^=]*(=[\\x00-\\xff]*)?"
_token_cache = {}


def token_syntax_by_hand(ctx, ctor):
    """A10: the verdicts of a character-level token check on every abstract token (sa/tokeneval.py); None + the reason when the
    constructor is outside the finite domain. Cached per program."""
    from sa import tokeneval
    key = (id(ctx.prog), ctor.id)
    if key not in _token_cache:
        cg = callgraph(ctx)
        helpers = [g for g in (ctx.prog.fn(i) for i in sorted(cg.reachable([ctor.id])) if i != ctor.id) if g is not None and g.has_cfg and g.file.startswith("/repo/") and not g.flags.get("noreturn")]
        try:
            _token_cache[key] = (tokeneval.decide(ctx.prog, ctor, helpers), None)
        except tokeneval.Unsupported as ex:
            _token_cache[key] = (None, str(ex))
    return _token_cache[key]


def show_token(tok, other):
    return "".join("<any>" if b == other else (chr(b) if 32 <= b < 127 else "\\x%02x" % b) for b in tok)


def handlers_of(f):
    """[(block id, catch node)] - the heads of f's catch handlers"""
    out = []
    for bid in f.blocks:
        es = f.elems(bid)
        if es and isinstance(es[0].get("expr"), dict) and es[0]["expr"].get("k") == "catch":
            out.append((bid, es[0]["expr"]))
    return out


def handler_outcomes(f, hb, cn):
    """how control can leave the handler that starts in block hb: {"normal": [line]} when a path runs out of the handler's source
    range (the exception is gone), "rethrow": [...], "raise": [(exception type or None, node)]"""
    lo, hi = cn.get("ln") or 0, cn.get("endln") or 0
    res = {"normal": [], "rethrow": [], "raise": []}
    seen = set()
    st = [hb]
    while st:
        b = st.pop()
        if b in seen:
            continue
        seen.add(b)
        left = False
        ended = False
        for e in f.elems(b):
            x = e.get("expr")
            ln = e.get("ln") or (x.get("ln") if isinstance(x, dict) else None)
            if ln is not None and not (lo <= ln <= hi):
                left = True
                break
            if not isinstance(x, dict):
                continue
            for n in walk(x, into_sc=False):
                if n.get("k") == "throw":
                    if n.get("e") is None:
                        res["rethrow"].append(n)
                    else:
                        t = ir.unwrap(n["e"])
                        res["raise"].append(((t.get("type") or t.get("name")) if isinstance(t, dict) else None, n))
                    ended = True
                elif n.get("k") == "call" and n.get("noreturn"):
                    cid = n.get("callee") or ""
                    res["raise"].append((cid.split("#<", 1)[1].split(",")[0].strip() if "#<" in cid else None, n))
                    ended = True
            if ended:
                break
        if ended:
            continue
        tl = f.term(b).get("ln")
        if left or b == f.exit or (tl is not None and not (lo <= tl <= hi)):
            res["normal"].append(b)
            continue
        for to, lab in f.succs(b):
            st.append(to)
    return res


_UNRELATED_CAUGHT = ("std::ios_base::failure", "std::bad_alloc", "std::bad_cast", "std::system_error", "std::bad_function_call")


def rule_handlers(ctx, rule, scope, errors, what, minimum=1):
    """G-handlers: on the path that carries a property's documented error, a catch handler neither lets an exception vanish
    (the handler can complete normally) nor turns the documented error into another class.
    scope: predicate on Fn; errors: qualified names of the documented error classes."""
    prog = ctx.prog
    nf = 0
    nh = 0
    seen = set()
    for f in sorted(prog.fns.values(), key=lambda g: g.id):
        if not f.has_cfg or not f.file.startswith("/repo/") or not scope(f):
            continue
        key = (f.file, f.line)
        if key in seen:
            continue
        seen.add(key)
        nf += 1
        for hb, cn in handlers_of(f):
            nh += 1
            ct = (cn.get("type") or "...").replace("const ", "").strip()
            out = handler_outcomes(f, hb, cn)
            tag = "%s:catch(%s)" % (short(f.qual), short(ct) if ct != "..." else "...")
            if ct in _UNRELATED_CAUGHT or short(ct) in [short(u) for u in _UNRELATED_CAUGHT]:
                ctx.ok(rule, f, "handler:" + tag, "catches %s only" % ct, (f, cn.get("ln")))
                continue
            if out["normal"]:
                ctx.bad(rule, f, "handler-swallows:" + tag, "%s catches %s and can carry on as if nothing had happened: %s" % (short(f.qual), ct, what), (f, cn.get("ln")))
                continue
            wrong = [(t, n) for (t, n) in out["raise"] if ct in errors and t is not None and t != ct and t not in errors]
            if wrong:
                ctx.bad(rule, f, "handler-translates:" + tag, "%s catches %s and raises %s instead: callers that handle the documented error class no longer see it (%s)"
                        % (short(f.qual), ct, wrong[0][0], what), (f, wrong[0][1].get("ln")))
                continue
            ctx.ok(rule, f, "handler:" + tag, "leaves only by %s" % ("rethrow" if out["rethrow"] else "raising %s" % sorted({str(t) for t, n in out["raise"]})), (f, cn.get("ln")))
    ctx.need(rule, "functions scanned for catch handlers (%d handlers)" % nh, nf, minimum)
    # fixtures: the scanner sees a swallowing handler, a translating one, and leaves a rethrowing one alone
    for nm, want in (("swallows", "normal"), ("passes_on", "rethrow"), ("translates", "raise")):
        g = fx(ctx, nm)
        hs = handlers_of(g) if g is not None else []
        got = handler_outcomes(g, hs[0][0], hs[0][1]) if hs else {"normal": [], "rethrow": [], "raise": []}
        ctx.fixture(rule, nm, bool(got[want]) and (want == "normal" or not got["normal"]), True, "handler outcome `%s` recognised" % want)


def rule_no_move_from_member(ctx, rule, scope, what, minimum=1):
    """G-member-move: a member function that can be called again on the same object (anything but constructors, the destructor, move
    assignment and &&-qualified members) does not hand one of the object's own data members to std::move: the second call would find it emptied."""
    prog = ctx.prog
    nf = 0
    seen = set()
    for f in sorted(prog.fns.values(), key=lambda g: g.id):
        if not f.has_cfg or not f.file.startswith("/repo/") or not f.cls or not scope(f):
            continue
        if f.kind in ("ctor", "dtor") or f.flags.get("move_assign") or f.flags.get("rvalue_ref_qualified") or (f.id.rstrip().endswith("&&")):
            continue
        key = (f.file, f.line)
        if key in seen:
            continue
        seen.add(key)
        nf += 1
        for bid, i, e in f.roots():
            for n in walk(e["expr"]):
                if n.get("k") == "call" and (n.get("name") or "") in ("std::move", "std::forward") and len(n.get("args", [])) == 1:
                    a = ir.unwrap(n["args"][0])
                    if isinstance(a, dict) and a.get("k") == "member" and not a.get("method") and isinstance(ir.unwrap(a.get("base")), dict) and ir.unwrap(a["base"]).get("k") == "this":
                        t = (a.get("type") or "")
                        if n["name"] == "std::forward" and t.rstrip().endswith("&") and not t.rstrip().endswith("&&"):
                            continue  # forwarding what an lvalue-reference member refers to as an lvalue
                        # (std::forward<U>(member) with the member declared `U`: a move in every instantiation where U is not a reference -
                        # the element type of an iterator that returns by value)
                        if t.rstrip().endswith("*") or re.fullmatch(r"(unsigned |signed )?(int|long|short|char|bool|std::size_t|size_t)", t.strip()):
                            continue  # moving a scalar is a copy
                        ctx.bad(rule, f, "member-moved-out:%s:%s" % (short(f.qual), short(a.get("field") or "?")),
                                "%s hands its own member %s to std::move / std::forward and can be called again on the same object: %s" % (short(f.qual), short(a.get("field") or "?"), what), (f, n.get("ln")))
    ctx.need(rule, "re-callable member functions scanned for moved-out members", nf, minimum)


def rule_special_members_complete(ctx, rule, cls_pred, what, minimum=1):
    """G-special-members: a hand-written copy / move constructor or assignment operator takes over EVERY non-static data member from
    its source: the member-wise list is complete (a member added later, or dropped while rewriting the operator as a swap, keeps the
    target's old value). cls_pred: predicate on the qualified class name."""
    prog = ctx.prog
    nops = 0
    for cn in sorted(prog.classes):
        c = prog.classes[cn]
        if not cls_pred(cn) or ("<" in cn and not c.get("pattern")) or not (c.get("file") or "").startswith("/repo/"):
            continue
        fields = [fl for fl in c.get("fields", []) if not fl.get("static")]
        if not fields:
            continue
        for f in sorted(prog.methods_of(cn), key=lambda g: g.id):
            if not f.has_cfg or not (f.flags.get("copy_ctor") or f.flags.get("move_ctor") or f.flags.get("copy_assign") or f.flags.get("move_assign")) or not f.params:
                continue
            if f.flags.get("implicit") or f.flags.get("defaulted"):
                continue  # compiler-generated: member-wise by definition
            nops += 1
            src = f.params[0]["name"]
            is_assign = bool(f.flags.get("copy_assign") or f.flags.get("move_assign"))
            texts = []
            delegating = False
            for _, _, e in f.all_elems():
                if e["kind"] == "init":
                    if e.get("field"):
                        texts.append((short(e["field"]), fmt(e["expr"]) if e.get("expr") is not None else ""))
                    elif e.get("delegating") or e.get("base"):
                        delegating = delegating or (src in (fmt(e["expr"]) if e.get("expr") is not None else ""))
                elif e.get("expr") is not None:
                    for n in walk(e["expr"], into_sc=True):
                        if n.get("k") == "bin" and n.get("op") == "=":
                            texts.append((fmt(ir.unwrap(n["l"])).replace("this->", ""), fmt(n["r"])))
                        elif n.get("k") == "call" and n.get("op") == "=" and n.get("this") is not None and n.get("args"):
                            texts.append((fmt(ir.unwrap(n["this"])).replace("this->", ""), fmt(n["args"][0])))
                        elif n.get("k") == "call" and short(n.get("name") or "") in ("swap", "exchange") and len(n.get("args", [])) == 2:
                            a, b = fmt(ir.unwrap(n["args"][0])).replace("this->", ""), fmt(ir.unwrap(n["args"][1])).replace("this->", "")
                            texts.append((a, b))
                            texts.append((b, a))
                        elif n.get("k") == "call" and short(n.get("name") or "") == "swap" and n.get("this") is not None and len(n.get("args", [])) == 1:
                            a, b = fmt(ir.unwrap(n["this"])).replace("this->", ""), fmt(ir.unwrap(n["args"][0]))
                            texts.append((a, b))
                            texts.append((b, a))
            whole = any(re.search(r"\bswap\(\(?\*this\)?, %s\)|\b%s\.swap\(\(?\*this\)?\)|\(\*this\) = " % (re.escape(src), re.escape(src)), fmt(e["expr"])) for _, _, e in f.roots())
            if delegating or whole:
                ctx.ok(rule, f, "takes-over-every-member:%s" % short(f.qual), "delegates the whole object", f)
                continue
            missing = []
            for fl in fields:
                nm = fl["name"]
                if is_assign and (fl.get("ref") or (fl.get("type") or "").startswith("const ")):
                    continue
                if not any(t == nm and re.search(r"\b%s\.%s\b|\b%s->%s\b" % (re.escape(src), re.escape(nm), re.escape(src), re.escape(nm)), r0) for t, r0 in texts):
                    missing.append(nm)
            kind = "move" if (f.flags.get("move_ctor") or f.flags.get("move_assign")) else "copy"
            ctx.check(not missing, rule, f, "takes-over-every-member:%s:%s" % (short(cn), "%s-%s" % (kind, "assign" if is_assign else "ctor")),
                      "the hand-written %s %s of %s does not take over %s from `%s`: %s" % (kind, "assignment" if is_assign else "constructor", short(cn), ", ".join(missing), src, what), f,
                      why_ok="all %d members" % len(fields))
    ctx.need(rule, "hand-written copy / move operations scanned", nops, minimum)


def rule_no_char_index(ctx, rule, scope, what, minimum=1):
    """G-char-index: no array / container element is selected with an index of type plain `char` (or signed char): where char is signed
    (x86-64) every byte >= 0x80 is a negative number, converted to a huge unsigned index - the access lands outside the table."""
    prog = ctx.prog
    nf = 0
    seen = set()

    def plain_char(x):
        x = ir.unwrap(x)
        while isinstance(x, dict) and x.get("k") in ("cast", "paren"):
            to = (x.get("to") or "").replace("const ", "").strip()
            if to in ("unsigned char", "std::uint8_t", "uint8_t", "unsigned int", "std::size_t") and x.get("ck") not in (None, "implicit", "IntegralCast", "LValueToRValue", "NoOp"):
                inner = ir.unwrap(x.get("e"))
                it = ((inner.get("type") if isinstance(inner, dict) else "") or "").replace("const ", "").replace("&", "").strip()
                # static_cast<unsigned char>(c) is the cure; static_cast<size_t>(c) sign-extends first and is not
                return False if to in ("unsigned char", "std::uint8_t", "uint8_t") else (it in ("char", "signed char"))
            x = ir.unwrap(x.get("e"))
        if not isinstance(x, dict):
            return False
        t = (x.get("type") or "").replace("const ", "").replace("&", "").strip()
        if t.endswith("value_type") and x.get("bits") == 8 and not x.get("u"):
            return True
        return t in ("char", "signed char")
    for f in sorted(prog.fns.values(), key=lambda g: g.id):
        if not f.has_cfg or not f.file.startswith("/repo/") or not scope(f):
            continue
        key = (f.file, f.line)
        if key in seen:
            continue
        seen.add(key)
        nf += 1
        for bid, i, e in f.roots():
            for n in walk(e["expr"]):
                idx = None
                if n.get("k") == "subscript":
                    idx = n.get("idx")
                elif n.get("k") == "call" and (short(n.get("name") or "") in ("at", "operator[]") or n.get("op") == "[]") and n.get("this") is not None and len(n.get("args", [])) == 1:
                    bt = (ir.unwrap(n["this"]).get("type") or "") if isinstance(ir.unwrap(n["this"]), dict) else ""
                    if "map" in bt or "set" in bt:
                        continue  # keyed by value, not by position
                    idx = n["args"][0]
                if idx is not None and plain_char(idx):
                    ctx.bad(rule, f, "char-index:%s:%s" % (short(f.qual), fmt(n)[:40]), "%s selects `%s` with an index of type char: %s" % (short(f.qual), fmt(n)[:60], what), (f, n.get("ln")))
    ctx.need(rule, "functions scanned for char-typed indices", nf, minimum)


def bodies_of(prog, qual):
    """the analysable bodies of a function template: its instantiations when there are any (their calls are resolved, `raise` is known not to
    return), the pattern only when nothing instantiates it - whether clang can build a CFG for the pattern depends on how the body is
    spelled (a range-for over a dependent range has none), and that must not change what is analysed"""
    fs = [f for f in prog.find(qual) if f.has_cfg]
    inst = [f for f in fs if not f.is_pattern]
    return inst if inst else fs


def sets_default_flags(txt, stream=None):
    """`s.flags(std::ios_base::skipws | std::ios_base::dec)` on a stream: exactly the flags basic_ios::init gives every freshly constructed
    stream - on a fresh local stream the call changes nothing"""
    m = re.fullmatch(r"\(?(\w+)(?:\.|->)flags\(\(?std::ios_base::(skipws \| std::ios_base::dec|dec \| std::ios_base::skipws)\)?\)\)?", txt.strip())
    return bool(m) and (stream is None or m.group(1) == stream or m.group(1) in stream)
