"""C16 - hashing agrees with equality, and comparison with the member tuple.

R16.1 (A9) each of the six friend operators of tuple_operators<T> returns as_tuple(x) OP as_tuple(y) with its own symbol and
      the operands in parameter order; hash() returns lang::hash(as_tuple(*this)) - computed, never cached; the mix-in has
      no data members.
R16.2 (A5 census on instantiations) in the instantiated call tree of lang::hash(std::tuple<A0..AN-1>) for N = 0..5
      std::get<I> is applied for exactly I = 0..N-1, in increasing order, each result feeding hash() then hash_combine_impl.
R16.3 (A1) hash(pair) seeds with first and combines second; the variant overload hashes the alternative obtained by get_if
      for every index; smart-pointer overloads hash the pointee; hash_wrapper returns hash(t); the scalar overload is exactly
      std::hash<T>()(t); the hashable overload is t.hash().
R16.4 (AST) hash_combine_impl mixes value into seed with seed also appearing shifted (order sensitive, not a plain ^=/+=).
R16.5 (A7) usable as key of lang::unordered_set/map; std_hashable is true for exactly the scalar/string families.
"""
import os
import re

from sa import ir, cfg, witness
from sa.ir import fmt, walk, short
from sa.extract import VERIF
from .common import callgraph, elem_calls

OPS = ["!=", "==", "<", ">", "<=", ">="]
HPP = "/nitro/lang/hash.hpp"


def single_return(f):
    rets = [ir.unwrap(e["expr"].get("e")) for _, _, e in f.roots() if e["expr"].get("k") == "return"]
    return rets[0] if len(rets) == 1 else None


def run(ctx):
    prog = ctx.prog
    cg = callgraph(ctx)
    for r, d in (("R16.1", "comparison operators and hash() derive from as_tuple()"), ("R16.2", "tuple hash visits every element once, in order"),
                 ("R16.3", "pair / variant / pointer / scalar / wrapper overloads"), ("R16.4", "order-sensitive combine"), ("R16.5", "type-level: usable as hash-container key")):
        ctx.rule(r, d)
    witness.apply(ctx, lambda t: "R16.5", os.path.join(VERIF, "witness", "tl_C16.cpp"))
    if ctx.tier == "thorough":
        witness.apply(ctx, lambda t: "R16.5", os.path.join(VERIF, "witness", "tl_C16.cpp"), std="gnu++14", label="gnu++14")

    # ---- R16.1
    top = [f for f in prog.fns.values() if f.has_cfg and f.is_pattern and f.file.endswith("/nitro/lang/tuple_operators.hpp")]
    nops = 0
    for op in OPS:
        fs = [f for f in top if f.op == op and len(f.params) == 2 and f.flags.get("friend")]
        if not fs:
            fs = [f for f in top if f.op == op and len(f.params) == 2]
        if len(fs) != 1:
            ctx.broken("R16.1", "nitro::lang::operator" + op, "anchor", "expected one tuple_operators operator%s, found %d" % (op, len(fs)), "-")
            continue
        nops += 1
        f = fs[0]
        x, y = f.params[0]["name"], f.params[1]["name"]
        r = single_return(f)
        bo = ir.as_binop(r) if r is not None else None
        ok = bo is not None and bo[0] == op and fmt(ir.unwrap(bo[1])) == "as_tuple(%s)" % x and fmt(ir.unwrap(bo[2])) == "as_tuple(%s)" % y
        ctx.check(ok, "R16.1", f, "operator%s-is-tuple-comparison" % op, "operator%s returns %s instead of as_tuple(%s) %s as_tuple(%s)" % (op, fmt(r), x, op, y), f, why_ok=fmt(r))
    ctx.need("R16.1", "comparison operators", nops, 6)
    hs = [f for f in top if f.name == "hash" and (f.cls or "") == "nitro::lang::tuple_operators"]
    ctx.need("R16.1", "tuple_operators::hash", len(hs), 1)
    for f in hs:
        rets = [ir.unwrap(e["expr"].get("e")) for _, _, e in f.roots() if e["expr"].get("k") == "return"]
        ok = len(rets) >= 1 and all(re.fullmatch(r"hash\(as_tuple\((static_cast<const T &>\(\(\*this\)\)|\(\*this\))\)\)", fmt(r)) for r in rets)
        ctx.check(ok, "R16.1", f, "hash-is-hash-of-tuple", "hash() returns %s instead of lang::hash(as_tuple(*this)) on every path: it no longer follows the current members (equal objects can hash differently)"
                  % [fmt(r)[:70] for r in rets], f)
    tc = prog.cls("nitro::lang::tuple_operators")
    if ctx.anchor("R16.1", "nitro::lang::tuple_operators", tc is not None):
        flds = [fl["name"] for fl in tc["fields"]]
        ctx.check(not flds, "R16.1", "nitro::lang::tuple_operators", "mixin-is-stateless", "the mix-in has data members %s: state that does not follow the derived object's members (stale after modification, copied along)" % flds,
                  "%s:%d" % (tc["file"], tc["line"]))

    # ---- R16.2 census
    cells = 0
    for f in sorted(prog.fns.values(), key=lambda f: f.id):
        if not (f.has_cfg and f.flags.get("instantiation") and f.qual == "nitro::lang::hash" and f.params and (f.params[0].get("type") or "").startswith("const std::tuple<")):
            continue
        ta = f.flags.get("template_args", "")
        n = 0 if ta.strip() in ("<>", "") else _count_args(ta)
        seq = []
        cur = f
        guard = 0
        okchain = True
        while cur is not None and guard < 12:
            guard += 1
            nxt = None
            for bid, i, e in cur.roots():
                for nd in walk(e["expr"], into_sc=False):
                    if nd.get("k") == "call" and (nd.get("name") or "") == "std::get":
                        m = re.search(r"#<(\d+)", nd.get("callee") or "")
                        idx = int(m.group(1)) if m else None
                        # the get result must feed hash(...) which feeds hash_combine_impl
                        seq.append(idx)
                    if nd.get("k") == "call" and (nd.get("name") or "") == "nitro::lang::detail::hash_combine_tuple":
                        nxt = prog.fn(nd.get("callee"))
                # shape: hash_combine_impl(seed, hash(get(v)))
                for nd in walk(e["expr"], into_sc=False):
                    if nd.get("k") == "call" and (nd.get("name") or "") == "nitro::lang::detail::hash_combine_impl":
                        a = nd.get("args", [])
                        inner = ir.unwrap(a[1]) if len(a) == 2 else None
                        if not (isinstance(inner, dict) and inner.get("k") == "call" and (inner.get("name") or "") == "nitro::lang::hash" and "get(" in fmt(inner)):
                            okchain = False
            cur = nxt
        cells += 1
        ctx.check(okchain and seq == list(range(n)), "R16.2", f, "census:tuple<%d>" % n,
                  "hash of a %d-tuple visits elements %s (expected %s, each through hash() into hash_combine_impl): a component is skipped, repeated or reordered" % (n, seq, list(range(n))), f,
                  why_ok="get<%s>" % ",".join(map(str, seq)))
    ctx.need("R16.2", "tuple hash instantiations", cells, 6)

    # ---- R16.3
    hp = [f for f in prog.fns.values() if f.has_cfg and f.is_pattern and f.file.endswith(HPP)]
    def pat(pred):
        fs = [f for f in hp if pred(f)]
        return fs[0] if len(fs) == 1 else None
    pf = pat(lambda f: f.qual == "nitro::lang::hash" and f.params and (f.params[0].get("type") or "").startswith("const std::pair<"))
    if ctx.anchor("R16.3", "hash(pair)", pf is not None):
        txt = [fmt(e["expr"]) for _, _, e in pf.roots()]
        # the member hashes may be taken into const locals first (user code runs before the seed is touched): read through them
        consts = {}
        for _, _, e in pf.roots():
            x = e["expr"]
            if x.get("k") == "decl" and len(x.get("vars", [])) == 1:
                v = x["vars"][0]
                if (v.get("type") or "").startswith("const ") and v.get("init") is not None and not (v.get("type") or "").rstrip().endswith("&"):
                    consts[v["name"]] = (fmt(e["expr"]), fmt(ir.unwrap(v["init"])))
        if consts:
            txt2 = []
            for t0 in txt:
                if any(t0 == d for d, _ in consts.values()):
                    continue
                for nm0, (_, init0) in consts.items():
                    t0 = re.sub(r"(?<![\w.])%s(?![\w(])" % re.escape(nm0), init0, t0)
                txt2.append(t0)
            txt = txt2
        p = pf.params[0]["name"]
        ok = len(txt) == 3 and re.fullmatch(r"std::size_t seed = hash\(%s\.first\)" % p, txt[0]) and txt[1] == "hash_combine_impl(seed, hash(%s.second))" % p and txt[2] == "return seed"
        ctx.check(bool(ok), "R16.3", pf, "pair-uses-both-members-in-order", "hash(pair) is %s" % txt, pf)
    for ptr in ("unique_ptr", "shared_ptr"):
        # (every overload for that pointer family - with or without a custom deleter - has to hash the pointee)
        pfs = [f for f in hp if f.qual == "nitro::lang::hash" and f.params and (f.params[0].get("type") or "").startswith("const std::%s<" % ptr)]
        seen_sites = set()
        pfs = [f for f in pfs if (f.file, f.line) not in seen_sites and not seen_sites.add((f.file, f.line))]
        if ctx.anchor("R16.3", "hash(%s)" % ptr, bool(pfs)):
            for k0, f in enumerate(sorted(pfs, key=lambda g: g.line)):
                r = single_return(f)
                ctx.check(fmt(r) == "hash((*%s))" % f.params[0]["name"], "R16.3", f, "pointer-hashes-pointee:" + ptr + ("" if k0 == 0 else "#%d" % (k0 + 1)), "hash(%s) returns %s instead of the hash of the pointee (equal values behind different pointers would differ)" % (ptr, fmt(r)), f)
    hw = pat(lambda f: (f.cls or "") == "nitro::lang::hash_wrapper" and f.op == "()")
    if ctx.anchor("R16.3", "hash_wrapper::operator()", hw is not None):
        r = single_return(hw)
        ctx.check(fmt(r) == "hash(%s)" % hw.params[0]["name"], "R16.3", hw, "wrapper-delegates", "hash_wrapper returns %s" % fmt(r), hw)
    # the two generic overloads hash(const T&) are told apart by what is instantiated from them, not by the spelling of their constraint
    # (an alias template for the enable_if return type leaves the overload set as it is): the one the arithmetic / string instantiations
    # come from is the scalar overload, the other one is the overload for classes tagged hashable
    generic = [f for f in hp if f.qual == "nitro::lang::hash" and len(f.params) == 1 and re.fullmatch(r"const \w+ &", f.params[0].get("type") or "")]
    def _origin(f):
        return f.flags.get("instantiation_of")
    _sc_origins = {_origin(f) for f in prog.fns.values() if f.has_cfg and f.flags.get("instantiation") and f.qual == "nitro::lang::hash" and len(f.params) == 1
                   and re.fullmatch(r"const (bool|char|int|unsigned int|long|unsigned long|float|double|long double|std::basic_string<char>) &", f.params[0].get("type") or "")}
    _hb = [f for f in generic if f.id not in _sc_origins]
    hb = _hb[0] if len(generic) == 2 and len(_hb) == 1 else pat(lambda f: f.qual == "nitro::lang::hash" and "is_base_of<hashable" in f.id)
    if ctx.anchor("R16.3", "hash(hashable)", hb is not None):
        r = single_return(hb)
        ctx.check(fmt(r) == "%s.hash()" % hb.params[0]["name"], "R16.3", hb, "hashable-delegates", "hash(hashable) returns %s" % fmt(r), hb)
    # scalar overload: on instantiations, exactly std::hash<T>()(t)
    SCALAR = re.compile(r"^<(bool|char|signed char|unsigned char|wchar_t|char16_t|char32_t|short|unsigned short|int|unsigned int|long|unsigned long|long long|unsigned long long|float|double|long double|std::basic_string<.*>)>$")
    def scalar_param(f):
        t = (f.params[0].get("type") or "")
        m = re.fullmatch(r"const (.*) &", t)
        return bool(m) and SCALAR.match("<" + m.group(1).strip() + ">") is not None
    sc = [f for f in prog.fns.values() if f.has_cfg and f.flags.get("instantiation") and f.qual == "nitro::lang::hash" and len(f.params) == 1 and scalar_param(f)]
    ctx.need("R16.3", "scalar hash instantiations", len(sc), 3)
    _scp = [f for f in generic if f.id in _sc_origins]
    scp = _scp[0] if len(generic) == 2 and len(_scp) == 1 else pat(lambda f: f.qual == "nitro::lang::hash" and "std_hashable" in f.id)
    ctx.anchor("R16.3", "hash(scalar) pattern", scp is not None)
    seen_t = set()
    for f in sc:
        r = single_return(f)
        ok = isinstance(r, dict) and r.get("k") == "call" and r.get("op") == "()" and (r.get("name") or "").startswith("std::hash<") and fmt(r.get("args", [None])[0]) == f.params[0]["name"] \
            and isinstance(ir.unwrap(r.get("this")), dict) and ir.unwrap(r.get("this")).get("k") == "construct"
        t = f.flags.get("template_args", "")
        if t in seen_t:
            continue
        seen_t.add(t)
        ctx.check(bool(ok), "R16.3", f, "scalar-is-std-hash:" + t, "hash(%s) returns %s instead of std::hash<T>()(t): values that compare equal (e.g. +0.0 and -0.0) need not hash equal any more" % (t, fmt(r)), f)
    if scp is not None:
        body = [fmt(e["expr"]) for _, _, e in scp.roots()]
        pn0 = scp.params[0]["name"] if scp.params else "t"
        ctx.check(len(body) == 1 and body[0] in ("return ?(%s)" % pn0, "return hash{}(%s)" % pn0), "R16.3", scp, "scalar-pattern-single-delegation", "the scalar overload's body is %s" % body, scp)
    # every overload with this signature family is a known one: any extra hash overload for arithmetic types is suspicious
    known = 0
    for f in hp:
        if f.qual == "nitro::lang::hash":
            known += 1
    ctx.check(known <= 8, "R16.3", "nitro::lang::hash", "overload-set-closed", "there are %d hash overload patterns (expected at most 8): a new overload may bypass std::hash for some type" % known, "-")
    # variant census (C++17 units)
    vcells = 0
    for f in sorted(prog.fns.values(), key=lambda f: f.id):
        if f.has_cfg and f.flags.get("instantiation") and f.qual == "nitro::lang::hash" and f.params and (f.params[0].get("type") or "").startswith("const std::variant<"):
            n = _count_args(f.flags.get("template_args", ""))
            seq = []
            cur = f
            guard = 0
            while cur is not None and guard < 12:
                guard += 1
                nxt = None
                for bid, i, e in cur.roots():
                    for nd in walk(e["expr"]):
                        if nd.get("k") == "call" and (nd.get("name") or "") == "std::get_if":
                            m = re.search(r"#<(\d+)", nd.get("callee") or "")
                            seq.append(int(m.group(1)) if m else None)
                        if nd.get("k") == "call" and (nd.get("name") or "") == "nitro::lang::detail::hash_combine_variant" and nd.get("callee") != cur.id:
                            nxt = prog.fn(nd.get("callee"))
                cur = nxt
            vcells += 1
            # the other form: std::visit dispatches on the held alternative - every alternative is covered by construction. It throws
            # std::bad_variant_access for a variant without a value (equal to every other such variant, so it has to hash, too): the
            # call is only reached under !valueless_by_exception(), and every instantiation of the visitor combines hash(alternative)
            visits = [(bid, nd) for bid, i, e in f.roots() for nd in walk(e["expr"]) if nd.get("k") == "call" and (nd.get("name") or "") == "std::visit"]
            if not seq and len(visits) == 1:
                vb, vn = visits[0]
                pn = f.params[0]["name"]
                guarded = bool(cfg.dominated_by_edge(f, vb, lambda c, pn=pn: fmt(c) == "%s.valueless_by_exception()" % pn, label="false"))
                ctx.check(guarded, "R16.3", f, "visit-not-on-valueless:variant<%d>" % n, "hash(variant) reaches std::visit without `!%s.valueless_by_exception()`: a variant that lost its value in a throwing assignment "
                          "still compares equal to another such variant, but hashing it throws std::bad_variant_access (insert / find in an unordered container fail)" % pn, (f, vn.get("ln")))
                lam = ir.unwrap(vn["args"][0]) if vn.get("args") else None
                bodies = [prog.fn(b) for b in (lam.get("bodies") or [])] if isinstance(lam, dict) and lam.get("k") == "lambda" else []
                okb = len(bodies) == n and all(b is not None and b.has_cfg and any(
                    nd.get("k") == "call" and (nd.get("name") or "").endswith("hash_combine_impl") and len(nd.get("args", [])) == 2 and fmt(ir.unwrap(nd["args"][1])) == "hash(%s)" % b.params[0]["name"]
                    for _, _, e in b.roots() for nd in walk(e["expr"])) for b in bodies)
                ctx.check(okb, "R16.3", f, "census:variant<%d>" % n, "the visitor of hash(variant) has %d instantiation(s) for %d alternatives, or one of them does not combine hash(alternative) into the seed" % (len(bodies), n), (f, vn.get("ln")),
                          why_ok="std::visit over %d alternatives, each combined" % n)
                continue
            ctx.check(seq == list(range(n)), "R16.3", f, "census:variant<%d>" % n, "hash of a %d-alternative variant probes alternatives %s (expected %s)" % (n, seq, list(range(n))), f)
    ctx.need("R16.3", "variant hash instantiations", vcells, 1)

    # ---- R16.4
    hc = pat(lambda f: f.qual == "nitro::lang::detail::hash_combine_impl")
    if ctx.anchor("R16.4", "hash_combine_impl", hc is not None):
        seed, value = hc.params[0]["name"], hc.params[1]["name"]
        exprs = [e["expr"] for _, _, e in hc.roots()]
        ok = False
        why = "no compound assignment to the seed"
        for x in exprs:
            if x.get("k") == "bin" and x["op"] in ("^=", "+=", "=") and fmt(x["l"]) == seed:
                rhs = fmt(x["r"])
                shifted = re.search(r"\(%s (<<|>>) \d+\)" % seed, rhs) is not None
                uses_value = re.search(r"\b%s\b" % value, rhs) is not None
                ok = shifted and uses_value
                why = "the combine step `%s` does not mix the value with a shifted seed (a plain ^=/+= is commutative: swapping components would not change the hash)" % fmt(x)
        ctx.check(ok, "R16.4", hc, "order-sensitive-combine", why, hc)
    ctx.rule("R16.6", "the hash functions are functions of their argument alone: no function-local static / thread_local object (seed, cache) on the hashing path")
    from .common import rule_no_static_state
    rule_no_static_state(ctx, "R16.6", lambda f: f.file.endswith(("lang/hash.hpp", "lang/tuple_operators.hpp", "lang/unordered.hpp")),
                         "equal values hash differently in different threads / runs of the function, so a container filled by one thread misses every key when queried by another", minimum=6)
    ctx.rule("R16.7", "a std fold on the hashing path starts from a std::size_t: the accumulator has the start value's type, an int start cuts every intermediate seed to 32 bits (and the boost-style combine shifts/adds a negative int)")
    # ---- R16.8: a component is hashed in its own type. An explicit cast of (something computed from) a hash() parameter into a fixed arithmetic
    # type cuts the component: an enumeration with a 64-bit underlying type forced through int loses every bit from 32 upwards
    ctx.rule("R16.8", "no hash() overload casts its argument into a fixed arithmetic type before hashing it (the hash depends on the whole component)")
    ARITH = re.compile(r"^(const )?(bool|char|signed char|unsigned char|short|unsigned short|int|unsigned int|unsigned|long|unsigned long|long long|unsigned long long|float|double|long double|std::u?int\d+_t|u?int\d+_t)$")
    ncast = 0
    seen_h = set()
    for f in sorted(prog.fns.values(), key=lambda g: g.id):
        if not (f.has_cfg and f.file.endswith(HPP) and f.is_pattern and f.qual == "nitro::lang::hash" and f.params) or (f.file, f.line) in seen_h:
            continue
        seen_h.add((f.file, f.line))
        pnames = {p0.get("name") for p0 in f.params}
        for _, _, e in f.roots():
            for n in walk(e["expr"]):
                if isinstance(n, dict) and n.get("k") == "cast" and n.get("ck") in ("static", "c", "functional", "reinterpret") and ARITH.match((n.get("to") or n.get("type") or "").strip()):
                    inner = ir.unwrap(n.get("e"))
                    while isinstance(inner, dict) and inner.get("k") == "paren" and isinstance(inner.get("e"), dict):
                        inner = ir.unwrap(inner["e"])
                    truth = isinstance(inner, dict) and ((inner.get("k") == "bin" and inner.get("op") in ("==", "!=", "<", ">", "<=", ">=", "&&", "||")) or (inner.get("k") == "un" and inner.get("op") == "!")
                                                        or (inner.get("k") == "call" and inner.get("op") in ("==", "!=", "<", ">", "<=", ">=")))
                    if truth or (n.get("to") or n.get("type") or "").replace("const ", "").strip() == "bool" and truth:
                        continue  # a truth value computed from the argument (the condition of an assert) is not the component
                    if any(isinstance(m, dict) and m.get("k") == "ref" and str(m.get("decl", "")).split(":", 1)[-1] in pnames for m in walk(n.get("e") or {})):
                        ncast += 1
                        ctx.bad("R16.8", f, "component-cast:%s" % fmt(n)[:50], "%s hashes `%s`: the component is converted to %s first - values that differ only in what that type cannot hold "
                                "hash alike (systematic collisions), the hash no longer depends on the whole component" % (f.id[:80], fmt(n)[:60], n.get("to") or n.get("type")), (f, n.get("ln")))
    ctx.ok("R16.8", "-", "no-component-cast:scanned", "%d hash overload pattern(s)" % len(seen_h), "-")
    ctx.need("R16.8", "hash overload patterns", len(seen_h), 6)
    from .common import rule_fold_keeps_width
    rule_fold_keeps_width(ctx, "R16.7", lambda f: f.file.endswith(("lang/hash.hpp", "lang/tuple_operators.hpp")),
                          "tuples that differ in a leading component only hash alike far more often than std::size_t allows, and on a platform where the cut value is "
                          "negative the result differs from hashing the same components one by one (pair vs. 2-tuple)", minimum=6)
    ctx.assume("collision frequency and the numeric quality of std::hash are not decided; hashing of floating-point signed zeros is delegated to std::hash")
    ctx.trust("std::tuple's relational operators are lexicographic and form a strict weak order when the element operators do (Appendix D.6)")


def _count_args(ta):
    s = ta.strip()
    if s.startswith("<") and s.endswith(">"):
        s = s[1:-1]
    if not s.strip():
        return 0
    depth = 0
    n = 1
    for c in s:
        if c in "<(":
            depth += 1
        elif c in ">)":
            depth -= 1
        elif c == "," and depth == 0:
            n += 1
    return n
