"""C10 - a disabled log statement costs nothing and evaluates nothing lazily.

R10.1 (A7) for each of the 6 compile-time minima and each of the 6 statement severities: decltype(logger::sev()) is
      detail::null_stream iff sev < minimum, otherwise smart_stream<..., sev>; plus the ordering chain of the enumerators.
R10.2 (AST) both null_stream operator<< overloads never reference their second parameter and return the stream.
R10.3 (A2/A1) in both callable overloads for smart_stream the invocation t() is dominated by `if (s)` and occurs exactly
      once on every path where s holds, zero times otherwise; no overload forwards t to another overload unguarded;
      callables and plain values each have exactly one viable overload (must-compile, no ambiguity).
R10.4 (A5/A1) formatter and sink are unreachable when the filter rejects: the constructor asks logger::will_log exactly
      once on every path, creates the buffer only on its true edge and releases the record on the false edge; the
      destructor emits only under `if (r)`; Sink::sink / Formatter::format are called only from logger::log and
      logger::log only from ~smart_stream.
"""
import os
import re

from sa import ir, cfg, witness
from sa.ir import fmt, walk, short
from sa.extract import VERIF
from .common import callgraph, elem_calls, tree_effects

SEVS = ["trace", "debug", "info", "warn", "error", "fatal"]
SS = "nitro::log::detail::smart_stream"
STREAM_HPP = "/nitro/log/stream.hpp"


def calls_of_param(f, pname):
    """[(bid, idx, node)] invocations pname(...) of a parameter"""
    out = []
    for bid, i, e in f.roots():
        for n in walk(e["expr"], into_sc=False):
            if n.get("k") == "call":
                fn = n.get("fn") or (n.get("this") if n.get("op") == "()" else None)
                fu = ir.unwrap(fn) if fn is not None else None
                if isinstance(fu, dict) and fu.get("k") == "ref" and fu.get("decl") == "param:" + pname:
                    out.append((bid, i, e, n))
    return out


def guarded_by_stream(f, bid, sname):
    """block is dominated by the true edge of `if (s)` (operator bool of the stream parameter)"""
    def is_s(c):
        s = fmt(c)
        return s in (sname, "%s.operator bool()" % sname, "static_cast<bool>(%s)" % sname, "bool(%s)" % sname)
    return bool(cfg.dominated_by_edge(f, bid, is_s))


def run(ctx):
    prog = ctx.prog
    cg = callgraph(ctx)
    for r, d in (("R10.1", "type of logger::sev() per (severity, compile-time minimum) cell"), ("R10.2", "null_stream discards its operand unevaluated"),
                 ("R10.3", "streamed callables run exactly once, only on an active stream"), ("R10.4", "filter decides once; nothing reaches formatter/sink when it rejects")):
        ctx.rule(r, d)

    # ---- R10.1
    wp = os.path.join(VERIF, "witness", "tl_C10.cpp")
    minima = list(range(6)) if ctx.tier == "thorough" else [0, 1, 2, 5]
    cells = 0
    for i in minima:
        res = witness.apply(ctx, lambda t: "R10.3" if (t or "").startswith("m") else ("R10.4" if (t or "").startswith("a") else "R10.1"), wp,
                            defines=("NITRO_LOG_MIN_SEVERITY=" + SEVS[i], "VERIF_MIN_IDX=%d" % i), label="min=" + SEVS[i])
        cells += len(res["tags"])
        if ctx.tier == "thorough":
            witness.apply(ctx, lambda t: "R10.3" if (t or "").startswith("m") else "R10.1", wp, compiler="g++",
                          defines=("NITRO_LOG_MIN_SEVERITY=" + SEVS[i], "VERIF_MIN_IDX=%d" % i), label="g++ min=" + SEVS[i])
    ctx.need("R10.1", "witness cells", cells, 24 * len(minima) // 2)
    # ---- R10.6: the minimum in force is the one defined where log.hpp is included (include-order witness)
    ctx.rule("R10.6", "include-order witness (witness/tl_C10_order.cpp): with attribute / filter / sink headers included first and NITRO_LOG_MIN_SEVERITY (re)defined just before log.hpp, "
                      "the statements below that minimum are the discarding stream type")
    wo = os.path.join(VERIF, "witness", "tl_C10_order.cpp")
    ro = witness.apply(ctx, lambda t: "R10.6", wo, label="order")
    ctx.need("R10.6", "include-order cells", len(ro["tags"]), 7)
    if ctx.tier == "thorough":
        witness.apply(ctx, lambda t: "R10.6", wo, compiler="g++", label="g++ order")
    ctx.tables["minima_compiled"] = [SEVS[i] for i in minima]

    # ---- R10.5: the statement writes its severity (and tag) into every record layout that has the attribute
    ctx.rule("R10.5", "instantiation census: for every record layout of the witness unit that has a severity attribute the smart_stream constructor reaches an assignment to r.severity(), "
                      "for every layout with a tag attribute one to r.tag() - the runtime filter judges the statement's own severity, not what the fresh record happens to hold")
    ninst = 0
    for g in sorted(prog.fns.values(), key=lambda x: x.id):
        if not (g.has_cfg and g.kind == "ctor" and (g.cls or "").startswith("nitro::log::detail::smart_stream<") and not g.is_pattern and not g.flags.get("move_ctor") and not g.flags.get("copy_ctor")):
            continue
        rec = (g.cls or "")
        reach = cg.reachable([g.id])
        wrote = set()
        for fid in reach:
            h = prog.fn(fid)
            if h is None or not h.has_cfg:
                continue
            for _, _, e in h.roots():
                for n in walk(e["expr"]):
                    lhs = None
                    if n.get("k") == "bin" and n.get("op") == "=":
                        lhs = ir.unwrap(n["l"])
                    elif n.get("k") == "call" and n.get("op") == "=" and n.get("this") is not None:
                        lhs = ir.unwrap(n["this"])
                    if isinstance(lhs, dict) and lhs.get("k") == "call" and short(lhs.get("name") or "") in ("severity", "tag") and not lhs.get("args"):
                        wrote.add(short(lhs["name"]))
        for attr, acc in (("severity_attribute", "severity"), ("tag_attribute", "tag")):
            if attr in rec:
                ninst += 1
                layout = rec[rec.index("record<"):][:90] if "record<" in rec else rec[:90]
                ctx.check(acc in wrote, "R10.5", g, "statement-sets-%s:%s" % (acc, layout), "the smart_stream constructor for the record layout %s never reaches an assignment to r.%s(): the attribute keeps whatever the "
                          "fresh record holds%s" % (layout, acc, ", the runtime threshold is compared with an indeterminate severity" if acc == "severity" else ""), g, why_ok="reaches r.%s() = ..." % acc)
    ctx.need("R10.5", "attribute obligations over the instantiated record layouts", ninst, 4)
    fns = [f for f in prog.fns.values() if f.has_cfg and f.file.endswith(STREAM_HPP)]
    # ---- R10.2
    nulls = [f for f in fns if f.is_pattern and f.op == "<<" and f.params and "null_stream" in (f.params[0].get("type") or "")]
    ctx.need("R10.2", "null_stream operator<< overloads", len(nulls), 2)
    for f in nulls:
        p0 = f.params[0]["name"]
        p1 = f.params[1]["name"] if len(f.params) > 1 else ""
        used = False
        ncalls = 0
        for bid, i, e in f.roots():
            for n in walk(e["expr"]):
                if p1 and n.get("k") == "ref" and n.get("decl") == "param:" + p1:
                    used = True
                if n.get("k") == "call":
                    ncalls += 1
        rets = [ir.unwrap(e["expr"].get("e")) for _, _, e in f.roots() if e["expr"].get("k") == "return"]
        okret = bool(rets) and all(fmt(r) in (p0, "null_stream{%s}" % p0, "move(%s)" % p0) for r in rets)
        tag = "rvalue" if "&&" in (f.params[0].get("type") or "") else "lvalue"
        ctx.check(not used and ncalls == 0, "R10.2", f, "operand-untouched:" + tag, "the discarding operator<< %s its operand: a disabled statement still evaluates something" % ("uses" if used else "calls a function with"), f)
        ctx.check(okret, "R10.2", f, "returns-stream:" + tag, "the discarding operator<< returns %s" % [fmt(r) for r in rets], f)
        # ... and is not even copied: the operand is bound by reference (a by-value parameter of class type runs the user's copy
        # constructor and destructor for a statement that is compiled out - and lets their exceptions escape from it)
        if len(f.params) > 1:
            pt = (f.params[1].get("type") or "").strip()
            nocopy = pt.endswith("&") or bool(f.params[1].get("bits")) or pt.endswith("*") or "(*)" in pt or pt in ("bool", "double", "float", "long double", "char")
            ctx.check(nocopy, "R10.2", f, "operand-not-copied:" + tag, "the discarding operator<< takes its operand as `%s`, by value: every named operand of class type (a functor with captures, "
                      "a streamable user value) is copy-constructed and destroyed per insertion of a compiled-out statement" % pt, f, why_ok=pt)

    # ---- R10.3: the insertion gate `if (s)` means exactly "the statement was accepted" - the same condition the destructor emits under
    gate = [f for f in fns if f.is_pattern and f.cls == SS and (f.kind == "conversion" or f.name == "operator bool")]
    ctx.need("R10.3", "smart_stream::operator bool", len(gate), 1)
    for f in gate:
        from sa import logic as _lg
        lgc = _lg.Logic(prog, callgraph(ctx))
        form = lgc.fn_formula(f, {"this": None, "params": {}})
        if form is None:
            ctx.broken("R10.3", f, "gate-means-accepted", "operator bool of the stream is not a loop-free predicate", f)
            continue
        want = [("a", "nonnull(this.s)"), ("a", "nonnull(this.r)")]
        eqv = any(_lg.equivalent(form, w, lgc.axioms) for w in want)
        ctx.check(eqv, "R10.3", f, "gate-means-accepted", "operator bool is %s, not `the message buffer exists`: insertions (and the lazily streamed callables among them) are skipped under a "
                  "condition under which the record is nevertheless emitted - an emitted record then did not evaluate its callable" % _lg.show(form), f, why_ok=_lg.show(form))
    ops = [f for f in fns if f.is_pattern and f.op == "<<" and f.params and "smart_stream" in (f.params[0].get("type") or "")]
    ctx.need("R10.3", "smart_stream operator<< overloads", len(ops), 4)
    ncallable = 0
    for f in ops:
        sname = f.params[0]["name"]
        tname = f.params[1]["name"]
        ttype = f.params[1].get("type") or ""
        tag = ("rvalue" if "&&" in (f.params[0].get("type") or "") else "lvalue") + (":callable" if ttype == "T" else ":value")
        invs = calls_of_param(f, tname)
        is_callable_overload = ttype == "T"  # taken by value: the lazy-callable overloads
        if is_callable_overload:
            ncallable += 1
        # uses of t: any reference to the parameter
        refs = []
        for bid, i, e in f.roots():
            for n in walk(e["expr"], into_sc=False):
                if n.get("k") == "ref" and n.get("decl") == "param:" + tname:
                    refs.append((bid, i, e))
        for (bid, i, e, n) in invs:
            ctx.check(guarded_by_stream(f, bid, sname), "R10.3", f, "callable-invoked-only-when-active:" + tag,
                      "`%s()` is invoked at line %s outside `if (%s)`: a statement rejected by the filter still evaluates its lazy callable" % (tname, n.get("ln"), sname), (f, n.get("ln")))
        if is_callable_overload:
            ctx.check(len(invs) >= 1, "R10.3", f, "callable-invoked:" + tag, "the callable overload never invokes `%s`" % tname, f)
            # at most once per path: no path from one invocation to another
            twice = False
            for (bid, i, e, n) in invs:
                if cfg.reaches_without(f, (bid, i), lambda x: any(x is t[2] for t in invs), lambda x: False) is not None:
                    twice = True
                if sum(1 for t in invs if t[2] is e) > 1:
                    twice = True
            ctx.check(not twice, "R10.3", f, "callable-invoked-once:" + tag, "`%s()` can be invoked more than once for one insertion" % tname, f)
            # on every path where s holds the invocation happens
            if invs:
                def is_s(c, sname=sname):
                    return fmt(c) in (sname, "%s.operator bool()" % sname)
                missing = cfg.reaches_without(f, (f.entry, -1), cfg.EXIT, lambda x: any(x is t[2] for t in invs),
                                              edge_ok=lambda b, to, lab, f=f, is_s=is_s: not (f.term(b).get("cond") is not None and is_s(f.term(b)["cond"]) and lab == "false"))
                ctx.check(missing is None, "R10.3", f, "callable-invoked-when-active:" + tag, "an active stream can skip the invocation of the streamed callable", f)
        # every other use of t (forwarding to another operator<<, passing it on) must be guarded as well
        for (bid, i, e) in refs:
            if any(e is t[2] for t in invs):
                continue
            # handing the operand on to another operator<< of the same stream evaluates nothing here (that overload has its own guard)
            x = ir.unwrap(e["expr"].get("e") if e["expr"].get("k") == "return" else e["expr"])
            bo = ir.as_binop(x) if isinstance(x, dict) else None
            if bo and bo[0] == "<<" and fmt(ir.unwrap(bo[1])) in (sname, "move(%s)" % sname) and fmt(ir.unwrap(bo[2])) in (tname, "move(%s)" % tname, "forward(%s)" % tname):
                continue
            ctx.check(guarded_by_stream(f, bid, sname), "R10.3", f, "operand-used-only-when-active:" + tag,
                      "the streamed operand `%s` is used at line %s outside `if (%s)`" % (tname, e.get("ln"), sname), (f, e.get("ln")))
        # the stream write itself under if (s)
        for bid, i, e in f.roots():
            for n in walk(e["expr"], into_sc=False):
                if n.get("k") == "call" and short(n.get("name") or "") == "sstr":
                    ctx.check(guarded_by_stream(f, bid, sname), "R10.3", f, "buffer-used-only-when-active:" + tag, "sstr() is dereferenced outside `if (%s)` (null buffer when the filter rejected)" % sname, (f, n.get("ln")))
    ctx.need("R10.3", "lazy-callable overloads", ncallable, 2)

    # ---- R10.4 on the smart_stream pattern
    ctor = [f for f in fns if f.is_pattern and f.kind == "ctor" and f.cls == SS and not f.flags.get("move_ctor") and not f.flags.get("copy_ctor")]
    dtor = [f for f in fns if f.is_pattern and f.kind == "dtor" and f.cls == SS]
    ctx.need("R10.4", "smart_stream(tag) constructor", len(ctor), 1)
    ctx.need("R10.4", "smart_stream destructor", len(dtor), 1)
    for f in ctor:
        is_wl = lambda e: any(short(n.get("name") or "") == "will_log" for n in elem_calls(e))
        wl = cfg.find_elems(f, is_wl)
        ok, path = cfg.must_happen_before_exit(f, is_wl)
        ctx.check(ok and len(wl) >= 1, "R10.4", f, "filter-consulted-on-every-path",
                  "a path through the stream constructor (B%s) does not ask logger::will_log: the configured runtime filter is bypassed for that statement" % "->B".join(map(str, path or [])), f)
        # the filter judges the record as the statement wrote it: everything the constructor puts into the record (tag,
        # severity, ...) is in place before will_log is asked - no record attribute is set after the verdict
        def mutates_record(e):
            for n in elem_calls(e):
                if short(n.get("name") or "") == "will_log":
                    continue
                for a in n.get("args", []):
                    if fmt(ir.unwrap(a)) in ("(*r)", "r.operator*()", "*r"):
                        return True
                th = n.get("this")
                if th is not None and fmt(ir.unwrap(th)) in ("(*r)", "r") and n.get("arrow") and short(n.get("name") or "") not in ("reset", "get", "operator bool"):
                    return True
            return False
        late = []
        for (b, i, e) in wl:
            for (b2, i2, e2) in cfg.find_elems(f, mutates_record):
                if (b2, i2) != (b, i) and cfg.reaches_without(f, (b, i), lambda x, t=e2: x is t, lambda x: False) is not None:
                    late.append(e2)
        ctx.check(not late, "R10.4", f, "filter-sees-complete-record",
                  "the record is still being filled in after will_log was asked (%s): a filter that looks at that attribute judges an incomplete record, so statements it must reject are "
                  "accepted and formatted" % ", ".join("line %s: %s" % (x.get("ln"), x.get("text", "")[:50]) for x in late), f)
        twice = any(cfg.reaches_without(f, (b, i), is_wl, lambda x: False) is not None for (b, i, e) in wl)
        ctx.check(not twice, "R10.4", f, "filter-consulted-once", "will_log can be evaluated twice for one statement", f)
        # the buffer is created only under will_log true; the record is released under false
        def is_wlc(c):
            n = ir.unwrap(c)
            return isinstance(n, dict) and n.get("k") == "call" and short(n.get("name") or "") == "will_log"
        nbuf = 0
        for bid, i, e in f.roots():
            for n in walk(e["expr"], into_sc=False):
                if n.get("k") == "call" and short(n.get("name") or "") in ("reset", "operator=") and fmt(n.get("this")) == "s" and n.get("args"):
                    nbuf += 1
                    ctx.check(bool(cfg.dominated_by_edge(f, bid, is_wlc, "true")), "R10.4", f, "buffer-only-when-accepted", "the message buffer is created outside the true edge of will_log", (f, n.get("ln")))
                if n.get("k") == "bin" and n["op"] == "=" and fmt(n["l"]) == "s":
                    nbuf += 1
                    ctx.check(bool(cfg.dominated_by_edge(f, bid, is_wlc, "true")), "R10.4", f, "buffer-only-when-accepted", "the message buffer is created outside the true edge of will_log", (f, n.get("ln")))
        # s must not be initialised non-empty
        for _, _, e in f.all_elems():
            if e["kind"] == "init" and short(e.get("field") or "") == "s":
                x = ir.unwrap(e["expr"])
                empty = isinstance(x, dict) and ((x.get("k") == "construct" and not [a for a in x.get("args", []) if a.get("k") != "defarg"]) or (x.get("k") == "lit" and x.get("t") == "null") or x.get("k") in ("value_init",))
                ctx.check(empty, "R10.4", f, "buffer-starts-empty", "the buffer member is initialised with %s before the filter was asked" % fmt(x), f)
        ctx.need("R10.4", "buffer creation sites", nbuf, 1)
        # on the false edge r is released: every path that takes the false edge resets r
        released = lambda e: any(n.get("k") == "call" and short(n.get("name") or "") in ("reset", "release") and fmt(n.get("this")) == "r" and not [a for a in n.get("args", []) if a.get("k") != "defarg"] for n in elem_calls(e))
        # ... or r never held the record on that path: it starts empty (the record is prepared under a local owner that releases it at the end
        # of the constructor) and receives the record only behind the true edge
        r_empty = False
        for _, _, e0 in f.all_elems():
            if e0["kind"] == "init" and short(e0.get("field") or "") == "r":
                x0 = ir.unwrap(e0["expr"])
                r_empty = isinstance(x0, dict) and ((x0.get("k") == "construct" and not [a for a in x0.get("args", []) if a.get("k") != "defarg"]) or (x0.get("k") == "lit" and x0.get("t") == "null") or x0.get("k") in ("value_init",)
                                                      or (x0.get("k") in ("paren_list", "init_list") and not x0.get("elems")))

        def takes_record(e0):
            x0 = e0.get("expr")
            if not isinstance(x0, dict):
                return False
            for n0 in walk(x0, into_sc=False):
                if n0.get("k") == "bin" and n0.get("op") == "=" and fmt(n0["l"]) == "r":
                    return True
                if n0.get("k") == "call" and fmt(n0.get("this")) == "r" and (n0.get("op") == "=" or short(n0.get("name") or "") in ("operator=", "swap") or (short(n0.get("name") or "") == "reset" and [a for a in n0.get("args", []) if a.get("k") != "defarg"])):
                    return True
            return False
        for (b, i, e) in wl:
            _, neg = cfg.strip_not(f.term(b).get("cond")) if f.term(b).get("cond") is not None else (None, False)
            for to, lab in f.succs(b):
                if lab == ("true" if neg else "false"):
                    p = cfg.reaches_without(f, (to, -1), cfg.EXIT, released)
                    if p is not None and r_empty and cfg.reaches_without(f, (to, -1), takes_record, lambda x: False) is None \
                            and cfg.reaches_without(f, (f.entry, -1), takes_record, lambda x, b=b, i=i, e=e: x is e) is None:
                        p = None
                    ctx.check(p is None, "R10.4", f, "record-released-when-rejected", "when will_log returns false the record is kept: the destructor would format and emit it", f)
    for f in dtor:
        logs = []
        for bid, i, e in f.roots():
            for n in elem_calls(e):
                if short(n.get("name") or "") == "log":
                    logs.append((bid, i, e, n))
        ctx.check(len(logs) == 1, "R10.4", f, "emits-once", "the destructor calls logger::log %d times" % len(logs), f)
        for (bid, i, e, n) in logs:
            okg = bool(cfg.dominated_by_edge(f, bid, lambda c: fmt(c) in ("r", "r.operator bool()", "(r != nullptr)", "static_cast<bool>(r)")))
            ctx.check(okg, "R10.4", f, "emits-only-with-record", "logger::log is reached without the `if (r)` test: a rejected or moved-from stream object would emit", (f, n.get("ln")))
        # ... and whenever the record exists: the only way around logger::log is the "no record" edge
        is_r = lambda c: fmt(c) in ("r", "r.operator bool()", "(r != nullptr)", "static_cast<bool>(r)")

        def no_record_edge(b, to, lab, f=f):
            c = f.term(b).get("cond")
            if c is None:
                return True
            c2, neg = cfg.strip_not(c)
            if is_r(c2):
                return lab != ("true" if neg else "false")  # do not follow the edge on which there is no record
            return True
        is_log = lambda e: any(short(n.get("name") or "") == "log" for n in elem_calls(e))
        oka, path = cfg.must_happen_before_exit(f, is_log, edge_ok=no_record_edge)
        ctx.check(oka, "R10.4", f, "emits-whenever-record", "the destructor can return (B%s) with a record in hand and without calling logger::log: an accepted statement is dropped on that path "
                  "(a condition other than `is there a record` decides about emission)" % "->B".join(map(str, path or [])), f)
    # who may call
    lg_fns = [f for f in prog.fns.values() if f.has_cfg and f.is_pattern and f.file.endswith("/nitro/log/logger.hpp")]
    logf = [f for f in lg_fns if f.name == "log"]
    ctx.need("R10.4", "logger::log pattern", len(logf), 1)
    callers = {"log": set(), "will_log": set(), "sink": set(), "format": set()}
    for f in prog.fns.values():
        if not f.has_cfg or not f.is_pattern or not f.file.startswith("/repo/include/nitro/log/"):
            continue
        for bid, i, e in f.roots():
            for n in walk(e["expr"]):
                if n.get("k") == "call":
                    nm = short(n.get("name") or "")
                    if nm in callers and (n.get("name") or "").split("::")[0] not in ("std",):
                        if nm in ("sink", "format") and f.file.endswith("/sink/sequence.hpp"):
                            continue  # the sequence sink fans out to member sinks: it *is* a sink
                        callers[nm].add("%s::%s" % (f.cls or "", {"ctor": "<ctor>", "dtor": "<dtor>"}.get(f.kind, f.name)) if f.cls else f.qual)
    ctx.check(callers["log"] <= {SS + "::<dtor>"}, "R10.4", "nitro::log::logger::log", "only-destructor-emits", "logger::log is called from %s" % sorted(callers["log"]), "-")
    ctx.check(callers["will_log"] <= {SS + "::<ctor>"}, "R10.4", "nitro::log::logger::will_log", "only-constructor-filters", "logger::will_log is called from %s" % sorted(callers["will_log"]), "-")
    ctx.check(callers["sink"] <= {"nitro::log::logger::log"} and len(callers["sink"]) == 1, "R10.4", "Sink::sink", "only-log-calls-sink", "Sink::sink is called from %s" % sorted(callers["sink"]), "-")
    ctx.check(callers["format"] <= {"nitro::log::logger::log"} and len(callers["format"]) == 1, "R10.4", "Formatter::format", "only-log-calls-formatter", "Formatter::format is called from %s" % sorted(callers["format"]), "-")
    # one record, one sink call: logger::log hands the record to the formatter and the result to the sink exactly once on every
    # path, outside any loop, and does not rewrite the record (a record split into several sink calls is several lock scopes)
    for f in logf:
        loopb = set()
        for h, body in cfg.loop_blocks(f):
            loopb |= set(body)
        for what in ("sink", "format"):
            sites = [(bid, i, e) for bid, i, e in f.roots() if any(n.get("k") == "call" and short(n.get("name") or "") == what and (n.get("name") or "").split("::")[0] != "std" for n in walk(e["expr"]))]
            once = len(sites) == 1 and sites[0][0] not in loopb and cfg.must_happen_before_exit(f, lambda el, t=sites[0][2]: el is t)[0]
            ctx.check(once, "R10.4", f, "log-calls-%s-once" % what,
                      "logger::log calls %s %s: one log statement is not handed over as exactly one record (a record emitted in several pieces takes and releases the sink's lock once per piece, "
                      "another thread's record can land in between)" % (what, "%d times" % len(sites) if len(sites) != 1 else "inside a loop / not on every path"), f)
        rp = f.params[1]["name"] if len(f.params) > 1 else "r"
        wr = [fmt(lv) for _, _, e in f.roots() for eff, lv, n in tree_effects(e["expr"]) if eff in ("write", "maybe_write") and lv is not None and re.match(r"\(?%s\b" % re.escape(rp), fmt(lv))]
        ctx.check(not wr, "R10.4", f, "log-leaves-record-alone", "logger::log writes %s: what reaches the formatter is no longer the record the statement built" % wr, f)
    # the runtime filter that decides is the one that was configured for THIS logger (R05.4's threshold rule re-evaluated)
    if ctx.prop == "C10" and not getattr(ctx, "_sharing", False):
        from .common import share
        share(ctx, "C05", ("R05.4",), "R10.4", "filter obligations shared with C05", 5)
        # "called exactly once at the point where it is streamed, for an emitted record": the statement object lives until the end of
        # the statement / of the variable it initialises - the rvalue << chain hands the object on by value
        share(ctx, "C05", ("R05.1",), "R10.3", "ownership obligations shared with C05", 8)
    ctx.assume("optimiser-level cost of a disabled statement is not decided")
