"""C13 - declarations stay unambiguous: one meaning per long name and per letter.

R13.1 (A9+A2) group::option / multi_option / toggle: the emplace into the kind's own map is dominated by the guard
      `parser_.has_option_with_name(name) && own.count(name) == 0` whose true edge raises parser_error; the creation-order
      list is appended exactly when the emplace inserted; the returned reference is the map element.
R13.2 (A5) has_option_with_name sums membership over ALL kind collectors, computed from the groups' maps at call time
      (any parser member it reads must be written by every function that inserts into the maps: no stale index).
R13.3 (A2) crtp_base::short_name: the assignment to short_ is dominated by both guards (already set to something
      else -> raise; length != 1 -> raise), both raising parser_error.
R13.4 (A1/A5) check_parser_consistency() is the first call in parse and dominates everything else; ONE set of letters
      collects the short names of every kind in every group and a failed insertion raises parser_error; exhaustiveness:
      for every std::map<string, K> member of group there is a get_all_* collector used by for_each_option,
      has_option_with_name and the arguments construction.
R13.5 (A7+AST) group stores a reference/pointer to its parser => parser's move operations must be user-provided (and
      rebind every group) or deleted; compiler-generated moves leave the moved groups pointing at the old object.
"""
import re

from sa import ir, cfg, logic, facts
from sa.ir import fmt, walk, short
from sa.logic import Not, And, Or
from sa.callgraph import tree_effects, lvalue_root
from .common import NS, KINDS, PARSE_VEC, callgraph, one, elem_calls, literal_value, class_fields
from . import C04

PARSER_ERROR = NS + "parser_error"
OWN_MAP = {"option": "options_", "multi_option": "multi_options_", "toggle": "toggles_"}  # sibling slot table (frozen)


def run(ctx):
    prog = ctx.prog
    cg = callgraph(ctx)
    fe = facts.FactsEngine(prog, cg)
    lg = fe.lg
    for r, d in (("R13.1", "declaration guarded by the cross-kind name check; order list in sync; returns the map element"),
                 ("R13.2", "has_option_with_name covers all kinds and reads no stale derived state"),
                 ("R13.3", "short_name setter guards"),
                 ("R13.4", "letter uniqueness over all kinds and groups, checked first in parse; kind exhaustiveness"),
                 ("R13.5", "parser move operations must keep group::parser_ valid")):
        ctx.rule(r, d)

    grp = prog.cls(NS + "group")
    if not ctx.anchor("R13.1", NS + "group", grp is not None):
        return
    kind_maps = {}
    for fl in grp["fields"]:
        m = re.match(r"std::map<std::string, (?:nitro::)?(?:options::)?(\w+)>", fl["type"].replace("std::basic_string<char>", "std::string"))
        if m:
            kind_maps[m.group(1)] = fl["name"]
    ctx.tables["kind_maps"] = kind_maps
    ctx.need("R13.4", "kind maps in group", len(kind_maps), 3)

    # ---- R13.1
    ndecl = 0
    for k in sorted(kind_maps):
        own = kind_maps[k]
        f = one(ctx, "R13.1", NS + "group::" + k)
        if not f:
            continue
        ndecl += 1
        ctx.check(OWN_MAP.get(k) == own or k not in OWN_MAP, "R13.1", f, "own-map", "slot table: %s declares into %s" % (k, own), f)
        IN, before = fe.analyse(f)
        pn = f.params[0]["name"]
        emp = []
        for bid, i, e in f.roots():
            for n in walk(e["expr"], into_sc=False):
                if n.get("k") == "call" and short(n.get("name") or "") in ("emplace", "insert", "try_emplace", "emplace_hint", "operator[]") and n.get("this") is not None:
                    recv = fmt(n["this"])
                    if recv.endswith("_") and bid in IN:
                        emp.append((bid, i, e, n, recv))
                if n.get("k") == "subscript" and fmt(n.get("base")).endswith("_") and n.get("callee") and bid in IN:
                    emp.append((bid, i, e, n, fmt(n["base"])))
        if len(emp) != 1:
            ctx.broken("R13.1", f, "insertion", "expected exactly one insertion into a kind map in group::%s, found %d" % (k, len(emp)), f)
            continue
        bid, i, e, n, recv = emp[0]
        ctx.check(recv == own, "R13.1", f, "inserts-into-own-map", "group::%s inserts into %s instead of %s" % (k, recv, own), (f, e.get("ln")))
        ctx.check(short(n.get("name") or "") in ("emplace", "try_emplace", "insert"), "R13.1", f, "insertion-keeps-existing",
                  "group::%s inserts with %s, which can overwrite an existing declaration instead of returning the identical object" % (k, short(n.get("name") or "[]")), (f, e.get("ln")))
        H = [a for g in (before.get((bid, i)) or []) for a in logic.atoms_of(g) if "has_option_with_name(" in a]
        st = before.get((bid, i)) or frozenset()
        Hatom = ("a", "(*this.parser_).has_option_with_name(%s)" % pn)
        cand = [("a", a) for a in set(H)] or [Hatom, ("a", "this.parser_.has_option_with_name(%s)" % pn)]
        for b0 in f.blocks:
            c0 = f.term(b0).get("cond")
            if c0 is not None:
                for y in walk(c0):
                    if y.get("k") == "call" and short(y.get("name") or "") == "has_option_with_name" and fmt(y["args"][0] if y.get("args") else None) == pn:
                        cand.append(lg.truthy(y, {}, 0))
        m0 = "this." + own
        # "the name is not in the own map yet", in any of its spellings
        C0 = [("a", "(%s.count(%s) == 0)" % (m0, pn)), ("a", "(%s.end() == %s.find(%s))" % (m0, m0, pn)), ("a", "(%s.find(%s) == %s.end())" % (m0, pn, m0)),
              ("a", "(%s.cend() == %s.find(%s))" % (m0, m0, pn)), Not(("a", "%s.contains(%s)" % (m0, pn)))]
        okg = any(logic.entails(st, Or(Not(h), Not(c0)), lg.axioms)[0] is True for h in cand for c0 in C0)
        ctx.check(okg, "R13.1", f, "guarded-by-cross-kind-name-check",
                  "group::%s inserts `%s` without the guard `parser_.has_option_with_name(name) && %s.count(name) == 0` on every path: a name already "
                  "used by another kind or group can be declared again" % (k, pn, own), (f, e.get("ln")), detail={"facts": [logic.show(g) for g in st]})
        # the guard's raise is parser_error
        rb = [b for b in IN if f.is_noreturn(b)]
        excs = [exc for b in rb for _, exc, _ in C04.raise_nodes(f, b)]
        ctx.check(bool(excs) and all(x == PARSER_ERROR for x in excs), "R13.1", f, "redeclaration-raises-parser_error",
                  "a conflicting re-declaration raises %s instead of the developer error" % (excs or "nothing"), f)
        # order list appended iff inserted; pushes the element's address; returns the element
        res = None
        x = e["expr"]
        if x.get("k") == "decl" and x.get("vars"):
            res = x["vars"][0]["name"]
        pushes = []
        for b2, i2, e2 in f.roots():
            for n2 in walk(e2["expr"], into_sc=False):
                if n2.get("k") == "call" and short(n2.get("name") or "") in ("push_back", "emplace_back") and fmt(n2.get("this")) == "order_" and b2 in IN:
                    pushes.append((b2, i2, e2, n2))
        ctx.check(len(pushes) == 1, "R13.1", f, "order-list-appended-once", "the creation-order list is appended %d times in group::%s" % (len(pushes), k), f)
        for b2, i2, e2, n2 in pushes:
            ok, cm = fe.proves(f, b2, i2, ("a", "%s.second" % res)) if res else (False, None)
            ctx.check(ok, "R13.1", f, "order-list-iff-inserted", "the creation-order list is appended although the insertion may not have happened (re-declaration would list the option twice)", (f, e2.get("ln")))
            a0 = fmt(ir.unwrap(n2["args"][0])) if n2.get("args") else ""
            ctx.check(res is not None and a0 == "(&%s.first.operator->()->second)" % res, "R13.1", f, "order-list-holds-the-element", "the creation-order list receives %s" % a0, (f, e2.get("ln")))
        # on the inserted path the push must happen
        if res and pushes:
            # from the true edge of `res.second` every path passes the push: checked by construction (push is in that branch) ->
            p = cfg.reaches_without(f, (bid, i), cfg.EXIT, lambda el: any(el is t[2] for t in pushes),
                                    edge_ok=lambda b, to, lab: not (f.term(b).get("cond") is not None and fmt(f.term(b)["cond"]) == "%s.second" % res and lab == "false"))
            ctx.check(p is None, "R13.1", f, "inserted-implies-listed", "an option can be inserted without being added to the creation-order list (it would be missing from the usage text)", f)
        rets = [fmt(ir.unwrap(e2["expr"].get("e"))) for _, _, e2 in f.roots() if e2["expr"].get("k") == "return"]
        # ... or the element found under the same name in the group's own map of this kind (`auto it = own.find(name); if (it != own.end()) return it->second;`)
        found = set()
        for _, _, e2 in f.roots():
            x2 = e2["expr"]
            if x2.get("k") == "decl":
                for v2 in x2.get("vars", []):
                    i2 = ir.unwrap(v2.get("init")) if v2.get("init") is not None else None
                    while isinstance(i2, dict) and i2.get("k") in ("construct", "cast") and (i2.get("e") is not None or len(i2.get("args", [])) == 1):
                        i2 = ir.unwrap(i2.get("e") if i2.get("e") is not None else i2["args"][0])
                    if isinstance(i2, dict) and i2.get("k") == "call" and short(i2.get("name") or "") == "find" and fmt(i2.get("this")) == own and len(i2.get("args", [])) == 1 and fmt(ir.unwrap(i2["args"][0])) == pn:
                        # dereferenced only where it is known not to be end()
                        guarded = all(any(fmt(ir.unwrap(f.term(d0).get("cond") or {})) in ("(%s != %s.end())" % (v2["name"], own), "(%s.end() != %s)" % (own, v2["name"])) and
                                          not cfg.reachable_without_edge(f, d0, [to for to, lab in f.succs(d0) if lab == "true"][0], b3) for d0 in cfg.dominators(f).get(b3, ()) if f.term(d0).get("cond") is not None)
                                      for b3, _, e3 in f.roots() if e3["expr"].get("k") == "return" and fmt(ir.unwrap(e3["expr"].get("e"))) == "%s.operator->()->second" % v2["name"])
                        if guarded:
                            found.add("%s.operator->()->second" % v2["name"])
        ctx.check(res is not None and all(r == "%s.first.operator->()->second" % res or r in found for r in rets), "R13.1", f, "returns-the-map-element", "group::%s returns %s" % (k, rets), f)
    ctx.need("R13.1", "declaration functions", ndecl, 3)

    # ---- R13.2
    h = one(ctx, "R13.2", NS + "parser::has_option_with_name")
    collectors = {}
    for k in kind_maps:
        for f2 in prog.methods_of(NS + "parser"):
            if f2.has_cfg and f2.name.startswith("get_all") and re.search(r"std::map<std::string, (?:nitro::)?(?:options::)?%s \*>" % k, f2.ret.replace("std::basic_string<char>", "std::string")):
                collectors[k] = f2
    ctx.check(set(collectors) == set(kind_maps), "R13.4", NS + "parser", "collector-per-kind", "kinds without a get_all_* collector in parser: %s" % sorted(set(kind_maps) - set(collectors)), "-")
    # each collector reads its kind's map of every group
    for k, cf in sorted(collectors.items()):
        getter = None
        for bid, i, e in cf.roots():
            for n in elem_calls(e):
                g = prog.fn(n.get("callee") or "")
                if g is not None and g.cls == NS + "group" and g.has_cfg:
                    rets = [fmt(ir.unwrap(x["expr"].get("e"))) for _, _, x in g.roots() if x["expr"].get("k") == "return"]
                    if rets == [kind_maps[k]]:
                        getter = g
        if getter is None:
            # the group accessor taken as a pointer to member and called through it (`(g.*get)()` inside a shared helper)
            for _, _, e in cf.roots():
                for n in walk(e["expr"]):
                    if n.get("k") == "call" and n.get("ptrmem") and isinstance(n.get("fn"), dict):
                        u = ir.as_unop(ir.unwrap(n["fn"]))
                        tgt = ir.unwrap(u[1]) if u and u[0] == "&" else None
                        if isinstance(tgt, dict) and tgt.get("k") == "ref" and tgt.get("decl", "").startswith("fn:"):
                            g = prog.fn(tgt["decl"][3:])
                            if g is not None and g.cls == NS + "group" and g.has_cfg:
                                rets = [fmt(ir.unwrap(x["expr"].get("e"))) for _, _, x in g.roots() if x["expr"].get("k") == "return"]
                                if rets == [kind_maps[k]]:
                                    getter = g
        loops_over_groups = any("groups_" in fmt(e["expr"]) for _, _, e in cf.roots())
        ctx.check(getter is not None and loops_over_groups, "R13.4", cf, "collector-reads-own-kind-of-every-group",
                  "%s does not collect %s from every group" % (short(cf.qual), kind_maps[k]), cf)
    if h:
        used = set()
        for bid, i, e in h.roots():
            for n in elem_calls(e):
                for k, cf in collectors.items():
                    if n.get("callee") == cf.id:
                        used.add(k)
        # second form: a walk over groups_ that asks every group's own per-kind map (no merged temporary maps)
        per_group = _per_group_membership(prog, h, kind_maps) if used != set(kind_maps) else None
        if per_group is not None:
            used = per_group[0]
        ctx.check(used == set(kind_maps), "R13.2", h, "all-kinds-consulted", "has_option_with_name ignores the kinds %s" % sorted(set(kind_maps) - used), h)
        rets = [ir.unwrap(e["expr"].get("e")) for _, _, e in h.roots() if e["expr"].get("k") == "return"]
        shape_ok = True
        if per_group is not None:
            ctx.check(per_group[1], "R13.2", h, "membership-sum", "has_option_with_name walks the groups but %s" % per_group[2], h, why_ok="true exactly under a membership test inside the walk over groups_, false after it")
            rets = []
            shape_ok = None
        for r in rets:
            s = fmt(r)
            terms = re.findall(r"get_all_\w+\(\)\.count\(\w+\)", s)
            rest = re.sub(r"get_all_\w+\(\)\.count\(\w+\)", "", s)
            if len(terms) != len(kind_maps) or re.sub(r"[()+| !=0]", "", rest) != "":
                shape_ok = False
        if shape_ok is not None:
          ctx.check(shape_ok and len(rets) == 1, "R13.2", h, "membership-sum", "has_option_with_name returns %s - not the membership of the name in every kind" % [fmt(r)[:90] for r in rets], h)
        # the name that is looked up is the name that was asked for - in every kind (a transformed copy, e.g. with a `no-` prefix cut off,
        # leaves the literal name unprotected in that kind)
        hp = h.params[0]["name"] if h.params else None
        lookups = [n for _, _, e in h.all_elems() if e.get("expr") is not None for n in walk(e["expr"])
                   if isinstance(n, dict) and n.get("k") == "call" and short(n.get("name") or "") in ("count", "find", "at", "contains") and len(n.get("args", [])) == 1]
        for n in lookups:
            a = ir.unwrap(n["args"][0])
            while isinstance(a, dict) and a.get("k") in ("cast", "construct") and (a.get("e") is not None or len(a.get("args", [])) == 1):
                a = ir.unwrap(a.get("e") if a.get("e") is not None else a["args"][0])
            ctx.check(isinstance(a, dict) and a.get("k") == "ref" and a.get("decl") == "param:%s" % hp, "R13.2", h, "asks-for-the-declared-name@%s" % (n.get("ln", 0) - h.line),
                      "has_option_with_name(%s) looks up `%s` in %s - not the name it was asked about: the literal name is not protected there and can be declared a second time"
                      % (hp, fmt(a)[:60], fmt(n.get("this"))[:40]), (h, n.get("ln")), why_ok="%s(%s)" % (short(n.get("name") or ""), hp))
        # derived state: parser members read here must be maintained by the declaration functions
        pfields = class_fields(prog, NS + "parser")
        read = set()
        hreach = cg.reachable([h.id])
        for fid in hreach:
            f2 = prog.fn(fid)
            if f2 is None or not f2.has_cfg or f2.cls != NS + "parser":
                continue
            for bid, i, e in f2.roots():
                for n in walk(e["expr"]):
                    if n.get("k") == "member" and n.get("field") in pfields and short(n["field"]) != "groups_":
                        read.add(n["field"])
        for fq in sorted(read):
            writers = set()
            for f2 in prog.fns.values():
                if f2.has_cfg and f2.file.startswith("/repo/"):
                    for (w, base, n2, b2, i2, how) in cg.field_writes(f2):
                        if w == fq:
                            writers.add(f2.qual)
            decl_fns = {NS + "group::" + k for k in kind_maps}
            ctx.check(decl_fns <= writers, "R13.2", h, "derived-state-maintained:" + short(fq),
                      "has_option_with_name depends on parser::%s, which the declaration functions %s never update: names declared through a group "
                      "reference are invisible to later duplicate checks (stale index)" % (short(fq), sorted(short(x) for x in decl_fns - writers)), h)
        if not read:
            ctx.ok("R13.2", h, "no-derived-state", "the answer is computed from groups_ at call time", h)

    # ---- R13.3
    setters = [f for f in prog.fns.values() if f.has_cfg and f.name == "short_name" and len(f.params) == 1 and (f.cls or "").startswith(NS + "crtp_base<") and not f.is_pattern]
    ctx.need("R13.3", "short_name setter instantiations", len(setters), 3)
    for f in setters:
        IN, before = fe.analyse(f)
        pn = f.params[0]["name"]
        ws = []
        for bid, i, e in f.roots():
            for (fq, base, n2, b2, i2, how) in []:
                pass
            for eff, lv, n in tree_effects(e["expr"], into_sc=False):
                if eff in ("write", "maybe_write") and lv is not None:
                    kind, key, _ = lvalue_root(lv)
                    if kind == "field" and short(key[0]) == "short_" and key[1] == "this" and bid in IN:
                        ws.append((bid, i, e, n))
        ctx.need("R13.3", "assignment of short_ in " + (f.cls or ""), len(ws), 1)
        for bid, i, e, n in ws:
            st = before.get((bid, i)) or frozenset()
            g1 = Or(("a", "this.short_.empty()"), ("a", "(%s == this.short_)" % pn))
            g1b = Or(("a", "this.short_.empty()"), ("a", "(this.short_ == %s)" % pn))
            ok1 = logic.entails(st, g1, lg.axioms)[0] is True or logic.entails(st, g1b, lg.axioms)[0] is True
            ctx.check(ok1, "R13.3", f, "no-redefinition", "short_ can be overwritten with a different letter (the 'already set to something else' guard is missing on a path)", (f, e.get("ln")),
                      detail={"facts": [logic.show(g) for g in st]})
            ok2 = logic.entails(st, ("a", "(%s.size() == 1)" % pn), lg.axioms)[0] is True
            ctx.check(ok2, "R13.3", f, "exactly-one-character", "short_ can be set to a string whose length is not 1", (f, e.get("ln")))
        # every way of returning normally has seen a one-character argument: either the length test itself, or the argument equals
        # the letter already stored and that letter is non-empty (the stored letter is one character: the guarded assignment above is its only writer)
        nret = 0
        for bid, i, e in f.roots():
            if e["expr"].get("k") != "return" or bid not in IN:
                continue
            nret += 1
            st = before.get((bid, i)) or frozenset()
            one_char = logic.entails(st, ("a", "(%s.size() == 1)" % pn), lg.axioms)[0] is True
            same = (logic.entails(st, ("a", "(%s == this.short_)" % pn), lg.axioms)[0] is True or logic.entails(st, ("a", "(this.short_ == %s)" % pn), lg.axioms)[0] is True) \
                and logic.entails(st, Not(("a", "this.short_.empty()")), lg.axioms)[0] is True
            # ... or the return lies behind the guarded assignment itself (whose one-character guard is the obligation above): when the setter takes
            # its argument by value and moves it into the member, nothing is known about the moved-from argument any more at the return
            via_write = bool(ws) and cfg.reaches_without(f, (f.entry, -1), lambda x, e=e: x is e, lambda x: any(x is w[2] for w in ws)) is None
            ctx.check(one_char or same or via_write, "R13.3", f, "accepts-only-one-character", "short_name() can return normally for an argument whose length was never tested (path facts: %s): a short name that is not one character - the empty string - is accepted"
                      % sorted(logic.show(g) for g in st)[:4], (f, e.get("ln")))
        ctx.need("R13.3", "normal returns of short_name in " + (f.cls or ""), nret, 1)
        excs = [exc for b in IN if f.is_noreturn(b) for _, exc, _ in C04.raise_nodes(f, b)]
        ctx.check(len(excs) >= 2 and all(x == PARSER_ERROR for x in excs), "R13.3", f, "setter-raises-parser_error", "short_name() rejections raise %s" % excs, f)

    # who else writes the letter? any other member that modifies short_ (an added overload, a helper) goes around the setter's guards
    known_patterns = {f.flags.get("instantiation_of") for f in setters} | {f.id for f in setters}
    others = 0
    for f in prog.fns.values():
        if not f.has_cfg or not f.file.startswith("/repo/") or f.id in known_patterns or f.kind in ("ctor", "dtor") or f.flags.get("instantiation"):
            continue
        if not ((f.cls or "").startswith(NS + "crtp_base") or (f.cls or "") in (NS + "base", NS + "option", NS + "multi_option", NS + "toggle")):
            continue
        for bid, i, e in f.roots():
            for eff, lv, n in tree_effects(e["expr"], into_sc=False):
                if eff in ("write", "maybe_write") and lv is not None:
                    kind, key, _ = lvalue_root(lv)
                    if kind == "field" and short(key[0]) == "short_" and key[1] == "this":
                        others += 1
                        ctx.bad("R13.3", f, "letter-written-only-by-the-guarded-setter:%s" % f.name,
                                "%s(%s) modifies short_ (`%s`) outside the guarded setter: an already set letter can be replaced without the developer error, and nothing checks that it is one character"
                                % (f.name, ", ".join(p0.get("type") or "?" for p0 in f.params), fmt(n)[:60]), (f, e.get("ln")))
    if not others:
        ctx.ok("R13.3", NS + "base::short_", "letter-written-only-by-the-guarded-setter", "no other member function writes short_", "-")
    # ---- R13.4
    parse = prog.fn(PARSE_VEC)
    cpc = one(ctx, "R13.4", NS + "parser::check_parser_consistency")
    for _once in ([1] if (ctx.anchor("R13.4", PARSE_VEC, parse is not None) and cpc) else []):
        is_cpc = lambda e: any(n.get("callee") == cpc.id for n in elem_calls(e))
        any_other_call = lambda e: any(n.get("k") == "call" and n.get("callee") != cpc.id and (n.get("name") or "").startswith("nitro::") for n in elem_calls(e))
        ok, path = cfg.must_precede(parse, is_cpc, any_other_call)
        ctx.check(ok, "R13.4", parse, "consistency-check-first", "parse() can do work (B%s) before check_parser_consistency()" % "->B".join(map(str, path or [])), parse)
        # the set of letters: declared in cpc itself, outside every loop
        sets = []
        for bid, i, e in cpc.roots():
            x = e["expr"]
            if x.get("k") == "decl":
                for v in x.get("vars", []):
                    if re.match(r"std::(unordered_)?(multi)?set<", v.get("type") or ""):
                        sets.append((bid, v["name"], v.get("type")))
        inner = [g for g in prog.fns.values() if g.id.startswith(cpc.id + "::") and g.has_cfg]
        # a named function object handed to for_each_option plays the closure's part: its operator() instantiations are the
        # visitors, and a reference member bound by its constructor to the letter set IS the letter set
        alias = {}  # member name inside the function object -> name of the set in check_parser_consistency
        for _, _, e0 in cpc.roots():
            for n0 in elem_calls(e0):
                if short(n0.get("name") or "") != "for_each_option":
                    continue
                for a0 in n0.get("args", []):
                    a0 = ir.unwrap(a0)
                    while isinstance(a0, dict) and a0.get("k") in ("cast", "construct") and (a0.get("copy") or a0.get("move") or a0.get("k") == "cast") and (a0.get("e") is not None or len(a0.get("args", [])) == 1):
                        a0 = ir.unwrap(a0.get("e") if a0.get("e") is not None else a0["args"][0])
                    if isinstance(a0, dict) and a0.get("k") == "construct" and a0.get("ctor"):
                        ctor0 = prog.fn(a0["ctor"])
                        if ctor0 is None or not ctor0.cls:
                            continue
                        inner += [g for g in prog.fns.values() if g.cls == ctor0.cls and g.op == "()" and g.has_cfg and g.kind != "lambda"]
                        if ctor0.has_cfg:
                            for _, _, ce in ctor0.all_elems():
                                if ce.get("kind") == "init" and ce.get("field") and ce.get("expr") is not None:
                                    src = ir.unwrap(ce["expr"])
                                    if isinstance(src, dict) and src.get("k") == "ref" and src.get("decl", "").startswith("param:"):
                                        names0 = [p0["name"] for p0 in ctor0.params]
                                        if src["decl"][6:] in names0 and names0.index(src["decl"][6:]) < len(a0.get("args", [])):
                                            alias[short(ce["field"])] = fmt(ir.unwrap(a0["args"][names0.index(src["decl"][6:])]))
        inner_sets = []
        for g in inner:
            for bid, i, e in g.roots():
                x = e["expr"]
                if x.get("k") == "decl":
                    for v in x.get("vars", []):
                        if re.match(r"std::(unordered_)?(multi)?set<", v.get("type") or ""):
                            inner_sets.append(v["name"])
        loop_blocks = set()
        for hd, body in cfg.loop_blocks(cpc):
            loop_blocks |= body
        one_set = len(sets) == 1 and sets[0][0] not in loop_blocks and not inner_sets and "multiset" not in (sets[0][2] or "")
        if not sets and not inner_sets:
            # no std::set anywhere, but the visitors still end in the developer error for some letters: the letters seen so far are kept
            # in another structure (a sorted vector searched with lower_bound, a bitmap). Whether that detects every duplicate rests on
            # an invariant of that structure (sortedness, index range) this rule does not derive - not a verdict about the code
            others = [(v["name"], v.get("type")) for _, _, e in cpc.roots() if e["expr"].get("k") == "decl" for v in e["expr"].get("vars", [])
                      if re.search(r"vector<|deque<|list<|array<|bitset<|map<|\[\d+\]", v.get("type") or "")]
            still_raises = any(exc == PARSER_ERROR for g in inner if g.has_cfg for b in g.reachable_blocks() if g.is_noreturn(b) for _, exc, _ in C04.raise_nodes(g, b))
            if others and still_raises:
                # one thing can be said about such a structure without knowing its invariant: a binary search (binary_search / lower_bound /
                # upper_bound / equal_range) over it presupposes a sorted range - letters that are only ever appended are in declaration order
                oname = others[0][0]
                scope_fns = [cpc] + [g for g in inner if g.has_cfg]
                calls_on = [(g, n0) for g in scope_fns for _, _, e0 in g.roots() for n0 in walk(e0["expr"]) if isinstance(n0, dict) and n0.get("k") == "call"]
                bsearch = [(g, n0) for g, n0 in calls_on if short(n0.get("name") or "") in ("binary_search", "lower_bound", "upper_bound", "equal_range") and oname in fmt(n0)]
                appends = [n0 for g, n0 in calls_on if short(n0.get("name") or "") in ("push_back", "emplace_back") and n0.get("this") is not None and oname in fmt(n0["this"])]
                ordered = [n0 for g, n0 in calls_on if (short(n0.get("name") or "") in ("sort", "stable_sort", "inplace_merge") and oname in fmt(n0)) or (short(n0.get("name") or "") in ("insert", "emplace") and n0.get("this") is not None and oname in fmt(n0["this"]))]
                if bsearch and appends and not ordered:
                    ctx.bad("R13.4", cpc, "one-letter-set-for-the-whole-parser", "the letters seen so far are appended to `%s %s` in declaration order (push_back) and looked up with %s, which presupposes a sorted range: "
                            "a letter declared after a greater one is not found, two options then share it" % (others[0][1], oname, short(bsearch[0][1].get("name") or "")), (bsearch[0][0], bsearch[0][1].get("ln")))
                    break
                ctx.broken("R13.4", cpc, "one-letter-set-for-the-whole-parser", "the letters seen so far are kept in `%s %s`, not in a std::set: duplicate detection through this structure "
                           "(search + ordered insertion) is an idiom this rule does not recognise" % (others[0][1], others[0][0]), cpc)
                break
        ctx.check(one_set, "R13.4", cpc, "one-letter-set-for-the-whole-parser",
                  "the set that detects duplicate letters is not a single std::set declared once per consistency check (found %s outer, %s per-iteration): "
                  "letters are only unique per group/kind" % ([s[1] for s in sets], inner_sets), cpc)
        # the walk over the letters happens on EVERY call: a remembered verdict cannot be right, since options carry no link back
        # to the parser and short_name()/new declarations after a successful parse do not reset it
        feo_ids = {f0.id for f0 in prog.find(NS + "parser::for_each_option")} | {cf.id for cf in collectors.values()}
        walks = lambda e: any(n.get("callee") in feo_ids for n in elem_calls(e))
        okw, pathw = cfg.must_happen_before_exit(cpc, walks)
        ctx.check(okw, "R13.4", cpc, "letters-walked-on-every-call",
                  "check_parser_consistency() can return (B%s) without looking at the declared letters: a verdict remembered from an earlier parse lets two options that share a letter "
                  "since then be parsed" % "->B".join(map(str, pathw or [])), cpc, why_ok="every path to the exit walks the options")
        # every kind visited: the lambda instantiations exist for all kinds and raise parser_error on failed insertion
        kinds_seen = set()
        for g in inner:
            if not (g.kind == "lambda" or g.op == "()") or not g.flags.get("instantiation"):
                continue
            pk = (g.params[0].get("type", "") if g.params else "").replace(" ", "")
            for k in kind_maps:
                if pk == "nitro::options::%s&" % k:
                    kinds_seen.add(k)
                    INg, beforeg = fe.analyse(g)
                    excs = [exc for b in INg if g.is_noreturn(b) for _, exc, _ in C04.raise_nodes(g, b)]
                    ctx.check(excs == [PARSER_ERROR], "R13.4", g, "duplicate-letter-raises:" + k, "a duplicate letter of a %s raises %s" % (k, excs or "nothing"), g)
                    # the raise is reached exactly when the insertion failed
                    ins = []
                    for bid, i, e in g.roots():
                        x = e["expr"]
                        if x.get("k") == "decl":
                            for v in x.get("vars", []):
                                init = ir.unwrap(v.get("init"))
                                if isinstance(init, dict) and init.get("k") == "call" and short(init.get("name") or "") in ("emplace", "insert"):
                                    ins.append((v["name"], init))
                    recv = fmt(ins[0][1].get("this")) if ins else ""
                    recv = alias.get(recv.replace("this->", ""), recv)
                    okins = len(ins) == 1 and sets and recv == sets[0][1] and "short_name()" in fmt(ins[0][1])
                    ctx.check(okins, "R13.4", g, "letter-inserted:" + k, "the %s's short name is not inserted into the letter set" % k, g)
                    for b in INg:
                        if g.is_noreturn(b) and ins:
                            r, _ = logic.entails(INg[b], Not(("a", "%s%s.second" % ("", ins[0][0]))), lg.axioms)
                            ctx.check(r is True, "R13.4", g, "raise-iff-insertion-failed:" + k, "the duplicate-letter error is not tied to a failed insertion", g)
        # what the consistency check refuses, it refuses for a duplicate letter: a raise in its own body (outside the visitors) under any
        # other condition makes a configuration unparsable that the setters accepted (every parse() then fails, whatever the command line)
        INc, _bc = fe.analyse(cpc)
        for b in sorted(INc):
            if not cpc.is_noreturn(b):
                continue
            facts_b = INc[b]
            tied = any(logic.entails(facts_b, Not(("a", a)), lg.axioms)[0] is True for g0 in facts_b for a in logic.atoms_of(g0) if a.endswith(".second"))
            ctx.check(tied, "R13.4", cpc, "refuses-only-duplicate-letters@B%s" % b,
                      "check_parser_consistency() raises under %s - not a failed insertion into the letter set: a parser configured through its own setters "
                      "(greedy positionals, an accepted count, ...) is refused on every parse, also for command lines the configuration admits"
                      % ([logic.show(x) for x in facts_b][:4]), (cpc, cpc.term(b).get("ln")))
        ctx.check(kinds_seen == set(kind_maps), "R13.4", cpc, "all-kinds-checked", "kinds whose letters are not checked: %s" % sorted(set(kind_maps) - kinds_seen), cpc)
        # for_each_option uses every collector
        feo = [f for f in prog.find(NS + "parser::for_each_option") if f.has_cfg]
        ctx.need("R13.4", "for_each_option bodies", len(feo), 2)
        for f in feo:
            used = {k for k, cf in collectors.items() if any(n.get("callee") == cf.id for _, _, e in f.roots() for n in elem_calls(e))}
            ctx.check(used == set(kind_maps), "R13.4", f, "for_each_option-visits-all-kinds", "for_each_option skips %s" % sorted(set(kind_maps) - used), f)
        used = {k for k, cf in collectors.items() if any(n.get("callee") == cf.id for _, _, e in parse.roots() for n in elem_calls(e))}
        ctx.check(used == set(kind_maps), "R13.4", parse, "arguments-built-from-all-kinds", "the result object is built without %s" % sorted(set(kind_maps) - used), parse)

    # ---- R13.10: a refused declaration is not half made
    ctx.rule("R13.10", "the declaring functions (group::option / multi_option / toggle, the short_name / env / default setters) write no member on a path that can still reach their own raise: "
                       "a re-declaration or a short name that is refused with parser_error leaves no entry, letter or default behind")
    from .common import rule_validate_before_commit
    parse_reach = callgraph(ctx).reachable([f0.id for f0 in prog.find(NS + "parser::parse")])
    rule_validate_before_commit(ctx, "R13.10", lambda g: "/options/" in g.file and g.id not in parse_reach,
                                "the caller catches the developer error and carries on - with a ghost entry that is offered tokens first, a letter the usage text shows but matching never accepts, or a default that was never declared", minimum=6)
    # ---- R13.6: the name the maps are keyed by IS the option's name: base stores the declared string verbatim
    ctx.rule("R13.6", "base::name_ is the declared name verbatim (the uniqueness check keys by the declared string, matching uses name())")
    bct = [f for f in prog.methods_of(NS + "base") if f.kind == "ctor" and f.has_cfg and len(f.params) >= 1 and not f.flags.get("copy_ctor") and not f.flags.get("move_ctor")]
    ctx.need("R13.6", "base constructors", len(bct), 1)
    from sa import valueflow
    for f in bct:
        p0 = f.params[0]["name"]
        init = [e for _, _, e in f.all_elems() if e["kind"] == "init" and short(e.get("field") or "") == "name_"]
        if not init:
            ctx.bad("R13.6", f, "name-stored-verbatim", "base's constructor does not initialise name_ from its parameter", f)
            continue
        okc, why = valueflow.carrier(f, init[0]["expr"], lambda n: isinstance(n, dict) and n.get("k") == "ref" and n.get("decl") == "param:" + p0)
        # a (string, pos[, len]) construction is a substring, not a copy
        x = ir.unwrap(init[0]["expr"])
        nargs = len([a for a in x.get("args", []) if not (isinstance(a, dict) and a.get("k") == "defarg")]) if isinstance(x, dict) and x.get("k") in ("construct", "paren_list") else 1
        ctx.check(okc and nargs <= 1, "R13.6", f, "name-stored-verbatim",
                  "base stores %s as its name, not the declared string itself (%s): the maps and the uniqueness check are keyed by the declared string, so two declarations whose stored names coincide "
                  "are both accepted and one command-line name then denotes two options" % (fmt(init[0]["expr"]), why or "a sub-string / transformed copy"), f, why_ok=fmt(init[0]["expr"]))
    # ---- R13.11: a group is handed the parser whose map it goes into. Uniqueness across groups is asked of group::parser_ - a group that sits in one parser's
    # map and points at another parser checks every declaration against the wrong parser's names
    ctx.rule("R13.11", "back-pointer-matches-owner: wherever a group is constructed into `X.groups_` (emplace / try_emplace with forward_as_tuple(parser, ...)) the parser handed to it is X itself")
    nbp = 0
    for g in sorted(prog.fns.values(), key=lambda h: h.id):
        if not g.has_cfg or not g.file.startswith("/repo/") or "/options/" not in g.file:
            continue
        for bid, i, e in g.all_elems():
            x = e.get("expr")
            if not isinstance(x, dict):
                continue
            for n in walk(x):
                if not (isinstance(n, dict) and n.get("k") == "call" and short(n.get("name") or "") in ("emplace", "try_emplace", "emplace_hint") and n.get("this") is not None):
                    continue
                recv = fmt(ir.unwrap(n["this"])).replace("this->", "")
                if not (recv == "groups_" or recv.endswith(".groups_") or recv.endswith("->groups_")):
                    continue
                owner = "(*this)" if recv == "groups_" else recv[:-len(".groups_")] if recv.endswith(".groups_") else "(*%s)" % recv[:-len("->groups_")]
                tuples = [m for a in n.get("args", []) for m in walk(a) if isinstance(m, dict) and m.get("k") == "call" and short(m.get("name") or "") in ("forward_as_tuple", "make_tuple", "tie")]
                handed = None
                for t in tuples[1:2] or tuples[:1]:
                    if t.get("args"):
                        handed = fmt(ir.unwrap(t["args"][0]))
                if handed is None:
                    continue
                nbp += 1
                norm = lambda z: z.replace("(", "").replace(")", "").replace("*this", "THIS").strip()
                ctx.check(norm(handed) == norm(owner), "R13.11", g, "back-pointer-matches-owner:%s" % recv,
                          "%s constructs a group into `%s` but hands it `%s` as its parser: declarations made through that group are checked against another parser's names "
                          "(its own are never seen - one name can be declared twice with different kinds)" % (short(g.qual), recv, handed), (g, e.get("ln")), why_ok="%s <- %s" % (recv, handed))
    ctx.need("R13.11", "group constructions", nbp, 2)
    # ---- R13.5
    pc = prog.cls(NS + "parser")
    back = [fl for fl in grp["fields"] if "parser" in fl["type"] and (fl.get("ref") or fl.get("ptr"))]
    if ctx.anchor("R13.5", NS + "parser", pc is not None):
        if not back:
            ctx.ok("R13.5", NS + "group", "no-back-reference", "group does not store a reference/pointer to its parser", "%s:%d" % (grp["file"], grp["line"]))
        for fl in back:
            for op in ("move_ctor", "move_assign"):
                sp = pc.get("special", {}).get(op)
                where = "%s:%d" % (pc["file"], pc["line"])
                if sp is None:
                    ctx.ok("R13.5", NS + "parser", op + "-absent", "parser has no %s (not movable that way)" % op, where)
                    continue
                if sp.get("deleted"):
                    ctx.ok("R13.5", NS + "parser", op + "-deleted", "deleted", where)
                    continue
                if sp.get("user_provided"):
                    # must rebind every group
                    mf = prog.fn(sp["id"])
                    rebinds = False
                    if mf is not None and mf.has_cfg:
                        for fid in cg.reachable([mf.id]):
                            f2 = prog.fn(fid)
                            if f2 is None or not f2.has_cfg:
                                continue
                            for (w, base, n2, b2, i2, how) in cg.field_writes(f2):
                                if w == fl["qual"] and how != "init":
                                    rebinds = True
                    ctx.check(rebinds, "R13.5", NS + "parser", op + "-rebinds-groups", "the user-provided %s does not write group::%s for the moved groups" % (op, fl["name"]), where)
                    # ... for EVERY group: the write sits in a loop over the container that owns the group objects
                    owners = [pf for pf in pc["fields"] if re.search(r"\bgroup\b(?!\s*\*)", (pf.get("type") or "").split("<", 1)[-1]) and "*" not in (pf.get("type") or "") and "map<" in (pf.get("type") or "")]
                    if mf is not None and mf.has_cfg and rebinds:
                        for fid in cg.reachable([mf.id]):
                            f2 = prog.fn(fid)
                            if f2 is None or not f2.has_cfg:
                                continue
                            for (w, base, n2, b2, i2, how) in cg.field_writes(f2):
                                if w != fl["qual"] or how == "init":
                                    continue
                                ranges = []
                                for h, body in cfg.loop_blocks(f2):
                                    if b2 in body and f2.term(h).get("kind") == "range_for":
                                        c = fmt(f2.term(h).get("cond"))
                                        m = re.search(r"__begin(\d+)", c)
                                        if m:
                                            for b3, i3, e3 in f2.roots():
                                                x3 = e3["expr"]
                                                if x3.get("k") == "decl":
                                                    for v3 in x3.get("vars", []):
                                                        if v3["name"] == "__range" + m.group(1) and v3.get("init") is not None:
                                                            ranges.append(fmt(ir.unwrap(v3["init"])))
                                over_owner = any(r0 == pf["name"] for r0 in ranges for pf in owners)
                                ctx.check(over_owner, "R13.5", f2, op + "-rebinds-every-group",
                                          "the back-reference is rewritten in a loop over %s, not over the container that owns the groups (%s): a group that is not in that list - the default "
                                          "group - keeps pointing at the moved-from parser, whose name check then answers for the wrong object"
                                          % (ranges or "no container", [pf["name"] for pf in owners]), (f2, n2.get("ln")), why_ok="loop over %s" % ranges)
                    continue
                ctx.bad("R13.5", NS + "parser", op + "-implicit",
                        "group::%s is a `%s` to the owning parser and parser's %s is compiler-generated: after `parser b = std::move(a)` the moved groups "
                        "still refer to `a` (dangling once `a` dies; name checks consult the wrong parser)" % (fl["name"], fl["type"], op.replace("_", " ")), where)
    # ---- R13.9: the parser keeps no second copy of the declarations. A data member of parser whose type mentions an option kind is
    # derived from the groups' maps; reading it on the parse path is only sound when EVERY declaration function keeps it current -
    # options are declared through group references too, which never pass through the parser's own shorthands
    ctx.rule("R13.9", "a parser data member that holds options (an index / cache over the groups' maps) and is read on the parse path is updated by every declaration function of group")
    pcls9 = prog.cls(NS + "parser")
    preach = cg.reachable([PARSE_VEC])
    derived = {}
    for fl in (pcls9 or {}).get("fields", []):
        t = (fl.get("ctype") or fl.get("type") or "")
        if fl.get("static") or short(fl["qual"]) in ("groups_", "group_order_"):
            continue
        if re.search(r"options::(toggle|option|multi_option|base)\b", t) or re.search(r"\b(toggle|multi_option|option|base) ?\*", t):
            derived[fl["qual"]] = t
    nread = 0
    for fq, t in sorted(derived.items()):
        readers = []
        for fid in preach:
            g = prog.fn(fid)
            if g is None or not g.has_cfg or g.cls != NS + "parser":
                continue
            if any(isinstance(y, dict) and y.get("k") == "member" and y.get("field") == fq for _, _, e in g.all_elems() if e.get("expr") is not None for y in walk(e["expr"])) \
                    or any(isinstance(y, dict) and y.get("k") == "member" and y.get("field") == fq for b0 in g.blocks for c0 in [g.term(b0).get("cond")] if isinstance(c0, dict) for y in walk(c0)):
                readers.append(g)
        if not readers:
            continue
        nread += 1
        writers = set()
        for g in prog.fns.values():
            if g.has_cfg and g.file.startswith("/repo/"):
                for (w, base, n2, b2, i2, how) in cg.field_writes(g):
                    if w == fq:
                        writers.add(g.qual)
        need_w = {NS + "group::" + k for k in kind_maps}
        ctx.check(need_w <= writers, "R13.9", readers[0], "no-stale-copy-of-the-declarations:" + short(fq),
                  "parser::%s (%s) is read on the parse path (%s) but %s never update it: an option declared through a group reference after it was filled is invisible to parsing "
                  "(its occurrences are rejected or not counted) while prepare/check/usage still see it" % (short(fq), t[:60], ", ".join(sorted(short(r.qual) for r in readers))[:80],
                                                                                                    sorted(short(x) for x in need_w - writers)), readers[0])
    if not nread:
        ctx.ok("R13.9", NS + "parser", "no-stale-copy-of-the-declarations", "no data member of parser holds options (%d members scanned)" % len((pcls9 or {}).get("fields", [])), "-")
    # ---- R13.7: resolution compares what the uniqueness guard compares - the declared names themselves (R01.5 re-evaluated)
    ctx.rule("R13.7", "matches() compares the token's whole name with the option's own name by plain equality (R01.5 re-evaluated): an equivalence wider than the declaration-time uniqueness check lets one spelling resolve to two options")
    if ctx.prop == "C13" and not getattr(ctx, "_sharing", False):
        from .common import share
        share(ctx, "C01", ("R01.5",), "R13.7", "matching obligations shared with C01", 4)
    ctx.rule("R13.8", "the parser-level declaration shorthands go to the default group, found by its key (R15.2 re-evaluated): which group a re-declaration meets does not depend on how groups are named")
    if ctx.prop == "C13" and not getattr(ctx, "_sharing", False):
        from .common import share
        share(ctx, "C15", ("R15.2",), "R13.8", "default-group obligations shared with C15", 3)
    ctx.assume("new declaration entry points are picked up by R13.4's exhaustiveness, not by R13.1")


def _per_group_membership(prog, h, kind_maps):
    """(kinds consulted, shape ok, why) when has_option_with_name is a loop over groups_ with `return true` under per-kind membership
    tests on the group element and `return false` behind the loop; None when it is not such a loop"""
    loops = cfg.loop_blocks(h)
    if len(loops) != 1:
        return None
    head, body = loops[0]
    if "groups_" not in " ".join(fmt(e["expr"]) for _, _, e in h.roots() if e["expr"].get("k") == "decl"):
        return None
    name = h.params[0]["name"] if h.params else "name"
    member_of = {v: k for k, v in kind_maps.items()}
    kinds = set()
    tests = []  # (bid of the branch, cond text)
    for b in body:
        c = h.term(b).get("cond")
        if c is None:
            continue
        for n in walk(c):
            if n.get("k") == "call" and short(n.get("name") or "") in ("count", "find", "contains") and [fmt(ir.unwrap(a)) for a in n.get("args", [])] == [name]:
                recv = ir.unwrap(n.get("this"))
                g = prog.fn(recv.get("callee") or "") if isinstance(recv, dict) and recv.get("k") == "call" else None
                fld = None
                if g is not None and g.has_cfg and g.cls == NS + "group":
                    r0 = [fmt(ir.unwrap(x["expr"].get("e"))) for _, _, x in g.roots() if x["expr"].get("k") == "return"]
                    fld = r0[0] if len(r0) == 1 else None
                elif isinstance(recv, dict) and recv.get("k") == "member":
                    fld = short(recv.get("field") or "")
                if fld in member_of:
                    kinds.add(member_of[fld])
                    tests.append(b)
    if not kinds:
        return None
    rets = [(bid, fmt(ir.unwrap(e["expr"].get("e")))) for bid, _, e in h.roots() if e["expr"].get("k") == "return"]
    ok = True
    why = ""
    for bid, txt in rets:
        if txt == "true":
            # without the true edges of the membership tests the `return true` must be out of reach
            seen, st = set(), [h.entry]
            while st:
                b0 = st.pop()
                if b0 in seen:
                    continue
                seen.add(b0)
                for to, lab in h.succs(b0):
                    if b0 in tests and lab == "true":
                        continue
                    st.append(to)
            if bid in seen:
                ok, why = False, "`return true` can be reached without a membership test of the walk succeeding"
        elif txt == "false":
            if bid in body:
                ok, why = False, "`return false` sits inside the walk: later groups are not consulted"
        else:
            ok, why = False, "returns %s" % txt
    if not any(t == "true" for _, t in rets) or not any(t == "false" for _, t in rets):
        ok, why = False, "does not return both answers"
    return kinds, ok, why
