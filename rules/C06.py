"""C06 - fixed_vector stays inside its storage and never exposes unfilled slots.

Analysed on the template *pattern* (valid for every element type) with the zone domain (A4).
Class invariant I: 0 <= size_ <= capacity_ and data_ holds exactly capacity_ elements.

R06.1 establish   every constructor initialises capacity_ and the make_unique<T[]> argument from the same expression (or takes
                  its state from one source object / delegates) and leaves size_ <= capacity_.
R06.2 preserve    assuming I at entry of every method, I holds at every normal exit; capacity_ is written only by constructors
                  and whole-container assignment.
R06.3 bounds      every subscript data_[e] used as a value: 0 <= e < capacity_ provable; only under & : 0 <= e <= capacity_.
R06.4 checked ops at (both), erase: e < size_ at the access; pop_back: size_ >= 1 before --size_; every ++size_ under size_ < capacity_.
R06.5 no unfilled slot: at every ++size_ the slot written last on this path is index size_.
R06.6 failed single-element operation leaves the container unchanged: no member or slot write precedes a raise on any path.
R06.7 moved-from state: a function that moves from x.data_ sets x.size_ and x.capacity_ to 0 on all paths.
R06.8 ownership (zero expected): no new/delete/malloc/free/release/explicit destructor; storage is std::unique_ptr<T[]>.
Frozen exemption: operator[], front, back, data are unchecked accessors with a caller precondition, as in std::vector.
"""
import re

from sa import ir, cfg, zones
from sa.zones import Zone, Z, ZoneAnalysis
from sa.ir import fmt, walk, short
from .common import callgraph, elem_calls, literal_value
from . import C04

FV = "nitro::lang::fixed_vector"
UNCHECKED = ("operator[]", "front", "back", "data")  # frozen exemption, see module doc
SINGLE_ELEMENT_OPS = ("emplace", "emplace_back", "insert", "push_back", "pop_back", "erase")
W = "$w"  # ghost: index of the slot written last on this path


def manual_memory_hits(f):
    out = []
    for bid, i, e in f.all_elems():
        if e.get("expr") is None:
            continue
        for n in walk(e["expr"]):
            k = n.get("k")
            bad = None
            if k in ("new", "delete", "pseudo_dtor"):
                bad = k
            elif k == "call" and short(n.get("name") or "") in ("malloc", "free", "calloc", "realloc", "release", "operator new", "operator delete", "memcpy", "memmove", "memset"):
                bad = short(n["name"])
            elif k == "call" and short(n.get("name") or "").startswith("~"):
                bad = "explicit destructor call"
            if bad:
                out.append((n, bad))
    return out


def is_this(n):
    n = ir.unwrap(n)
    return isinstance(n, dict) and n.get("k") == "this"


def make_varname(cls):
    def varname(n):
        n = ir.unwrap(n)
        if not isinstance(n, dict):
            return None
        k = n.get("k")
        if k == "member" and not n.get("method"):
            f = short(n["field"])
            b = ir.unwrap(n.get("base"))
            if is_this(b):
                return f
            if isinstance(b, dict) and b.get("k") == "ref":
                return "%s.%s" % (b["decl"].split(":", 1)[1], f)
            return None
        if k == "ref":
            kind, _, name = n["decl"].partition(":")
            if kind in ("local", "param", "tparam"):
                return name
        return None
    return varname


def getters():
    def of(field):
        def g(recv):
            r = ir.unwrap(recv)
            if r is None or is_this(r):
                return field
            if isinstance(r, dict) and r.get("k") == "ref":
                return "%s.%s" % (r["decl"].split(":", 1)[1], field)
            return None
        return g
    return {"size": of("size_"), "capacity": of("capacity_")}


def storage_subscript(n):
    """index expression if n is a subscript of the storage member data_ of *this"""
    if n.get("k") != "subscript":
        return None
    b = ir.unwrap(n.get("base"))
    if isinstance(b, dict) and b.get("k") == "member" and short(b["field"]) == "data_" and is_this(b.get("base")):
        return n.get("idx")
    i = ir.unwrap(n.get("idx"))
    if isinstance(i, dict) and i.get("k") == "member" and short(i["field"]) == "data_" and is_this(i.get("base")):
        return n.get("base")
    return None


BULK = ("std::copy", "std::move", "std::copy_n", "std::fill", "std::fill_n", "std::uninitialized_copy", "std::uninitialized_move",
        "std::uninitialized_copy_n", "std::uninitialized_fill", "std::uninitialized_fill_n")


def own_offset(za, x):
    """(var, const) offset into the storage of *this if x is begin()/end()/data_.get()/&data_[k] (+ k); None otherwise"""
    x = ir.unwrap(x)
    if not isinstance(x, dict):
        return None
    if x.get("k") == "call" and short(x.get("name") or "") in ("begin", "cbegin", "end", "cend") and (x.get("this") is None or is_this(x.get("this"))) and not x.get("args"):
        return (Z, 0) if "begin" in short(x["name"]) else ("size_", 0)
    if x.get("k") == "call" and short(x.get("name") or "") in ("get", "data") and not x.get("args") and (x.get("this") is None or fmt(ir.unwrap(x["this"])) in ("data_", "this") or is_this(x.get("this"))):
        return (Z, 0)
    u = ir.as_unop(x)
    if u and u[0] == "&":
        su = ir.unwrap(u[1])
        if isinstance(su, dict) and su.get("k") == "subscript" and storage_subscript(su) is not None:
            return za.lin(storage_subscript(su))
        return None
    bo = ir.as_binop(x)
    if bo and bo[0] in ("+", "-"):
        base = own_offset(za, bo[1])
        k = za.lin(bo[2])
        if base is not None and k is not None and (k[0] == Z or base[0] == Z):
            sgn = 1 if bo[0] == "+" else -1
            if k[0] == Z:
                return (base[0], base[1] + sgn * k[1])
            if sgn == 1:
                return (k[0], base[1] + k[1])
    return None


def foreign_offset(za, x):
    """(object name, (var, const)) if x is v.data() / v.begin() / v.end() (+ k) of a fixed_vector parameter v"""
    x = ir.unwrap(x)
    if not isinstance(x, dict):
        return None
    if x.get("k") == "call" and short(x.get("name") or "") in ("data", "begin", "cbegin", "end", "cend") and x.get("this") is not None and not x.get("args"):
        o = ir.unwrap(x["this"])
        if isinstance(o, dict) and o.get("k") == "ref" and o.get("decl", "").startswith("param:"):
            nm = o["decl"][6:]
            return (nm, (nm + ".size_", 0) if "end" in short(x["name"]) else (Z, 0))
    bo = ir.as_binop(x)
    if bo and bo[0] == "+":
        b0 = foreign_offset(za, bo[1])
        k = za.lin(bo[2])
        if b0 is not None and k is not None and k[0] == Z:
            return (b0[0], (b0[1][0], b0[1][1] + k[1]))
    return None


def range_len(za, first, last):
    """(var, const) number of elements in [first, last): v.begin()..v.end() of a fixed_vector object -> v.size_; own range -> difference"""
    f, l = ir.unwrap(first), ir.unwrap(last)
    if isinstance(f, dict) and isinstance(l, dict) and f.get("k") == "call" and l.get("k") == "call":
        fn_, ln_ = short(f.get("name") or ""), short(l.get("name") or "")
        if fn_ in ("begin", "cbegin") and ln_ in ("end", "cend") and f.get("this") is not None and l.get("this") is not None and fmt(f["this"]) == fmt(l["this"]):
            o = ir.unwrap(f["this"])
            if isinstance(o, dict) and o.get("k") == "ref":
                return (o["decl"].split(":", 1)[1] + ".size_", 0)
            if is_this(o):
                return ("size_", 0)
    a, b = own_offset(za, first), own_offset(za, last)
    if a is not None and b is not None:
        if a[0] == b[0]:
            return (Z, b[1] - a[1])
        if a[0] == Z:
            return (b[0], b[1] - a[1])
    return None


def invariant(z, prefix=""):
    z.add(Z, prefix + "size_", 0)
    z.add(prefix + "size_", prefix + "capacity_", 0)
    z.add(Z, prefix + "capacity_", 0)
    return z


class FVAnalysis:
    """one zone analysis of one fixed_vector method, with the events the rules need"""

    def __init__(self, ctx, fn, cls):
        self.ctx = ctx
        self.fn = fn
        self.cls = cls
        self.events = []  # (kind, node, zone(copy, closed), bid, elem, extra)
        self.unsigned_vars = {"size_", "capacity_"}
        for p in fn.params:
            if p.get("u"):
                self.unsigned_vars.add(p["name"])
            if _is_fv_object(p):
                self.unsigned_vars.add(p["name"] + ".size_")
                self.unsigned_vars.add(p["name"] + ".capacity_")
        for bid, i, e in fn.roots():
            x = e["expr"]
            if x.get("k") == "decl":
                for v in x.get("vars", []):
                    if v.get("u"):
                        self.unsigned_vars.add(v["name"])
        self.za = ZoneAnalysis(fn, make_varname(cls), getters(), lambda v: v in self.unsigned_vars, self.on_call, self.on_store)
        self.assumed_callee_invariant = False

    def on_call(self, za, z, n):
        nm = short(n.get("name") or "")
        th = n.get("this")
        # a call that hands out a storage slot by reference writes it: replace(data_[k], x) / std::swap(data_[a], data_[b])
        for a in n.get("args", [])[:2]:
            au = ir.unwrap(a)
            if isinstance(au, dict) and au.get("k") == "subscript" and storage_subscript(au) is not None and nm in ("replace", "swap", "iter_swap"):
                if a is n.get("args", [None])[0] or nm in ("swap", "iter_swap"):
                    z.assign(W, za.lin(storage_subscript(au)))
                    self._ev("slot_write", au, z, n)
        # range algorithms that write into the storage: std::copy/move(first, last, dest), copy_n(first, n, dest), fill(b, e, v), fill_n(dest, n, v)
        full = n.get("name") or ""
        if full in BULK and not n.get("this"):
            args = [a for a in n.get("args", []) if not (isinstance(a, dict) and a.get("k") == "defarg")]
            dst = ln = None
            if full in ("std::copy", "std::move", "std::uninitialized_copy", "std::uninitialized_move") and len(args) == 3:
                dst, ln = own_offset(za, args[2]), range_len(za, args[0], args[1])
            elif full in ("std::copy_n", "std::uninitialized_copy_n") and len(args) == 3:
                dst, ln = own_offset(za, args[2]), za.lin(args[1])
            elif full in ("std::fill", "std::uninitialized_fill") and len(args) == 3:
                dst = own_offset(za, args[0])
                e2 = own_offset(za, args[1])
                ln = ("$end", e2) if e2 is not None else None
            elif full in ("std::fill_n", "std::uninitialized_fill_n") and len(args) == 3:
                dst, ln = own_offset(za, args[0]), za.lin(args[1])
            if dst is not None:
                self._ev("bulk_write", n, z, (dst, ln))
            # the source side: reading [first, first + len) out of another fixed_vector's storage
            if full in ("std::copy", "std::move", "std::copy_n", "std::uninitialized_copy", "std::uninitialized_copy_n", "std::uninitialized_move") and len(args) == 3:
                src = foreign_offset(za, args[0])
                if src is not None:
                    sl = za.lin(args[1]) if full.endswith("_n") else None
                    if not full.endswith("_n"):
                        e2 = foreign_offset(za, args[1])
                        sl = ("$end", e2) if e2 is not None and e2[0] == src[0] else None
                    self._ev("bulk_read", n, z, (src, sl))
        # member function of *this that may change the size (non-const / unresolved): havoc size_, assume its postcondition I
        if th is not None and is_this(th) or (n.get("dep") and th is None and nm in self.method_names()):
            cid = n.get("callee")
            from sa.callgraph import is_const_method_id
            if nm in ("replace",):
                return
            if cid and is_const_method_id(cid):
                return
            if nm in ("begin", "end", "cbegin", "cend", "rbegin", "rend", "crbegin", "crend", "data", "size", "capacity", "empty", "front", "back", "at"):
                return
            if self.summarise_call(za, z, n, nm):
                return
            z.forget("size_")
            z.forget(W)
            invariant(z)
            z.close()
            self.assumed_callee_invariant = True
        if nm in ("swap",) and not n.get("dep"):
            for a in n.get("args", []):
                v = za.varname(a)
                if v:
                    z.forget(v)

    def summarise_call(self, za, z, n, nm):
        """a private/inline helper of the class called on *this: analyse its body with the caller's knowledge about
        size_/capacity_ as precondition and continue with its postcondition (a helper that only checks and raises then
        contributes its guard; a helper that bumps size_ contributes that). False if no analysable callee."""
        depth = getattr(self, "depth", 0)
        if depth >= 2:
            return False
        args = [a for a in n.get("args", []) if not (isinstance(a, dict) and a.get("k") == "defarg")]
        cands = [g for g in self.ctx.prog.methods_of(FV) if g.has_cfg and g.is_pattern and g.name == nm and len(g.params) == len(args) and g.id != self.fn.id]
        if len(cands) != 1:
            return False
        callee = cands[0]
        if _is_range_op(callee) or callee.kind == "ctor":
            return False
        keep = {"size_", "capacity_", Z}
        z.close()
        zin = Zone()
        for (x, y), c in z.d.items():
            if x in keep and y in keep:
                zin.add(x, y, c)
        for p, a in zip(callee.params, args):
            t = za.lin(a)
            if t and t[0] in keep and p.get("name"):
                zin.add(p["name"], t[0], t[1])
                zin.add(t[0], p["name"], -t[1])
            if p.get("u") and p.get("name"):
                zin.add(Z, p["name"], 0)
        zin.close()
        sub = FVAnalysis(self.ctx, callee, self.cls)
        sub.depth = depth + 1
        try:
            IN = sub.za.run(zin, None)
        except RuntimeError:
            return False
        out = None
        for b in callee.return_blocks():
            if b not in IN:
                continue
            zz = IN[b].copy()
            for e in callee.elems(b):
                sub.za.transfer(zz, e, None)
            zz.close()
            if zz.bottom:
                continue
            out = zz if out is None else out.join(zz)
        if out is None:
            z.bottom = True  # the helper never returns normally on this path
            return True
        out.close()
        if _writes_size(self.ctx, callee, 0):
            z.forget("size_")
            z.forget(W)
        for (x, y), c in out.d.items():
            if x in keep and y in keep:
                z.add(x, y, c)
        z.close()
        return True

    def on_store(self, za, z, node):
        idx = storage_subscript(node)
        if idx is not None:
            z.assign(W, za.lin(idx))

    def method_names(self):
        return self.ctx._fv_method_names

    def _ev(self, kind, node, z, extra=None):
        if not getattr(self.za, "replaying", False):
            return
        zz = z.copy()
        zz.close()
        self.events.append((kind, node, zz, self._cur[0], self._cur[1], extra))

    def run(self, init):
        self._cur = (None, None)

        def record(kind, node, z, b, e):
            self._cur = (b, e)
            if kind in ("subscript", "subscript_addr", "subscript_write"):
                idx = storage_subscript(node)
                if idx is None:
                    return
                self._ev(kind, node, z)
            elif kind == "incdec":
                self._ev(kind, node, z)
            elif kind == "assign":
                self._ev(kind, node, z)
            elif kind == "call":
                self._cur = (b, e)

        # on_call fires during both the fixpoint and the recording replay; events are only kept from the replay
        self.events = []
        IN = self.za.run(init, record)
        return IN


def run(ctx):
    ctx.rule("R06.13", "outside constructors fresh storage (make_unique / new) is assigned to data_ only where size_ == 0 is established: elements are not destroyed under bounds that describe them while data_ already points elsewhere")
    prog = ctx.prog
    for r, d in (("R06.1", "constructors establish the invariant; capacity_ and the allocation size come from the same expression"),
                 ("R06.2", "every method preserves 0 <= size_ <= capacity_; capacity_ only written at construction/whole assignment"),
                 ("R06.3", "every storage subscript is within [0, capacity_) (value use) or [0, capacity_] (address only)"),
                 ("R06.4", "checked operations test against size_; growth only below capacity_; pop only when non-empty"),
                 ("R06.5", "++size_ only right after slot size_ was written"),
                 ("R06.6", "no write precedes a raise in single-element operations"),
                 ("R06.7", "moved-from container is left empty with capacity 0"),
                 ("R06.8", "no manual memory management; storage is unique_ptr<T[]>")):
        ctx.rule(r, d)
    cls = prog.cls(FV)
    if not ctx.anchor("R06.8", FV, cls is not None and cls.get("pattern")):
        return
    methods = [f for f in prog.methods_of(FV) if f.has_cfg and f.is_pattern]
    ctx._fv_method_names = {f.name for f in methods}
    ctx.need("R06.2", "fixed_vector member functions (pattern)", len(methods), 40)

    # ---- R06.8
    data = [fl for fl in cls["fields"] if short(fl["qual"]) == "data_"]
    ctx.check(bool(data) and re.match(r"std::unique_ptr<.*\[\]>", data[0]["type"].replace(" ", "")) is not None, "R06.8", FV, "storage-is-unique_ptr-array",
              "the storage member is %s" % (data[0]["type"] if data else "missing"), "%s:%d" % (cls["file"], cls["line"]))
    manual = 0
    for f in methods:
        for (n, bad) in manual_memory_hits(f):
            manual += 1
            ctx.bad("R06.8", f, "manual-memory:" + bad, "%s uses %s: element lifetime is no longer managed by unique_ptr<T[]> alone (raw byte copies bypass element assignment)" % (short(f.qual), bad), (f, n.get("ln")))
    from .common import fx
    for nm in ("manual_memory::grow", "manual_memory::shrink", "manual_memory::shift", "manual_memory::raw"):
        g = fx(ctx, nm)
        ctx.fixture("R06.8", nm, g is not None and bool(manual_memory_hits(g)), True, "manual memory recognised")
    # range-algorithm writes: recognised, and the bound is decided both ways
    bw = prog.cls("vfix::bulk_writer")
    for nm, want in (("bulk_writer::refill_bounded", True), ("bulk_writer::copy_unbounded", False)):
        g = fx(ctx, nm)
        got = None
        if g is not None and bw is not None:
            fa = FVAnalysis(ctx, g, bw)
            fa.run(invariant(Zone()))
            evs = [(z, extra) for (kind, node, z, b, e, extra) in fa.events if kind == "bulk_write"]
            if len(evs) == 1:
                got = bulk_bound(evs[0][0], *evs[0][1])[0]
        ctx.fixture("R06.3", nm, got is not None and got == want, True, "range-algorithm write into the storage %s" % ("proved in bounds" if want else "flagged as unbounded"))
    if not manual:
        ctx.ok("R06.8", FV, "no-manual-memory", "%d member functions scanned" % len(methods), "%s:%d" % (cls["file"], cls["line"]))

    n_sub = 0
    n_ctor = 0
    # compiler-generated moves: member-wise - the unique_ptr storage is nulled in the source, the integral size_/capacity_ are only copied
    for op in ("move_ctor", "move_assign"):
        sp = cls.get("special", {}).get(op)
        if sp and not sp.get("deleted") and not sp.get("user_provided") and (sp.get("defaulted") or sp.get("implicit")):
            if op == "move_ctor":
                n_ctor += 1
            for fld in ("size_", "capacity_"):
                ctx.bad("R06.7", FV, "moved-from-%s-zeroed:%s=default" % (fld, op),
                        "fixed_vector's %s is compiler-generated: it moves the storage pointer out of the source and copies %s, so the moved-from container still reports its old %s over null "
                        "storage (size()/at()/iteration on it reach address 0)" % (op.replace("_", " "), fld, "size" if fld == "size_" else "capacity"), "%s:%d" % (cls["file"], cls["line"]))
    cap_writers = []
    n_bulk = [0]
    relies = {}
    for f in sorted(methods, key=lambda f: (f.line, f.id)):
        is_ctor = f.kind == "ctor"
        is_assign = f.op == "="
        a = FVAnalysis(ctx, f, cls)
        init = Zone()
        if is_ctor:
            # in-class initialisers of members that the constructor does not initialise itself
            inited = {short(e.get("field") or "") for _, _, e in f.all_elems() if e["kind"] == "init" and e.get("field")}
            delegating = any(e["kind"] == "init" and (e.get("delegating") or (e.get("base") or "").startswith("fixed_vector")) for _, _, e in f.all_elems())
            for fl in cls["fields"]:
                nm = short(fl["qual"])
                if nm in inited or fl.get("init") is None:
                    continue
                lv = literal_value(fl["init"])
                if lv and lv[0] == "int":
                    init.add(nm, Z, lv[1])
                    init.add(Z, nm, -lv[1])
            for p in f.params:
                if p.get("u"):
                    init.add(Z, p["name"], 0)
                if _is_fv_object(p):
                    invariant(init, p["name"] + ".")
            if delegating:
                invariant(init)
        else:
            invariant(init)
            for p in f.params:
                if p.get("u"):
                    init.add(Z, p["name"], 0)
                if _is_fv_object(p):
                    invariant(init, p["name"] + ".")
        init.close()
        try:
            IN = a.run(init)
        except RuntimeError as ex:
            ctx.broken("R06.2", f, "zone-analysis", str(ex), f)
            continue
        tag = _sig(f)
        # ---- R06.2 / R06.1: invariant at normal exits
        exits = [b for b in f.return_blocks() if b in IN]
        okI = True
        for b in exits:
            z = IN[b].copy()
            for e in f.elems(b):
                a.za.transfer(z, e, None)
            z.close()
            if not (z.entails(Z, "size_", 0) and z.entails("size_", "capacity_", 0)):
                okI = False
                why = z.show()
        if is_ctor:
            n_ctor += 1
            ctx.check(okI, "R06.1", f, "establishes-invariant:" + tag, "constructor can finish with size_ > capacity_ or unknown size_", f)
            # capacity_ and allocation size agree
            capi = None
            alloc = None
            for _, _, e in f.all_elems():
                if e["kind"] == "init" and short(e.get("field") or "") == "capacity_":
                    capi = ir.unwrap(e["expr"])
                if e["kind"] == "init" and short(e.get("field") or "") == "data_":
                    alloc = ir.unwrap(e["expr"])
            if capi is not None or alloc is not None:
                if isinstance(alloc, dict) and alloc.get("k") == "call" and short(alloc.get("name") or "").startswith("make_unique"):
                    a0 = alloc["args"][0] if alloc.get("args") else None
                    ctx.check(capi is not None and fmt(a0) == fmt(capi), "R06.1", f, "capacity-equals-allocation:" + tag,
                              "capacity_ is initialised with %s but the array is allocated with %s elements" % (fmt(capi), fmt(a0)), f)
                elif isinstance(alloc, dict) and alloc.get("k") == "call" and (alloc.get("name") or "") == "std::move":
                    src = fmt(alloc["args"][0]) if alloc.get("args") else ""
                    m = re.fullmatch(r"(\w+)\.data_", src)
                    okc = m is not None and capi is not None and fmt(capi) in ("%s.capacity_" % m.group(1), "%s.capacity()" % m.group(1))
                    ctx.check(okc, "R06.1", f, "capacity-equals-allocation:" + tag, "the array is taken from %s but capacity_ from %s" % (src, fmt(capi)), f)
                else:
                    ctx.broken("R06.1", f, "capacity-equals-allocation:" + tag, "unrecognised storage initialisation %s" % fmt(alloc), f)
        else:
            ctx.check(okI, "R06.2", f, "preserves-invariant:" + tag, "%s can return with size_ outside [0, capacity_]" % short(f.qual), f)
        # capacity writes
        for (kind, node, z, b, e, extra) in a.events:
            if kind in ("assign", "incdec"):
                tgt = ir.unwrap(node.get("l") if kind == "assign" else node.get("e"))
                if a.za.varname(tgt) == "capacity_" and not is_ctor and not is_assign:
                    cap_writers.append(f)
                    ctx.bad("R06.2", f, "capacity-fixed:" + tag, "%s changes capacity_ after construction" % short(f.qual), (f, node.get("ln")))
        # ---- R06.3 / R06.4 on subscripts
        checked_access = f.name in ("at", "erase")
        for (kind, node, z, b, e, extra) in a.events:
            if kind not in ("subscript", "subscript_addr", "subscript_write", "slot_write"):
                continue
            if kind == "slot_write":
                continue
            idx = storage_subscript(node)
            t = a.za.lin_at(z, idx)
            n_sub += 1
            if f.name in UNCHECKED:
                ctx.ok("R06.3", f, "unchecked-accessor:" + tag, "exempt: caller precondition (as std::vector::operator[]/front/back)", (f, node.get("ln")))
                continue
            lo = t is not None and z.entails(Z, t[0], t[1]) if t else False  # 0 - v <= c  <=>  v + c >= 0
            if t is not None and t[0] == Z:
                lo = t[1] >= 0
            if kind == "subscript_addr":
                hi = t is not None and (z.entails(t[0], "capacity_", -t[1]) if t[0] != Z else z.entails(Z, "capacity_", -t[1]))
                what = "address of data_[%s]" % fmt(idx)
                need = "0 <= %s <= capacity_" % fmt(idx)
            else:
                hi = t is not None and (z.entails(t[0], "capacity_", -t[1] - 1) if t[0] != Z else z.entails(Z, "capacity_", -t[1] - 1))
                what = "data_[%s]" % fmt(idx)
                need = "0 <= %s < capacity_" % fmt(idx)
            ctx.check(bool(lo and hi), "R06.3", f, "in-bounds:%s:%s" % (tag, fmt(idx)),
                      "%s in %s: `%s` is not provable (%s%s) [known there: %s]" % (what, short(f.qual), need, "" if lo else "index may be negative / wrap around; ",
                                                                                "" if hi else "upper bound missing", z.show()[:160]), (f, node.get("ln")))
            if checked_access and kind != "subscript_addr":
                lt = t is not None and t[0] != Z and z.entails(t[0], "size_", -t[1] - 1)
                ctx.check(bool(lt), "R06.4", f, "checked-against-size:%s:%s" % (tag, fmt(idx)),
                          "%s accesses data_[%s] without `%s < size_` being established: an index not below size() is accepted (exposes a slot the caller never filled)"
                          % (short(f.qual), fmt(idx), fmt(idx)), (f, node.get("ln")))
        # ---- R06.3 on range algorithms writing into the storage
        for (kind, node, z, b, e, extra) in a.events:
            if kind != "bulk_write":
                continue
            dst, ln = extra
            n_bulk[0] += 1
            hi_ok, desc = bulk_bound(z, dst, ln)
            ctx.check(bool(hi_ok), "R06.3", f, "bulk-write-in-bounds:%s@%s" % (tag, node.get("ln")),
                      "%s writes the slots %s with %s and `end <= capacity_` is not provable [known there: %s]" % (short(f.qual), desc, short(node.get("name") or ""), z.show()[:160]), (f, node.get("ln")))
        # range algorithms READING another container's storage: only its elements, i.e. [.., size_), never the unfilled tail
        for (kind, node, z, b, e, extra) in a.events:
            if kind != "bulk_read":
                continue
            (obj, off), ln = extra
            sz = obj + ".size_"
            okr = False
            if ln is not None and ln[0] == "$end":
                endo = ln[1][1]
                okr = z.entails(endo[0], sz, -endo[1]) if endo[0] != Z else z.entails(Z, sz, -endo[1])
                desc = "[%s, %s)" % (_show_t(off), _show_t(endo))
            elif ln is not None and off[0] == Z:
                okr = z.entails(ln[0], sz, -(ln[1] + off[1])) if ln[0] != Z else z.entails(Z, sz, -(ln[1] + off[1]))
                desc = "[%s, %s + %s)" % (_show_t(off), _show_t(off), _show_t(ln))
            else:
                desc = "[%s, ?)" % _show_t(off)
            ctx.check(bool(okr), "R06.3", f, "bulk-read-within-size:%s@%s" % (tag, node.get("ln")),
                      "%s reads the slots %s of `%s` with %s and `end <= %s.size_` is not provable: slots behind size() hold values the container does not contain (popped, erased or never "
                      "filled ones are copied along; for a moved-from source the range lies over null storage)" % (short(f.qual), desc, obj, short(node.get("name") or ""), obj), (f, node.get("ln")))
        # ---- R06.13: fresh storage is never assigned over live elements. `data_ = make_unique<T[]>(n)` destroys the old elements (user
        # destructors run) at a moment when data_ already points at the new slots while size_ / capacity_ still describe the old content: what
        # a destructor sees through its container - and what a copy taken there reads - are slots the caller never filled, possibly beyond the
        # new allocation. Outside constructors the storage changes hands by swap / move with another consistent container, or the container
        # is provably empty (size_ == 0) when it receives fresh storage
        if not is_ctor:
            for (kind, node, z, b, e, extra) in a.events:
                if kind != "assign" or a.za.varname(ir.unwrap(node.get("l"))) != "data_":
                    continue
                rhs = node.get("r")
                fresh = rhs is not None and any(isinstance(y, dict) and ((y.get("k") == "call" and short(y.get("name") or "") in ("make_unique", "make_unique_for_overwrite")) or y.get("k") == "new") for y in walk(rhs))
                if not fresh:
                    continue
                ctx.check(z.entails("size_", Z, 0), "R06.13", f, "fresh-storage-only-when-empty:" + tag,
                          "%s assigns fresh storage to data_ (`%s`) while size_ may be non-zero: the old elements are destroyed with data_ already pointing at the new slots and size_ / capacity_ "
                          "still describing the old ones - an element destructor (or anything it calls) that looks at its container sees %s slots that were never filled, beyond the new "
                          "allocation when the old size is larger" % (short(f.qual), fmt(node)[:60], "size_"), (f, node.get("ln")), why_ok="size_ == 0 at the assignment")
        # writes that are justified by capacity_ alone (not below size_) need the storage to exist whenever capacity_ > 0
        if not is_ctor:
            # blocks in which *this receives storage (assignment / swap of data_): a write dominated by one of them has its own storage
            sblocks = {b for (kind, node, z, b, e, extra) in a.events if kind == "assign" and a.za.varname(ir.unwrap(node.get("l"))) == "data_"}
            for bb, ii, ee in f.roots():
                for n in walk(ee["expr"]):
                    if n.get("k") == "call" and short(n.get("name") or "") == "swap" and "data_" in fmt(n):
                        sblocks.add(bb)
            dom = cfg.dominators(f)
            for (kind, node, z, b, e, extra) in a.events:
                if kind not in ("subscript_write", "slot_write", "bulk_write"):
                    continue
                if kind == "bulk_write":
                    below = False
                else:
                    t = a.za.lin_at(z, storage_subscript(node))
                    below = t is not None and t[0] != Z and z.entails(t[0], "size_", -t[1] - 1)
                fresh = any(sb in dom.get(b, ()) for sb in sblocks)
                if not below and not fresh:
                    relies.setdefault(f.id, (f, node.get("ln")))
        # ---- R06.4 / R06.5 on size_ updates
        for (kind, node, z, b, e, extra) in a.events:
            if kind != "incdec":
                continue
            if a.za.varname(ir.unwrap(node["e"])) != "size_":
                continue
            if node["op"].startswith("++"):
                ctx.check(z.entails("size_", "capacity_", -1), "R06.4", f, "grow-below-capacity:" + tag, "size_ is incremented without `size_ < capacity_` on that path: size can exceed capacity", (f, node.get("ln")))
                filled = z.entails(W, "size_", 0) and z.entails("size_", W, 0)
                ctx.check(filled, "R06.5", f, "grow-after-fill:" + tag,
                          "size_ is incremented at line %s although the slot written last on this path is not provably index size_: the new element slot is exposed unfilled "
                          "(or the size grows before the element is stored)" % node.get("ln"), (f, node.get("ln")))
            else:
                ctx.check(z.entails(Z, "size_", -1), "R06.4", f, "shrink-when-non-empty:" + tag, "size_ is decremented without `size_ >= 1` on that path (unsigned wrap-around)", (f, node.get("ln")))
        for (kind, node, z, b, e, extra) in a.events:
            if kind == "assign" and a.za.varname(ir.unwrap(node.get("l"))) == "size_" and not is_ctor and not is_assign:
                t = a.za.lin_at(z, node.get("r"))
                # size_ = k : must stay within capacity
                z2 = z.copy()
                z2.assign("size_", t)
                z2.close()
                ctx.check(z2.entails("size_", "capacity_", 0) and z2.entails(Z, "size_", 0), "R06.4", f, "size-assignment-bounded:" + tag, "size_ is assigned %s which is not provably within [0, capacity_]" % fmt(node.get("r")), (f, node.get("ln")))
                # ... and an assignment never GROWS the visible range: the slots between the old and the new size were not written here
                shrinks = t is not None and z.entails(t[0], "size_", -t[1])
                ctx.check(shrinks, "R06.5", f, "size-assignment-does-not-grow:" + tag,
                          "size_ is assigned %s at line %s, which may exceed the current size: the slots in between become visible without having been filled - elements popped or erased earlier "
                          "(or never stored) reappear through at() and iteration" % (fmt(node.get("r")), node.get("ln")), (f, node.get("ln")), why_ok="%s <= size_" % fmt(node.get("r")))
        # ---- R06.6
        if f.name in SINGLE_ELEMENT_OPS and not _is_range_op(f):
            writes = set()
            for (kind, node, z, b, e, extra) in a.events:
                if kind in ("subscript_write", "slot_write"):
                    writes.add(id(e))
                if kind == "incdec" and a.za.varname(ir.unwrap(node["e"])) == "size_":
                    writes.add(id(e))
                if kind == "assign" and a.za.varname(ir.unwrap(node.get("l"))) in ("size_", "capacity_"):
                    writes.add(id(e))
            # calls to members that change the container count as writes too (e.g. a helper that bumps size_)
            for bid, i, e in f.roots():
                for n in elem_calls(e):
                    if n.get("k") == "call" and (is_this(n.get("this")) if n.get("this") is not None else n.get("dep")) and short(n.get("name") or "") in ctx._fv_method_names \
                            and short(n.get("name") or "") not in ("begin", "end", "size", "capacity", "empty", "replace", "cbegin", "cend", "data", "at", "front", "back"):
                        writes.add(id(e))
            raises = [b for b in IN if f.is_noreturn(b)]
            bad = None
            for bid, i, e in f.roots():
                if id(e) in writes and bid in IN:
                    p = cfg.reaches_without(f, (bid, i), lambda x: False, lambda x: False)
                    # reachability of a raise block after this write
                    seen = set()
                    st = [bid]
                    while st:
                        b2 = st.pop()
                        if b2 in seen:
                            continue
                        seen.add(b2)
                        if f.is_noreturn(b2) and b2 != bid:
                            bad = (e, b2)
                            break
                        if f.is_noreturn(b2):
                            continue
                        for to, lab in f.succs(b2):
                            if to in IN:
                                st.append(to)
                    if bad:
                        break
            ctx.check(bad is None, "R06.6", f, "no-write-before-raise:" + tag,
                      "%s modifies the container at line %s and can still raise afterwards: a failed single-element operation does not leave it unchanged"
                      % (short(f.qual), bad[0].get("ln") if bad else "?"), f)
        # ---- R06.7
        moved = []
        for bid, i, e in f.all_elems():
            if e.get("expr") is None:
                continue
            for n in walk(e["expr"]):
                if n.get("k") == "call" and (n.get("name") or "") == "std::move" and n.get("args"):
                    s = fmt(n["args"][0])
                    m = re.fullmatch(r"(\w+)\.data_", s)
                    if m:
                        moved.append((m.group(1), n))
                if n.get("k") == "call" and short(n.get("name") or "") == "swap" and "data_" in fmt(n):
                    pass
        for (src, n) in moved:
            for fld in ("size_", "capacity_"):
                ok_all = True
                for b in exits:
                    z = IN[b].copy()
                    for e in f.elems(b):
                        a.za.transfer(z, e, None)
                    z.close()
                    v = "%s.%s" % (src, fld)
                    if not (z.entails(v, Z, 0) and z.entails(Z, v, 0)):
                        ok_all = False
                ctx.check(ok_all, "R06.7", f, "moved-from-%s-zeroed:%s" % (fld, tag),
                          "%s moves the storage out of `%s` but leaves %s.%s unchanged: the moved-from container reports a %s it no longer has (null storage)"
                          % (short(f.qual), src, src, fld, "size" if fld == "size_" else "capacity"), (f, n.get("ln")))
    # ---- R06.7 (consequence): every function that writes a slot at or beyond size_ trusts "capacity_ > 0 => storage exists".
    # While a moved-from object keeps its capacity over null storage (above), each of them writes through a null pointer
    # when called on such an object - one obligation per function, so that a NEW function of that kind is reported.
    broken_inv = [o for o in ctx.obs if o.rule == "R06.7" and o.status != "ok" and "capacity_" in o.construct]
    for fid, (f, ln) in sorted(relies.items()):
        ctx.check(not broken_inv, "R06.7", f, "storage-exists-for-write:" + C06_sig(f),
                  "%s writes slots at or beyond size_ (line %s) trusting `capacity_ > 0 => storage exists`, which a moved-from object violates: called on a moved-from container it "
                  "writes through a null pointer" % (short(f.qual), ln), (f, ln), why_ok="capacity_ implies storage (moved-from objects have capacity 0)")
    # ---- R06.9: the iterator accessors delimit exactly the filled prefix [0, size_)
    ctx.rule("R06.9", "begin()/cbegin() address slot 0, end()/cend() slot size_ (reverse iterators are built on them): iteration never reaches an unfilled slot")
    n_ptr = 0
    n_acc = 0
    n_deleg = [0]
    # element access that goes through the container's own checked/unchecked accessors instead of touching data_ directly
    for f in methods:
        for _, _, e in f.roots():
            for n0 in walk(e["expr"]):
                if n0.get("k") == "call" and (n0.get("this") is None or is_this(n0.get("this")) or fmt(ir.unwrap(n0.get("this"))) == "(*this)"):
                    nm0 = short(n0.get("name") or "")
                    if (nm0 in ("operator[]", "at", "insert", "emplace_back", "push_back", "emplace") and f.name in ("at", "front", "back", "push_back", "insert", "operator[]")) and nm0 != f.name:
                        n_deleg[0] += 1
    WANT = {"begin": "first", "cbegin": "first", "end": "last", "cend": "last"}
    REV = {"rbegin": "last", "crbegin": "last", "rend": "first", "crend": "first"}

    def slot_address(x):
        """index node / 0 if x is the address of a storage slot: &data_[k], data_.get() + k, data_.get()"""
        x = ir.unwrap(x)
        if not isinstance(x, dict):
            return None
        u = ir.as_unop(x)
        if u and u[0] == "&":
            su = ir.unwrap(u[1])
            if isinstance(su, dict) and su.get("k") == "subscript":
                return storage_subscript(su)
            return None

        def is_get(y, depth=0):
            y = ir.unwrap(y)
            if isinstance(y, dict) and y.get("k") == "call" and short(y.get("name") or "") == "get" and y.get("this") is not None and fmt(ir.unwrap(y["this"])) in ("data_", "this->data_"):
                return True
            # the container's own accessor of the storage pointer: data() { return data_.get(); }
            if depth == 0 and isinstance(y, dict) and y.get("k") == "call" and not [a for a in y.get("args", []) if not (isinstance(a, dict) and a.get("k") == "defarg")] \
                    and (y.get("this") is None or is_this(y.get("this")) or fmt(ir.unwrap(y.get("this"))) == "(*this)"):
                accs = [g for g in methods if g.name == short(y.get("name") or "") and not g.params and g.has_cfg]
                rets = [ir.unwrap(e["expr"].get("e")) for g in accs for _, _, e in g.roots() if e["expr"].get("k") == "return"]
                return bool(accs) and bool(rets) and all(len(list(g.roots())) == 1 for g in accs) and all(is_get(r, 1) for r in rets)
            return False
        if is_get(x):
            return {"k": "lit", "t": "int", "v": 0}
        bo = ir.as_binop(x)
        if bo and bo[0] == "+":
            if is_get(bo[1]):
                return bo[2]
            if is_get(bo[2]):
                return bo[1]
        return None

    for f in sorted(methods, key=lambda f: (f.line, f.id)):
        role = WANT.get(f.name) or REV.get(f.name)
        if role is None or f.params:
            continue
        n_acc += 1
        rr = [ir.unwrap(e["expr"].get("e")) for _, _, e in f.roots() if e["expr"].get("k") == "return" and e["expr"].get("e") is not None]
        tag = f.name + (":const" if f.flags.get("const") else "")
        if len(rr) != 1:
            ctx.broken("R06.9", f, "iterator-bound:" + tag, "%s has %d return statements: accessor shape not recognised" % (f.name, len(rr)), f)
            continue
        x = rr[0]
        # a reverse accessor that delegates to its sibling of the same end (crbegin() { return rbegin(); })
        if f.name in REV and isinstance(x, dict) and x.get("k") == "call" and short(x.get("name") or "") in REV and short(x.get("name") or "") != f.name \
                and not [a for a in x.get("args", []) if a.get("k") != "defarg"] and (x.get("this") is None or is_this(x.get("this"))):
            ctx.check(REV[short(x["name"])] == role, "R06.9", f, "iterator-bound:" + tag, "%s() delegates to %s(), the other end of the range" % (f.name, short(x["name"])), f,
                      why_ok="delegates to %s()" % short(x["name"]))
            n_deleg[0] += 1
            continue
        if f.name in REV:
            # reverse_iterator(<forward accessor of the opposite end>) or reverse_iterator(<slot address>)
            ps = None
            if isinstance(x, dict) and x.get("k") in ("construct", "paren_list"):
                ps = [a for a in x.get("args", x.get("kids", [])) if not (isinstance(a, dict) and a.get("k") == "defarg")]
            elif isinstance(x, dict) and x.get("k") == "cast":
                ps = [x["e"]]
            elif isinstance(x, dict) and x.get("k") == "call" and (x.get("name") or "").endswith("make_reverse_iterator"):
                ps = x.get("args", [])
            if not ps or len(ps) != 1:
                ctx.broken("R06.9", f, "iterator-bound:" + tag, "%s returns %s: not a reverse_iterator built from one forward position" % (f.name, fmt(x)), f)
                continue
            x = ir.unwrap(ps[0])
            if isinstance(x, dict) and x.get("k") == "call" and short(x.get("name") or "") in WANT and not [a for a in x.get("args", []) if a.get("k") != "defarg"]:
                got = WANT[short(x["name"])]
                ctx.check(got == role, "R06.9", f, "iterator-bound:" + tag, "%s() is built on %s(): reverse iteration starts/stops at the wrong end" % (f.name, short(x["name"])), f, why_ok="reverse of %s()" % short(x["name"]))
                continue
        # delegation to a sibling accessor of the same end (cbegin() { return begin(); })
        if isinstance(x, dict) and x.get("k") == "call" and short(x.get("name") or "") in WANT and not [a for a in x.get("args", []) if a.get("k") != "defarg"] \
                and (x.get("this") is None or is_this(x.get("this"))) and short(x.get("name") or "") != f.name:
            ctx.check(WANT[short(x["name"])] == role, "R06.9", f, "iterator-bound:" + tag, "%s() delegates to %s(), the other end of the range" % (f.name, short(x["name"])), f,
                      why_ok="delegates to %s()" % short(x["name"]))
            n_deleg[0] += 1
            continue
        idx = slot_address(x)
        if idx is None:
            ctx.broken("R06.9", f, "iterator-bound:" + tag, "%s returns %s: not an address into the storage in a recognised form" % (f.name, fmt(rr[0])), f)
            continue
        if not (ir.as_unop(x) and ir.as_unop(x)[0] == "&"):
            n_ptr += 1  # pointer-arithmetic form: not among the subscripts R06.3 counted
        a = FVAnalysis(ctx, f, cls)
        z0 = invariant(Zone())
        IN = a.run(z0)
        t = a.za.lin_at(z, idx)
        want_var = Z if role == "first" else "size_"
        ok = t is not None and t[1] == 0 and t[0] == want_var
        if t is not None and not ok and role == "last" and t[0] not in (Z,):
            # equal to size_ by the path condition?
            rb = f.return_blocks()
            zz = IN.get(rb[0]) if rb else None
            if zz is not None:
                zz = zz.copy()
                zz.close()
                ok = zz.entails(t[0], "size_", -t[1]) and zz.entails("size_", t[0], t[1])
        ctx.check(bool(ok), "R06.9", f, "iterator-bound:" + tag,
                  "%s() yields the address of slot `%s` instead of slot %s: the range [begin, end) %s" % (f.name, fmt(idx), "0" if role == "first" else "size_",
                  "reaches slots that were never filled (capacity instead of size)" if role == "last" else "does not start at the first element"), f, why_ok="slot " + fmt(idx))
    ctx.need("R06.9", "iterator accessors of fixed_vector", n_acc, 8)
    ctx.need("R06.3", "storage subscripts, slot addresses and delegations to sibling accessors", n_sub + n_ptr + n_deleg[0], 16)
    ctx.need("R06.1", "constructors", n_ctor, 5)
    # std::get<I>
    gets = [f for f in prog.fns.values() if f.has_cfg and f.qual == "std::get" and "fixed_vector" in f.id and f.is_pattern]
    ctx.need("R06.4", "std::get<I>(fixed_vector&) overloads", len(gets), 1)
    for f in gets:
        rets = [fmt(ir.unwrap(e["expr"].get("e"))) for _, _, e in f.roots() if e["expr"].get("k") == "return"]
        pn = f.params[0]["name"]
        ctx.check(rets == ["%s.at(I)" % pn], "R06.4", f, "get-is-checked", "std::get<I> returns %s instead of the checked %s.at(I)" % (rets, pn), f)
    ctx.trust("std::unique_ptr<T[]> destroys every element exactly once (Appendix D.3)")
    ctx.rule("R06.10", "a container built or filled FROM another range leaves that range's elements alone, and the bookkeeping members hold the full requested capacity (R07.6, R07.9 re-evaluated): "
                       "a source emptied by a hidden move shows its owner slots it never stored")
    if ctx.prop == "C06" and not getattr(ctx, "_sharing", False):
        from .common import share
        share(ctx, "C07", ("R07.6", "R07.9"), "R06.10", "forwarding / width obligations shared with C07", 4)
        ctx.rule("R06.14", "whole-container assignment builds its temporary with the copy / move / (capacity, list) constructor in every instantiation (R07.11 re-evaluated): "
                           "a temporary built by the initializer_list constructor has another size and capacity than the source - the target exposes elements nobody stored")
        share(ctx, "C07", ("R07.11",), "R06.14", "temporaries of the assignment operators, shared with C07", 6)
    # ---- R06.15 (type level): the index / size types are as wide as std::size_t
    ctx.rule("R06.15", "index-width (type-level witnesses, witness/tl_C06.cpp): size_type holds every std::size_t, size() / capacity() report in that width - an index is never cut before the bounds check sees it")
    import os as _os
    from sa import witness as _witness
    from sa.extract import VERIF as _VERIF
    _witness.apply(ctx, lambda t: "R06.15", _os.path.join(_VERIF, "witness", "tl_C06.cpp"))
    if ctx.tier == "thorough":
        _witness.apply(ctx, lambda t: "R06.15", _os.path.join(_VERIF, "witness", "tl_C06.cpp"), compiler="g++", label="g++ gnu++17")
    _noexcept_elements(ctx)
    ctx.rule("R06.12", "no catch handler in fixed_vector lets an exception vanish: an operation that cannot be satisfied, or an element whose copy / move throws, is reported to the caller")
    from .common import rule_handlers
    rule_handlers(ctx, "R06.12", lambda g: g.file.endswith("lang/fixed_vector.hpp"), ("nitro::except::exception",), "the refusal has to reach the caller", minimum=40)
    ctx.assume("element-type behaviour (throwing copies/moves) is covered only through R06.5/R06.6's ordering argument")


_NOTHROW_STD = ("move", "forward", "addressof", "min", "max", "distance", "next", "prev", "get")


def _nothrow_type(ctx, t):
    t = (t or "").replace("const ", "").strip()
    while t.endswith("&"):
        t = t[:-1].strip()
    if t.endswith("*") or t.startswith(("std::unique_ptr<", "unique_ptr<")):
        return True
    if re.fullmatch(r"(nitro::lang::fixed_vector::)?(size_type|difference_type|pointer|const_pointer|iterator|const_iterator)", t):
        return True
    return re.fullmatch(r"(unsigned |signed )?(int|long|long long|short|char|bool)|std::size_t|size_t|std::ptrdiff_t|ptrdiff_t", t) is not None


def _lhs_type(ctx, f, n):
    """declared type of the object an assignment / swap / exchange writes, None when it is element storage"""
    n = ir.unwrap(n) if hasattr(ir, "unwrap") else n
    if not isinstance(n, dict):
        return None
    if n.get("k") == "member":
        fld = short(n.get("field") or "")
        for c in (ctx.prog.classes.get(FV) or {}).get("fields", []):
            if c["name"] == fld:
                return c["type"]
        return None
    if n.get("k") == "ref":
        return n.get("type")
    return None


def _element_throwers(ctx, f, depth=0, seen=None):
    """[(node, why)]: what a member of fixed_vector does that an element type or the allocator may answer with an exception"""
    seen = seen if seen is not None else set()
    if f.id in seen or depth > 4:
        return []
    seen.add(f.id)
    out = []
    for bid, i, e in f.all_elems():
        x = e.get("expr")
        if not isinstance(x, dict) and not isinstance(x, list):
            continue
        if e["kind"] == "init" and e.get("field"):
            pass
        for n in walk(x, into_sc=True):
            k = n.get("k")
            if k == "bin" and n.get("op") in ("=", "+=", "-=") and n.get("type") == "<dependent type>":
                if not _nothrow_type(ctx, _lhs_type(ctx, f, n["l"])):
                    out.append((n, "assigns an element (`%s`): the element type's assignment may throw" % fmt(n)[:60]))
            elif k == "throw":
                out.append((n, "throws"))
            elif k == "new":
                out.append((n, "allocates (`%s`)" % fmt(n)[:40]))
            elif k == "decl":
                for v in n.get("vars", []):
                    t = (v.get("type") or "")
                    if re.match(r"(nitro::lang::)?fixed_vector\b", t.replace("const ", "")) and not t.rstrip().endswith(("&", "*")):
                        ini = v.get("init")
                        els = ini.get("elems") if isinstance(ini, dict) and ini.get("k") == "paren_list" else None
                        moved = els is not None and len(els) == 1 and isinstance(els[0], dict) and els[0].get("k") == "call" and els[0].get("name") == "std::move"
                        if moved:
                            mc = [g for g in ctx.prog.methods_of(FV) if g.has_cfg and g.is_pattern and g.flags.get("move_ctor")]
                            for g in mc:
                                out += [(n, "%s -> %s" % ("move construction", w)) for (_, w) in _element_throwers(ctx, g, depth + 1, seen)]
                        else:
                            out.append((n, "constructs a container (`%s`): allocates and copies elements" % fmt(n)[:60]))
            elif k == "call":
                nm = n.get("name") or ""
                sn = short(nm)
                if n.get("noreturn") or sn == "raise":
                    out.append((n, "raises (`%s`)" % fmt(n)[:50]))
                    continue
                if nm.startswith("std::"):
                    if sn in _NOTHROW_STD and not (sn == "move" and len(n.get("args", [])) > 1):
                        continue
                    if sn in ("swap", "exchange") and n.get("args") and _nothrow_type(ctx, _lhs_type(ctx, f, n["args"][0])):
                        continue
                    if n.get("dep") or sn in ("make_unique", "copy", "move", "swap", "exchange", "fill", "copy_n", "move_backward", "copy_backward", "swap_ranges", "rotate"):
                        out.append((n, "`%s` works on elements or allocates" % fmt(n)[:50]))
                    continue
                if n.get("callee"):
                    g = ctx.prog.fn(n["callee"])
                    if g is not None and g.has_cfg and g.file.startswith("/repo/"):
                        out += [(n, "%s -> %s" % (short(g.qual), w)) for (_, w) in _element_throwers(ctx, g, depth + 1, seen)]
                    continue
                if n.get("dep") and (n.get("this") is None or is_this(n.get("this"))):
                    sibs = [g for g in ctx.prog.methods_of(FV) if g.has_cfg and g.is_pattern and g.name == sn and g.id != f.id and len(g.params) == len(n.get("args", []))]
                    for g in sibs:
                        out += [(n, "%s -> %s" % (_sig(g), w)) for (_, w) in _element_throwers(ctx, g, depth + 1, seen)]
    return out


def _noexcept_elements(ctx):
    ctx.rule("R06.11", "a member of fixed_vector declared noexcept performs nothing an element type or the allocator may answer with an exception (element assignment, "
                       "container construction other than by move, allocation, raise): the exception of a failed operation has to reach the caller, not std::terminate")
    n = 0
    scanned = 0
    seen = set()
    for f in sorted(ctx.prog.methods_of(FV), key=lambda g: g.id):
        if not f.has_cfg or not f.is_pattern or (f.file, f.line) in seen:
            continue
        seen.add((f.file, f.line))
        scanned += 1
        if not f.flags.get("noexcept"):
            continue
        n += 1
        th = _element_throwers(ctx, f)
        if th:
            ctx.bad("R06.11", f, "noexcept-element-op:%s" % _sig(f), "%s is noexcept but %s" % (_sig(f), th[0][1]), (f, th[0][0].get("ln")))
        else:
            ctx.ok("R06.11", f, "noexcept-element-op:%s" % _sig(f), "nothing that may throw", f)
    ctx.need("R06.11", "members of fixed_vector scanned (%d of them noexcept)" % n, scanned, 40)


def _writes_size(ctx, f, depth):
    for bid, i, e in f.roots():
        for n in walk(e["expr"], into_sc=False):
            if n.get("k") == "un" and n["op"] in ("++pre", "++post", "--pre", "--post") and fmt(n["e"]) == "size_":
                return True
            if n.get("k") == "bin" and n["op"] in ("=", "+=", "-=") and fmt(n["l"]) == "size_":
                return True
            if n.get("k") == "call" and short(n.get("name") or "") in ("swap",) and "size_" in fmt(n):
                return True
            if n.get("k") == "call" and depth < 2 and (is_this(n.get("this")) if n.get("this") is not None else n.get("dep")):
                nm = short(n.get("name") or "")
                for g in ctx.prog.methods_of(FV):
                    if g.has_cfg and g.is_pattern and g.name == nm and g.id != f.id and nm not in ("begin", "end", "size", "capacity", "replace"):
                        if _writes_size(ctx, g, depth + 1):
                            return True
    return False


def _is_fv_object(p):
    """parameter is a fixed_vector object / reference (not one of its nested typedefs such as fixed_vector::pointer)"""
    t = (p.get("type") or "").replace("const ", "").strip()
    if re.search(r"fixed_vector::\w+\s*(&&|&|\*)?$", t):
        return False
    return re.search(r"fixed_vector(<.*>)?\s*(&&|&)?$", t) is not None


def _sig(f):
    ps = ",".join((p.get("type") or "").replace("nitro::lang::fixed_vector::", "").replace("fixed_vector<value_type>", "fixed_vector") for p in f.params)
    return "%s(%s)%s" % (f.name if f.kind != "ctor" else "ctor", ps, " const" if f.flags.get("const") else "")


def _is_range_op(f):
    return any(p.get("name") in ("start", "end", "first", "last") or "Iter" in (p.get("type") or "") or "initializer_list" in (p.get("type") or "") for p in f.params)


def _show_t(t):
    if t is None:
        return "?"
    if t[0] == Z:
        return str(t[1])
    return t[0] + ("" if not t[1] else " + %d" % t[1] if t[1] > 0 else " - %d" % -t[1])


def C06_sig(f):
    return _sig(f)


def bulk_bound(z, dst, ln):
    """is `end of the written range <= capacity_` provable in zone z? returns (ok, description of the range)"""
    hi_ok = False
    if ln is not None and ln[0] == "$end":
        endo = ln[1]
        hi_ok = endo is not None and (z.entails(endo[0], "capacity_", -endo[1]) if endo[0] != Z else z.entails(Z, "capacity_", -endo[1]))
        desc = "[%s, %s)" % (_show_t(dst), _show_t(endo))
    elif ln is not None:
        desc = "[%s, %s + %s)" % (_show_t(dst), _show_t(dst), _show_t(ln))
        if dst[0] == Z:
            hi_ok = z.entails(ln[0], "capacity_", -(ln[1] + dst[1])) if ln[0] != Z else z.entails(Z, "capacity_", -(ln[1] + dst[1]))
        elif ln[0] == Z:
            hi_ok = z.entails(dst[0], "capacity_", -(ln[1] + dst[1]))
    else:
        desc = "[%s, ?)" % _show_t(dst)
    return bool(hi_ok), desc
