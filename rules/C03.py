"""C03 - value sources are ranked: command line, then environment, then default.

R03.1 (A2) the env::get call in each check() is dominated by has_env AND not-given.
R03.2 (A2) every use of the environment value is dominated by !env_value.empty().
R03.3 (A1/A2) no path both applies an environment value and assigns from default_; the default assignment is dominated
      by not-given; the required-option raise is dominated by not-given AND no-default AND !optional.
R03.4 (A1/A5) dirty_ is set on every normal exit of every update_value, on the environment path of every check(), and on no
      path that assigns from the default; parse() builds the provided set from has_non_default() for all three kinds.
R03.5 (A6) the value stored on the environment path is a copy-only carrier of the env::get result (multi_option: of each
      ';'-separated piece obtained with getline(stream-of-the-value, piece, ';')).
R03.6 = R19.1 (env::get returns the default only when getenv is null).
"""
import re

from sa import ir, cfg, logic, facts, valueflow
from sa.ir import fmt, walk, short
from sa.logic import Not, And, canon
from sa.callgraph import tree_effects, lvalue_root
from .common import NS, KINDS, PARSE_VEC, callgraph, one, elem_calls, literal_value

# slot table (frozen; one line of reason each): how each kind spells "nothing was given on the command line"
NOT_GIVEN = {
    "option": Not(("a", "nonnull(this.value_.data_)")),  # option::value_ is an optional<string>; !value_
    "multi_option": ("a", "this.value_.empty()"),  # list of values
    "toggle": Not(("a", "this.dirty_")),  # a toggle may legitimately count 0 (--no-x), so the provided flag is the test
}
HAS_DEFAULT = {
    "option": ("a", "nonnull(this.default_.data_)"),
    "multi_option": ("a", "nonnull(this.default_)"),
}
VALUE_FIELD = {"option": NS + "option::value_", "multi_option": NS + "multi_option::value_", "toggle": NS + "toggle::given_"}
DIRTY = NS + "base::dirty_"
ENV_GET = "nitro::env::get"


def writes_of(e, field):
    """nodes in element e that write `field` of *this (with rhs)"""
    out = []
    x = e.get("expr")
    if x is None:
        return out
    for eff, lv, n in tree_effects(x, into_sc=False):
        if eff in ("write", "maybe_write") and lv is not None:
            kind, key, _ = lvalue_root(lv)
            if kind == "field" and key[0] == field and key[1] == "this":
                rhs = None
                if n.get("k") == "bin":
                    rhs = n["r"]
                elif n.get("k") == "call":
                    rhs = n["args"][0] if n.get("args") else None
                out.append((n, rhs))
    return out


def state_writes(prog, cg, e, field, depth=0):
    """writes of `field` of *this by element e, directly or through a call on this whose callee writes it
    (effects modulo summaries): [(node, rhs expression in the caller's vocabulary)]"""
    out = list(writes_of(e, field))
    x = e.get("expr")
    if x is None or depth > 2:
        return out
    for n in walk(x, into_sc=False):
        if n.get("k") == "call" and n.get("this") is not None and ir.unwrap(n["this"]).get("k") == "this":
            for t in cg.targets_of(n):
                callee = prog.fn(t)
                if callee is None or not callee.has_cfg or not callee.file.startswith("/repo/"):
                    continue
                params = {}
                for p, a in zip(callee.params, n.get("args", [])):
                    if p.get("name"):
                        params[p["name"]] = a
                for b2, i2, e2 in callee.roots():
                    for (wn, rhs) in state_writes(prog, cg, e2, field, depth + 1):
                        out.append((n, logic.subst(rhs, {"this": None, "params": params}) if rhs is not None else None))
    return out


def mentions_member(n, field_short):
    for x in walk(n):
        if x.get("k") == "member" and short(x["field"]) == field_short:
            return True
    return False


def run(ctx):
    prog = ctx.prog
    cg = callgraph(ctx)
    fe = facts.FactsEngine(prog, cg)
    lg = fe.lg
    for r, d in (("R03.1", "env::get dominated by has_env and not-given"), ("R03.2", "env value used only when non-empty"),
                 ("R03.3", "default only when not given and no env value applied; required raise under the full condition"),
                 ("R03.4", "dirty_ set by command line and environment, never by the default; provided = has_non_default for all kinds"),
                 ("R03.5", "environment value stored verbatim")):
        ctx.rule(r, d)
    ctx.tables["not_given_slot"] = {k: logic.show(v) for k, v in NOT_GIVEN.items()}

    nchecks = nenv = ndefault = nraise = 0
    for k in KINDS:
        f = one(ctx, "R03.1", NS + k + "::check")
        if not f:
            continue
        nchecks += 1
        IN, before = fe.analyse(f)
        has_env = Not(("a", "this.env_.empty()"))
        ng = NOT_GIVEN[k]
        vf = VALUE_FIELD[k]
        # --- locate the env::get call and the local holding its result
        env_local = None
        env_pos = None
        for bid, i, e in f.roots():
            x = e["expr"]
            if x.get("k") == "decl":
                for v in x.get("vars", []):
                    init = ir.unwrap(v.get("init"))
                    if isinstance(init, dict) and init.get("k") == "call" and init.get("name") == ENV_GET:
                        env_local, env_pos = v["name"], (bid, i, init)
            for n in elem_calls(e):
                if n.get("name") == ENV_GET and env_pos is None:
                    env_pos = (bid, i, n)
        if env_pos is None:
            ctx.broken("R03.1", f, "env-lookup", "no call of nitro::env::get found in %s::check(): environment idiom not recognised" % k, f)
            continue
        nenv += 1
        bid, i, n = env_pos
        # first argument must be the option's own env name
        a0 = fmt(n["args"][0]) if n.get("args") else ""
        ctx.check(a0 in ("env()", "env_"), "R03.1", f, "env-name", "env::get is called with %s, not the option's bound variable" % a0, (f, n.get("ln")))
        ok, cm = fe.proves(f, bid, i, has_env)
        ctx.check(ok, "R03.1", f, "env-under-has_env", "the environment is consulted although no variable is bound", (f, n.get("ln")))
        ok, cm = fe.proves(f, bid, i, ng)
        ctx.check(ok, "R03.1", f, "env-under-not-given",
                  "%s::check() consults the environment on a path where a command-line value may have been given (`%s` is not established): "
                  "the environment can override the command line" % (k, logic.show(ng)), (f, n.get("ln")),
                  detail={"facts": [logic.show(x) for x in (before.get((bid, i)) or [])]})
        # --- R03.10 (liveness of the second rank): whenever nothing was given on the command line and a variable is bound, check() asks
        # the environment - no way through the function (to a return or to the 'missing value' raise) avoids the lookup under those two conditions
        ctx.rule("R03.10", "check() consults the environment on every path where the option was not given and a variable is bound (no further condition - optional, no default - in front of the lookup)")
        ends = [f.exit] + [b for b in f.reachable_blocks() if f.is_noreturn(b)]
        nwo = 0
        seen_paths = set()
        for endb in ends:
            try:
                paths = cfg.acyclic_paths(f, f.entry, endb)
            except RuntimeError:
                ctx.broken("R03.10", f, "env-consulted-whenever-bound", "too many paths through check()", f)
                continue
            for path in paths:
                key = tuple(b for b, _ in path)
                if key in seen_paths or bid in key:
                    continue
                if endb == f.exit and any(f.is_noreturn(b) for b in key):
                    continue
                seen_paths.add(key)
                conds = [ng, has_env]
                for (b, lab) in path:
                    c = f.term(b).get("cond")
                    if c is None or lab not in ("true", "false"):
                        continue
                    t = lg.truthy(c, {}, 0)
                    conds.append(t if lab == "true" else Not(t))
                sat = logic.satisfiable(conds, lg.axioms)
                nwo += 1
                ctx.check(not sat, "R03.10", f, "env-consulted-whenever-bound:B%s" % "-".join(map(str, key)),
                          "%s::check() can finish along blocks %s without asking the environment although the option was not given and a variable is bound (condition: %s): "
                          "a set variable is ignored there - the option stays absent / gets its default / is reported missing, and the usage text still advertises the variable"
                          % (k, "->".join("B%s" % b for b in key), " && ".join(logic.show(c) for c in conds[2:])[:300]), f, why_ok="infeasible when not given and a variable is bound")
        ctx.need("R03.10", "lookup-free paths through %s::check" % k, nwo, 1)
        # --- R03.2: uses of the env value
        if env_local is None:
            ctx.broken("R03.2", f, "env-local", "the env::get result is not kept in a local: idiom not recognised", (f, n.get("ln")))
            continue
        nonempty = Not(("a", "%s.empty()" % env_local))
        uses = []
        for b2, i2, e2 in f.roots():
            x = e2["expr"]
            if (b2, i2) == (bid, i):
                continue
            refs = [y for y in walk(x) if y.get("k") == "ref" and y.get("decl") == "local:" + env_local]
            if not refs:
                continue
            s = fmt(x)
            if re.fullmatch(r"\(?!?%s\.empty\(\)\)?" % re.escape(env_local), s):
                continue  # the emptiness test itself
            uses.append((b2, i2, e2))
        for b2, i2, e2 in uses:
            ok, cm = fe.proves(f, b2, i2, nonempty)
            ctx.check(ok, "R03.2", f, "env-use-nonempty@%s" % _rel(f, e2), "the environment value is used at line %s without `!%s.empty()`: an empty "
                      "variable would count as a source" % (e2.get("ln"), env_local), (f, e2.get("ln")))
        ctx.need("R03.2", "uses of the environment value in %s::check" % k, len(uses), 1)

        # --- classify writes of the value state
        env_applies, default_assigns = [], []
        for b2, i2, e2 in f.roots():
            for (wn, rhs) in state_writes(prog, cg, e2, vf):
                st = before.get((b2, i2))
                if st is None:
                    continue
                from_default = rhs is not None and mentions_member(rhs, "default_")
                if from_default:
                    default_assigns.append((b2, i2, e2, wn, rhs))
                elif logic.entails(st, nonempty, lg.axioms)[0]:
                    env_applies.append((b2, i2, e2, wn, rhs))
                else:
                    ctx.bad("R03.3", f, "unclassified-write@%s" % _rel(f, e2),
                            "check() writes %s at line %s neither from the environment value nor from default_" % (short(vf), e2.get("ln")), (f, e2.get("ln")))
        if not env_applies:
            ctx.broken("R03.5", f, "env-apply", "no write of %s on the environment path of %s::check()" % (short(vf), k), f)
        ctx.need("R03.3", "default assignment in %s::check" % k, len(default_assigns), 1)
        ndefault += len(default_assigns)
        # modulo callee summaries (that update_value sets dirty_ on *every* exit is R03.4a's obligation)
        is_dirty_true = lambda e: any(literal_value(r) == ("bool", True) for (_, r) in state_writes(prog, cg, e, DIRTY) if r is not None)
        is_dirty_any = lambda e: bool(state_writes(prog, cg, e, DIRTY))
        for (b2, i2, e2, wn, rhs) in default_assigns:
            ok, cm = fe.proves(f, b2, i2, ng)
            ctx.check(ok, "R03.3", f, "default-under-not-given", "the default is assigned on a path where a command-line value may be present", (f, e2.get("ln")))
            # no env application before / after on the same path
            for (b3, i3, e3, _, _) in env_applies:
                p = cfg.reaches_without(f, (b3, i3), lambda e, t=e2: e is t, lambda e: False)
                ctx.check(p is None, "R03.3", f, "env-xor-default", "a path applies the environment value (line %s) and then assigns the default (line %s): the default overrides the environment"
                          % (e3.get("ln"), e2.get("ln")), (f, e2.get("ln")))
            # R03.4c: no dirty write on a default path
            p1 = cfg.reaches_without(f, (b2, i2), is_dirty_any, lambda e: False)
            p0 = None
            for (b4, i4, e4) in cfg.find_elems(f, is_dirty_any):
                if cfg.reaches_without(f, (b4, i4), lambda e, t=e2: e is t, lambda e: False) is not None:
                    p0 = (b4, i4)
            ctx.check(p1 is None and p0 is None, "R03.4", f, "default-not-provided",
                      "a path assigns the default and sets dirty_: a defaulted option would be reported as provided", (f, e2.get("ln")))
        # --- R03.3 required raise
        if k in HAS_DEFAULT:
            rb = [b for b in IN if f.is_noreturn(b)]
            ctx.need("R03.3", "required-option raise in %s::check" % k, len(rb), 1)
            for b in rb:
                nraise += 1
                goal = And(ng, And(Not(HAS_DEFAULT[k]), Not(("a", "this.is_optional_"))))
                r, cm = logic.entails(IN[b], goal, lg.axioms)
                ctx.check(bool(r), "R03.3", f, "required-raise-condition",
                          "the 'missing value' error can be raised although %s" % _explain(cm), (f, None),
                          why_ok="raised only under %s" % logic.show(goal))
        # --- R03.3 (liveness): a path that leaves check() without writing the value state is only there for a given option
        # or for one without a default - path-sensitively, over the acyclic paths of check()
        wr = {id(x[2]) for x in env_applies} | {id(x[2]) for x in default_assigns}
        npaths = 0
        hasdef = HAS_DEFAULT.get(k)
        for rb in (f.exit,):
            try:
                paths = cfg.acyclic_paths(f, f.entry, rb)
            except RuntimeError:
                ctx.broken("R03.3", f, "default-whenever-no-other-source", "too many paths through check()", f)
                continue
            for path in paths:
                if any(id(e) in wr for (b, _) in path for e in f.elems(b)):
                    continue
                npaths += 1
                conds = [ng] + ([hasdef] if hasdef is not None else [])
                for (b, lab) in path:
                    c = f.term(b).get("cond")
                    if c is None or lab not in ("true", "false"):
                        continue
                    t = lg.truthy(c, {}, 0)
                    conds.append(t if lab == "true" else Not(t))
                sat = logic.satisfiable(conds, lg.axioms)
                if sat and logic.entails(conds, nonempty, lg.axioms)[0] is True:
                    continue  # the environment is the source on this path (what it stores is R03.5's obligation)
                ctx.check(not sat, "R03.3", f, "default-whenever-no-other-source:B%s" % "-".join(str(b) for b, _ in path),
                          "%s::check() can return along blocks %s with the value state untouched although nothing was given on the command line%s: "
                          "the declared default is skipped on that path (condition: %s)"
                          % (k, "->".join("B%s" % b for b, _ in path), " and a default is declared" if hasdef is not None else " (a toggle always has a default)",
                             " && ".join(logic.show(c) for c in conds[1:])[:300]), f, why_ok="infeasible when not given")
        ctx.need("R03.3", "write-free paths through %s::check" % k, npaths, 1)
        # --- R03.4b: env path sets dirty_
        for (b3, i3, e3, wn, rhs) in env_applies:
            # from the start of the function along any path through e3 to the exit a dirty_=true write must occur:
            before_ok = cfg.reaches_without(f, (f.entry, -1), lambda e, t=e3: e is t, is_dirty_true) is None
            after_ok = cfg.reaches_without(f, (b3, i3), cfg.EXIT, is_dirty_true) is None
            ctx.check(before_ok or after_ok or is_dirty_true(e3), "R03.4", f, "env-sets-provided@%s" % _rel(f, e3),
                      "the environment value is applied at line %s but dirty_ is not set on every such path: an option taken from the "
                      "environment would not be reported as provided" % e3.get("ln"), (f, e3.get("ln")))
            # --- R03.5 carrier
            src = lambda m: isinstance(m, dict) and m.get("k") == "call" and m.get("name") == ENV_GET

            def out_param_ok(call, name, env_local=env_local, f=f):
                # std::getline(stream, piece, ';') where the stream local only ever receives `<< env value`
                if short(call.get("name") or "") != "getline":
                    return False
                args = call.get("args", [])
                if len(args) != 3:
                    return False
                d = ir.unwrap(args[2])
                while isinstance(d, dict) and d.get("k") == "cast":
                    d = ir.unwrap(d["e"])
                if isinstance(d, dict) and d.get("k") == "ref" and d.get("const_init") is not None:
                    d = ir.unwrap(d["const_init"])  # the separator as a named constant
                if not (isinstance(d, dict) and d.get("k") == "lit" and d.get("v") == ord(";")):
                    return False
                s = ir.unwrap(args[0])
                if not (isinstance(s, dict) and s.get("k") == "ref" and s["decl"].startswith("local:")):
                    return False
                sname = s["decl"][6:]
                for kind, rhs2, node in valueflow.local_defs(f, sname):
                    if kind == "init":
                        r0 = ir.unwrap(rhs2)
                        if r0 is not None and not (r0.get("k") == "construct" and not [a for a in r0.get("args", []) if a.get("k") != "defarg"]):
                            okc, _ = valueflow.carrier(f, rhs2, src)
                            if not okc:
                                return False
                    elif kind == "out-param" and node is call:
                        continue
                    elif kind == "method" and isinstance(node, dict) and node.get("k") == "call" and short(node.get("name") or "") == "imbue":
                        continue  # a locale on the private split stream: inserting a string and getline with an explicit delimiter consult no facet
                    elif kind in ("out-param", "method", "other", "assign"):
                        # only `stream << carrier`
                        bo = ir.as_binop(node) if node.get("k") == "call" else None
                        if bo and bo[0] == "<<":
                            okc, _ = valueflow.carrier(f, bo[2], src)
                            if okc:
                                continue
                        return False
                return True

            target = rhs
            if k == "toggle":
                # given_ = parse_env_value(<carrier>)
                r0 = ir.unwrap(rhs)
                while isinstance(r0, dict) and r0.get("k") == "cast" and isinstance(r0.get("e"), dict) and re.match(r"^(int|unsigned int|long|unsigned long|std::size_t|bool)$", (r0.get("type") or "int")):
                    r0 = ir.unwrap(r0["e"])  # static_cast<int>(parse_env_value(w)): the implicit bool -> count conversion written out
                # the bool -> count conversion spelled out: `parse_env_value(w) ? 1 : 0` stores what the implicit conversion stores
                if isinstance(r0, dict) and r0.get("k") in ("cond", "ternary", "conditional"):
                    cc, tt, ff = (r0.get("c") if r0.get("c") is not None else r0.get("cond")), (r0.get("t") if isinstance(r0.get("t"), dict) else r0.get("then")), (r0.get("f") if r0.get("f") is not None else r0.get("else"))
                    if literal_value(tt) in (("int", 1), ("bool", True)) and literal_value(ff) in (("int", 0), ("bool", False)):
                        r0 = ir.unwrap(cc)
                if isinstance(r0, dict) and r0.get("k") == "call" and short(r0.get("name") or "") == "parse_env_value" and r0.get("args"):
                    target = r0["args"][0]
                else:
                    ctx.bad("R03.5", f, "env-verbatim", "the toggle's environment word is not handed to parse_env_value: %s" % fmt(rhs), (f, e3.get("ln")))
                    continue
            if target is None:
                ctx.broken("R03.5", f, "env-verbatim", "cannot identify the stored expression at line %s" % e3.get("ln"), (f, e3.get("ln")))
                continue
            okc, why = valueflow.carrier(f, target, src, out_param_ok)
            if not okc and k == "multi_option":
                # a list element is the piece of the variable between two separators: `v.substr(b, e - b)` with e = v.find(';', b) (or v.size())
                t0 = ir.unwrap(target)
                if isinstance(t0, dict) and t0.get("k") == "call" and short(t0.get("name") or "") == "substr" and t0.get("this") is not None and valueflow.carrier(f, t0["this"], src, out_param_ok)[0]:
                    a = [x0 for x0 in t0.get("args", []) if not (isinstance(x0, dict) and x0.get("k") == "defarg")]
                    vtxt = fmt(ir.unwrap(t0["this"]))
                    b0 = ir.unwrap(a[0]) if a else None
                    piece = isinstance(b0, dict) and b0.get("k") == "ref" and str(b0.get("decl", "")).startswith("local:")
                    if piece and len(a) == 2:
                        bo2 = ir.as_binop(ir.unwrap(a[1]))
                        e0 = ir.unwrap(bo2[1]) if bo2 and bo2[0] == "-" and fmt(ir.unwrap(bo2[2])) == fmt(b0) else None
                        piece = isinstance(e0, dict) and e0.get("k") == "ref" and str(e0.get("decl", "")).startswith("local:")
                        if piece:
                            for kind2, val2, _n2 in valueflow.local_defs(f, e0["decl"][6:]):
                                v2 = ir.unwrap(val2) if val2 is not None else None
                                is_find = isinstance(v2, dict) and v2.get("k") == "call" and short(v2.get("name") or "") in ("find", "find_first_of") and v2.get("this") is not None and fmt(ir.unwrap(v2["this"])) == vtxt \
                                    and v2.get("args") and (literal_value(v2["args"][0]) in (("char", ord(";")), ("str", ";")))
                                is_size = isinstance(v2, dict) and v2.get("k") == "call" and short(v2.get("name") or "") in ("size", "length") and v2.get("this") is not None and fmt(ir.unwrap(v2["this"])) == vtxt
                                if kind2 not in ("init", "assign") or not (is_find or is_size):
                                    piece = False
                    if piece:
                        okc, why = True, ""
            ctx.check(okc, "R03.5", f, "env-verbatim",
                      "the value stored from the environment at line %s is not a verbatim copy of the variable: %s" % (e3.get("ln"), why),
                      (f, e3.get("ln")), why_ok=fmt(target))
    # ---- R03.11 who-may-consult-the-environment: the ranking is decided in one place per kind, after the tokens were applied. Any other
    # function of the options code that reads the environment (or interprets a toggle word) does so without knowing what the command line gave
    ctx.rule("R03.11", "who-may-call: on the options path nitro::env::get and toggle::parse_env_value are called from the three check() functions only (where `not given` is known) - a pass that "
                       "reads the variables before the tokens are applied judges the environment although the command line outranks it")
    allowed_callers = {NS + k + "::check" for k in KINDS}
    ncallers = 0
    def _only_from_check(fid, seen=()):
        """a helper that is itself reached from the check() functions only (a shared `read_env()` the three of them call) stands for them"""
        g = prog.fn(fid)
        if g is None:
            return False
        if g.qual in allowed_callers:
            return True
        if fid in seen or len(seen) > 6:
            return False
        cs = [c0 for c0 in cg.callers(fid) if prog.fn(c0) is not None and prog.fn(c0).file.startswith("/repo/")]
        # (calls that the normalisation pass spliced into their callers are no longer in the call graph: the log remembers who called)
        cs += [caller for (caller, callee, how) in (getattr(prog, "inline_log", None) or []) if callee == fid and how in ("expression", "statement")]
        return bool(cs) and all(_only_from_check(c0, seen + (fid,)) for c0 in cs)
    targets = [t for t in cg.redges if prog.fn(t) is not None and prog.fn(t).kind != "lambda" and prog.fn(t).qual in (ENV_GET, NS + "toggle::parse_env_value")]
    targets += [t for t in cg.redges if prog.fn(t) is None and t.startswith(ENV_GET + "(") and "::(anonymous" not in t and "lambda" not in t]
    for target in sorted(set(targets)):
        for c in sorted(cg.callers(target)):
            cf = prog.fn(c)
            if cf is None or not cf.file.startswith("/repo/") or "/options/" not in cf.file:
                continue
            ncallers += 1
            ctx.check(_only_from_check(c), "R03.11", cf, "consults-environment:%s->%s" % (short(cf.qual), short(target.split("(")[0])),
                      "%s calls %s: outside the check() functions nothing knows whether the option was given on the command line - a given toggle or option is then judged by (or "
                      "refused for) its environment variable" % (short(cf.qual), short(target.split("(")[0])), cf, why_ok="a check() function")
    ctx.need("R03.11", "callers of env::get / parse_env_value in the options code", ncallers, 4)
    ctx.need("R03.1", "check() functions", nchecks, 3)
    ctx.need("R03.1", "environment lookups", nenv, 3)

    # ---- R03.4a: update_value sets dirty_ on every normal exit
    nuv = 0
    for k in KINDS:
        f = one(ctx, "R03.4", NS + k + "::update_value")
        if not f:
            continue
        nuv += 1
        ok, path = cfg.must_happen_before_exit(f, lambda e: any(literal_value(r) == ("bool", True) for (_, r) in writes_of(e, DIRTY) if r is not None))
        ctx.check(ok, "R03.4", f, "cmdline-sets-provided", "%s::update_value can return without setting dirty_ (path B%s): a value given on the "
                  "command line would not be reported as provided" % (k, "->B".join(map(str, path or []))), f)
    ctx.need("R03.4", "update_value overriders", nuv, 3)

    # ---- R03.4d: provided set from has_non_default for all kinds
    parse = prog.fn(PARSE_VEC)
    if ctx.anchor("R03.4", PARSE_VEC, parse is not None):
        hnd = one(ctx, "R03.4", NS + "base::has_non_default")
        if hnd:
            form = lg.fn_formula(hnd, {"this": None, "params": {}})
            ctx.check(form == ("a", "this.dirty_"), "R03.4", hnd, "has_non_default==dirty_", "has_non_default() is no longer the dirty flag: %s" % (logic.show(form) if form else "?"), hnd)
        lambdas = [g for g in prog.fns.values() if g.kind == "lambda" and g.id.startswith(PARSE_VEC + "::") and g.flags.get("instantiation") and g.has_cfg]
        kinds_seen = set()
        for g in lambdas:
            ins = []
            for b2, i2, e2 in g.roots():
                for n in walk(e2["expr"], into_sc=False):
                    if n.get("k") == "call" and short(n.get("name") or "") in ("insert", "emplace") and fmt(n.get("this")) == "provided":
                        ins.append((b2, i2, n))
            if not ins:
                continue
            pk = (g.params[0].get("type", "") if g.params else "")
            for kk in KINDS:
                if pk.replace(" ", "") == "nitro::options::%s&" % kk:
                    kinds_seen.add(kk)
            pname = g.params[0]["name"] if g.params else "option"
            for (b2, i2, n) in ins:
                ok, cm = fe.proves(g, b2, i2, ("a", "%s.dirty_" % pname))
                ctx.check(ok, "R03.4", g, "provided-iff-non-default", "an option is inserted into the provided set without the has_non_default() test", (g, n.get("ln")))
                a0 = fmt(n["args"][0]) if n.get("args") else ""
                ctx.check(a0 == "%s.name()" % pname, "R03.4", g, "provided-by-name", "the provided set receives %s instead of the option's name" % a0, (g, n.get("ln")))
        ctx.check(kinds_seen == set(KINDS), "R03.4", parse, "provided-all-kinds", "the provided set is not built for all kinds: %s" % sorted(kinds_seen), parse)
    # ---- R03.6: the ranking starts from a clean slate - check() tells "nothing on the command line" from the value state,
    # so that state must have been emptied before the tokens were applied (C14's R14.2 re-evaluated)
    ctx.rule("R03.6", "value state is emptied by prepare() before the command line is applied (R14.2 re-evaluated): a value of an earlier parse cannot outrank the environment")
    if ctx.prop == "C03" and not getattr(ctx, "_sharing", False):
        from . import C14
        sub = type(ctx)(ctx.prop, ctx.prog, ctx.tier)
        sub._sharing = True
        C14.run(sub)
        n6 = 0
        for o in sub.obs:
            if o.rule in ("R14.2", "R14.3"):
                n6 += 1
                o.rule = "R03.6"
                ctx.obs.append(o)
        ctx.need("R03.6", "reset obligations shared with C14", n6, 3)
    ctx.rule("R03.7", "the environment wrapper itself hands the variable over verbatim (R19.1 re-evaluated): what check() receives is the variable's content")
    if ctx.prop == "C03" and not getattr(ctx, "_sharing", False):
        from .common import share
        share(ctx, "C19", ("R19.1",), "R03.7", "env::get obligations shared with C19", 4)
        # the first-ranked source is available for every value: a well-formed --name=value token is never rejected for its value
        share(ctx, "C02", ("R02.4",), "R03.7", "token-syntax obligations shared with C02", 1)
        share(ctx, "C11", ("R11.7",), "R03.7", "count-type obligations shared with C11 (a declared default above 1 arrives as declared when it is the source)", 1)
        ctx.rule("R03.9", "the declared default is what the lowest-ranked source delivers: nothing on the usage path rewrites it (R15.11 re-evaluated)")
        share(ctx, "C15", ("R15.11",), "R03.9", "usage-writes-nothing obligations shared with C15", 1)
    # ---- R03.8: the variable that is looked up is the variable that was bound: env_ holds the setter's argument verbatim
    ctx.rule("R03.8", "every write of base::env_ stores a copy-only carrier of the writing function's own parameter (or the same member of another object): variable names are case-sensitive, a normalised name is a different variable")
    ENVF = NS + "base::env_"
    nenv_w = 0
    for f in prog.fns.values():
        if not f.has_cfg or not f.file.startswith("/repo/") or f.flags.get("instantiation") and prog.fn(f.flags.get("instantiation_of") or "") is not None:
            continue
        for bid, i, e in f.all_elems():
            x = e.get("expr")
            if x is None:
                continue
            rhss = []
            if e.get("kind") == "init" and e.get("field") == ENVF:
                rhss.append(x)
            for y in walk(x):
                if y.get("k") in ("bin", "call") and y.get("op") == "=":
                    l = ir.unwrap(y.get("l") if y.get("k") == "bin" else y.get("this"))
                    if isinstance(l, dict) and l.get("k") == "member" and l.get("field") == ENVF:
                        rhss.append(y.get("r") if y.get("k") == "bin" else (y.get("args") or [None])[0])
            for rhs in rhss:
                nenv_w += 1
                r = ir.unwrap(rhs)
                same_member = isinstance(r, dict) and any(z.get("k") == "member" and z.get("field") == ENVF for z in walk(r)) and valueflow.carrier(
                    f, rhs, lambda n: isinstance(n, dict) and n.get("k") == "member" and n.get("field") == ENVF)[0]
                real = [a for a in r.get("args", []) if not (isinstance(a, dict) and a.get("k") == "defarg")] if isinstance(r, dict) else [None]
                default_empty = isinstance(r, dict) and ((r.get("k") == "construct" and (not real or (len(real) <= 2 and isinstance(ir.unwrap(real[0]), dict) and ir.unwrap(real[0]).get("k") == "lit" and ir.unwrap(real[0]).get("v") == "")))
                                                         or (r.get("k") == "lit" and r.get("v") == ""))
                okc, why = valueflow.carrier(f, rhs, lambda n: isinstance(n, dict) and n.get("k") == "ref" and n.get("decl", "").startswith("param:"))
                ctx.check(okc or same_member or default_empty, "R03.8", f, "env-name-stored-verbatim@%s" % _rel(f, e),
                          "%s stores %s as the bound variable's name (%s): the name that is looked up differs from the name that was bound (`http_proxy` is not `HTTP_PROXY`), the option silently falls back to its default"
                          % (short(f.qual), fmt(rhs)[:80], why or "not a copy of the argument"), (f, e.get("ln")), why_ok=fmt(rhs)[:60])
    ctx.need("R03.8", "writes of base::env_", nenv_w, 1)
    ctx.assume("process-environment races (setenv while parse runs) are outside the claim")
    ctx.assume("nothing is decided about the contents of values beyond verbatimness")


def _rel(f, e):
    return "+%d" % ((e.get("ln") or f.line) - f.line)


def _explain(cm):
    if not cm or not isinstance(cm, dict):
        return "its full condition is not established"
    parts = ["%s=%s" % (k, v) for k, v in sorted(cm.items()) if not k.startswith("ret:")]
    return "in the state {%s}" % ", ".join(parts[:6])
