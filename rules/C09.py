"""C09 - thread-safe sinks emit each concurrent record once and contiguously (for all schedules).

R09.1 (A1)  lock scope: in every method of a thread-safe sink every reference to the guarded stream (including the flush)
            lies inside the lifetime of ONE scoped lock object (no second lock object / unlock splits the writes of one call).
R09.2       the locked mutex is one object per process: function-local static behind an accessor, static data member,
            external-linkage namespace variable, or a member of the (singleton) sink; an automatic mutex or an
            internal-linkage namespace-scope mutex defined in a header (one copy per translation unit) is a violation.
R09.3 (A5)  who-may-touch: no other function of the sink class, of logger or of smart_stream references the stream.
R09.4 (A5)  per-statement state: smart_stream has no static data members, its buffer/record members are per-object owners,
            and nothing on the statement->sink path uses static-storage or thread-shared buffers.
R09.5       logger::instance() returns a function-local static (thread-safe initialisation, C++11 [stmt.dcl]).
Live positive: the unlocked siblings StdOut / StdErr must FAIL R09.1 (shows the rule is alive on real code).
"""
from sa import ir, cfg
from sa.ir import fmt, walk, short
from .common import callgraph, elem_calls

SINKS = {
    # class -> guarded stream (frozen table; one line of reason each)
    "nitro::log::sink::stdout_mt": "std::cout",  # documented thread-safe stdout sink
    "nitro::log::sink::StdErrThreaded": "std::cerr",  # documented thread-safe stderr sink
}
UNLOCKED_SIBLINGS = {"nitro::log::sink::StdOut": "std::cout", "nitro::log::sink::StdErr": "std::cerr"}
LOCK_TYPES = ("lock_guard", "unique_lock", "scoped_lock")
STREAMS = ("std::cout", "std::cerr", "std::clog", "std::wcout", "std::wcerr")


def stream_refs(e, stream=None):
    out = []
    if e.get("expr") is None:
        return out
    for n in walk(e["expr"]):
        if n.get("k") == "ref" and n.get("decl", "").startswith("global:"):
            g = n["decl"].split(":", 1)[1]
            if (stream and g == stream) or (stream is None and g in STREAMS):
                out.append(n)
    return out


def lock_decl(e):
    """(var name, mutex expr) if the element declares a scoped lock object"""
    x = e.get("expr")
    if not isinstance(x, dict) or x.get("k") != "decl":
        return None
    for v in x.get("vars", []):
        t = v.get("type", "")
        if any(lt in t for lt in LOCK_TYPES) and not v.get("static"):
            init = ir.unwrap(v.get("init"))
            mx = None
            if isinstance(init, dict) and init.get("k") == "construct" and init.get("args"):
                mx = init["args"][0]
            return v["name"], mx
    return None


def analyse_method(f, stream):
    """returns list of (ref_node, ln, state) where state = frozenset of lock generations held (must-info)"""
    TOP = None

    def telem(s, bid, i, e):
        if s is TOP:
            s = frozenset()
        ld = lock_decl(e)
        if ld:
            return s | {(ld[0], "%d.%d" % (bid, i))}
        if e["kind"] == "auto_dtor":
            return frozenset(x for x in s if x[0] != e.get("var"))
        if e.get("expr") is not None:
            for n in walk(e["expr"], into_sc=False):
                if n.get("k") == "call" and short(n.get("name") or "") in ("unlock", "release") and n.get("this") is not None:
                    nm = fmt(n["this"])
                    s = frozenset(x for x in s if x[0] != nm)
                if n.get("k") == "call" and short(n.get("name") or "") == "lock" and n.get("this") is not None:
                    nm = fmt(n["this"])
                    if any(True for _ in [nm]):
                        # re-lock of a unique_lock: a new critical section
                        s = s | {(nm, "%d.%d.relock" % (bid, i))} if nm in getattr(telem, "lockvars", set()) else s
        return s

    lockvars = set()
    for bid, i, e in f.all_elems():
        ld = lock_decl(e)
        if ld:
            lockvars.add(ld[0])
    telem.lockvars = lockvars
    IN, before = cfg.forward(f, frozenset(), telem, lambda s, b, to, lab: s, lambda a, b: a & b)
    out = []
    for bid in f.reachable_blocks():
        for i, e in enumerate(f.elems(bid)):
            refs = stream_refs(e, stream)
            if refs:
                st = before.get((bid, i), frozenset())
                out.append((e, e.get("ln"), st))
    return out


def mutex_storage(ctx, cg, f, mx, depth=0):
    """classify the mutex expression passed to the lock: returns (verdict, description); verdict in ok/bad/unknown"""
    prog = ctx.prog
    m = ir.unwrap(mx)
    if not isinstance(m, dict):
        return "unknown", "no mutex expression"
    k = m.get("k")
    if k == "ref":
        st = m.get("storage")
        if st == "static_local":
            return "ok", "function-local static %s" % m["decl"]
        if st == "static_member":
            return "ok", "static data member %s" % m["decl"]
        if st == "namespace":
            if m.get("linkage") == "internal":
                df = m.get("decl_file", "")
                where = "header" if df.endswith((".hpp", ".h", ".hh")) else "source file"
                if where == "header":
                    return "bad", ("namespace-scope mutex %s has internal linkage and is defined in a header (%s): every translation "
                                   "unit gets its own copy, so threads logging from different units hold different mutexes"
                                   % (m["decl"].split(":", 1)[1], df.replace("/repo/", "")))
                return "ok", "internal-linkage mutex in a single source file"
            return "ok", "external-linkage namespace-scope mutex %s" % m["decl"]
        if m["decl"].startswith("local:") or m["decl"].startswith("param:"):
            # a local: automatic unless it is a reference bound to something acceptable
            for bid, i, e in f.all_elems():
                x = e.get("expr")
                if isinstance(x, dict) and x.get("k") == "decl":
                    for v in x.get("vars", []):
                        if "local:" + v["name"] == m["decl"]:
                            if v.get("static"):
                                return "ok", "function-local static %s" % v["name"]
                            if v.get("ref") and v.get("init") is not None:
                                return mutex_storage(ctx, cg, f, v["init"], depth + 1)
                            return "bad", "the mutex %s has automatic storage: every call locks its own mutex" % v["name"]
            return "bad", "the mutex %s is a parameter/local with automatic storage" % m["decl"]
        return "unknown", "unrecognised mutex object %s" % m["decl"]
    if k == "member" and not m.get("method"):
        base = ir.unwrap(m.get("base"))
        if isinstance(base, dict) and base.get("k") == "this":
            return "ok", "non-static member %s of the sink (the logger is a singleton whose base is the sink)" % short(m["field"])
        return "unknown", "member of another object: %s" % fmt(m)
    if k == "call" and depth < 3:
        # accessor: every return must return an acceptable object
        verdicts = []
        for t in cg.targets_of(m):
            callee = prog.fn(t)
            if not callee or not callee.has_cfg:
                continue
            for bid, i, e in callee.roots():
                x = e["expr"]
                if x.get("k") == "return" and x.get("e") is not None:
                    r = ir.unwrap(x["e"])
                    if isinstance(r, dict) and r.get("k") == "ref" and r["decl"].startswith("local:"):
                        # find the declaration in the callee
                        found = False
                        for b2, i2, e2 in callee.roots():
                            y = e2["expr"]
                            if y.get("k") == "decl":
                                for v in y.get("vars", []):
                                    if "local:" + v["name"] == r["decl"]:
                                        found = True
                                        if v.get("static"):
                                            verdicts.append(("ok", "function-local static %s in %s" % (v["name"], short(callee.qual))))
                                        else:
                                            verdicts.append(("bad", "%s returns a reference to an automatic mutex" % short(callee.qual)))
                        if not found:
                            verdicts.append(("unknown", "returned local not found"))
                    else:
                        verdicts.append(mutex_storage(ctx, cg, callee, r, depth + 1))
        if not verdicts:
            return "unknown", "mutex accessor %s has no analysable body" % fmt(m)
        for v in verdicts:
            if v[0] != "ok":
                return v
        return verdicts[0]
    return "unknown", "unrecognised mutex expression %s" % fmt(m)


def run(ctx):
    prog = ctx.prog
    cg = callgraph(ctx)
    ctx.rule("R09.1", "every reference to the guarded stream lies inside the lifetime of one scoped lock object")
    ctx.rule("R09.2", "the mutex is one object per process (static local / static member / external namespace var / sink member)")
    ctx.rule("R09.3", "no other function of the sink, logger or smart_stream touches the guarded stream")
    ctx.rule("R09.4", "smart_stream keeps per-object state only; no static or thread-shared buffer on the statement->sink path")
    ctx.rule("R09.5", "logger::instance() returns a function-local static")

    nsinks = 0
    nrefs = 0
    for cls, stream in sorted(SINKS.items()):
        c = prog.cls(cls)
        if not ctx.anchor("R09.1", cls, c is not None):
            continue
        methods = [f for f in prog.methods_of(cls) if f.has_cfg]
        sinkfn = [f for f in methods if f.name == "sink"]
        if not ctx.anchor("R09.1", cls + "::sink", bool(sinkfn)):
            continue
        nsinks += 1
        touched = False
        for f in methods:
            res = analyse_method(f, stream)
            if not res:
                continue
            touched = True
            gens = set()
            for e, ln, st in res:
                nrefs += 1
                if not st:
                    ctx.bad("R09.1", f, "unlocked-stream-use:%s" % stream,
                            "%s is used at line %s outside the lifetime of any scoped lock: `%s` can run concurrently with another "
                            "thread's locked write" % (stream, ln, e.get("text", "")), (f, ln))
                else:
                    ctx.ok("R09.1", f, "locked-stream-use:%s@%s" % (stream, _rel(f, ln)), "held: %s" % sorted(x[0] for x in st), (f, ln))
                    gens.add(frozenset(st))
            if len(gens) > 1:
                ctx.bad("R09.1", f, "split-critical-section:%s" % stream,
                        "the writes of one %s() call happen under different lock acquisitions: another record can interleave" % f.name, f)
            elif gens:
                ctx.ok("R09.1", f, "one-critical-section:%s" % stream, "all stream uses under the same lock object", f)
            # R09.2 for each lock declared in this method
            for bid, i, e in f.all_elems():
                ld = lock_decl(e)
                if ld:
                    verdict, desc = mutex_storage(ctx, cg, f, ld[1])
                    if verdict == "ok":
                        ctx.ok("R09.2", f, "mutex-storage", desc, (f, e.get("ln")))
                    elif verdict == "bad":
                        ctx.bad("R09.2", f, "mutex-storage", desc, (f, e.get("ln")))
                    else:
                        ctx.broken("R09.2", f, "mutex-storage", desc, (f, e.get("ln")))
        if not touched:
            ctx.broken("R09.1", cls, "stream-use", "no method of %s references %s: sink idiom not recognised" % (cls, stream), "-")
        # other streams touched by the sink at all? (e.g. writing to cerr from the cout sink unguarded)
    ctx.need("R09.1", "thread-safe sink classes", nsinks, 2)
    ctx.need("R09.1", "guarded stream references", nrefs, 2)

    # live positive
    alive = 0
    for cls, stream in sorted(UNLOCKED_SIBLINGS.items()):
        for f in prog.methods_of(cls):
            if f.has_cfg and f.name == "sink":
                res = analyse_method(f, stream)
                if res and all(not st for _, _, st in res):
                    alive += 1
    if alive < 1:
        ctx.broken("R09.1", "nitro::log::sink::StdOut", "live-positive",
                   "the unlocked sibling sinks no longer fail R09.1 - the rule may have gone blind", "-")
    else:
        ctx.note("live positive: %d unlocked sibling sink(s) fail R09.1 as expected" % alive)

    from .common import fx, static_locals
    g = fx(ctx, "unlocked_sink::sink")
    ctx.fixture("R09.1", "unlocked_sink::sink", g is not None and any(not st for _, _, st in analyse_method(g, "std::cout")), True, "unlocked stream use recognised")
    g = fx(ctx, "unlocked_sink::narrowed")
    res = analyse_method(g, "std::cout") if g is not None else []
    ctx.fixture("R09.1", "unlocked_sink::narrowed", len(res) == 2 and bool(res[0][2]) != bool(res[1][2]), True, "flush outside the lock scope recognised")
    for nm, want in (("unlocked_sink::narrowed", "bad"), ("unlocked_sink::automatic", "bad")):
        g = fx(ctx, nm)
        verdicts = []
        if g is not None:
            for bid, i, e in g.all_elems():
                ld = lock_decl(e)
                if ld:
                    verdicts.append(mutex_storage(ctx, cg, g, ld[1])[0])
        ctx.fixture("R09.2", nm + ":mutex", want in verdicts, True, "bad mutex storage recognised")
    g = fx(ctx, "shared_buffer")
    ctx.fixture("R09.4", "shared_buffer", g is not None and bool(static_locals(g)), True, "static/thread_local buffer recognised")

    # ---- R09.3: logger / smart_stream / other code never touches the streams
    offenders = 0
    scanned = 0
    for f in prog.fns.values():
        if not f.has_cfg or not f.file.startswith("/repo/include/nitro/log/"):
            continue
        if f.cls in SINKS or (f.cls or "").startswith("nitro::log::sink::"):
            continue
        scanned += 1
        for bid, i, e in f.all_elems():
            for n in stream_refs(e):
                offenders += 1
                ctx.bad("R09.3", f, "foreign-stream-use:" + n["decl"].split(":", 1)[1],
                        "%s writes to %s outside the sink (not under the sink's mutex)" % (short(f.qual), n["decl"].split(":", 1)[1]),
                        (f, e.get("ln")))
    ctx.need("R09.3", "log functions scanned", scanned, 20)
    if offenders == 0:
        ctx.ok("R09.3", "nitro::log", "no-foreign-stream-use", "%d functions of logger/smart_stream/filters/attributes scanned" % scanned, "-")

    # ---- R09.4
    fam = [c for c in prog.classes.values() if c["name"].startswith("nitro::log::detail::smart_stream")]
    ctx.need("R09.4", "smart_stream classes (pattern + instantiations)", len(fam), 2)
    for c in fam:
        if not c.get("pattern") and ctx.tier == "quick" and "stdout_mt" not in c["name"] and "StdErrThreaded" not in c["name"]:
            continue
        statics = [fl["name"] for fl in c["fields"] if fl.get("static")]
        ctx.check(not statics, "R09.4", c["name"], "no-static-members", "smart_stream has static data members %s shared by all threads" % statics,
                  "%s:%d" % (c["file"], c["line"]))
        for fl in c["fields"]:
            if fl.get("static"):
                continue
            t = fl["type"].replace(" ", "")
            owner = t.startswith("std::unique_ptr<") or t.startswith("unique_ptr<") or not (fl.get("ptr") or fl.get("ref"))
            ctx.check(owner, "R09.4", c["name"], "member-owns:" + fl["name"],
                      "member %s has type %s: a raw pointer/reference can alias a buffer shared between statements" % (fl["name"], fl["type"]),
                      "%s:%d" % (c["file"], c["line"]))
    # statics / thread_locals referenced from smart_stream / logger functions
    shared = 0
    nfun = 0
    for f in prog.fns.values():
        if not f.has_cfg:
            continue
        if not (f.file.endswith("/nitro/log/stream.hpp") or f.file.endswith("/nitro/log/logger.hpp")):
            continue
        nfun += 1
        for bid, i, e in f.all_elems():
            x = e.get("expr")
            if x is None:
                continue
            for n in walk(x):
                if n.get("k") == "decl":
                    for v in n.get("vars", []):
                        if v.get("static") and not (f.name == "instance"):
                            shared += 1
                            ctx.bad("R09.4", f, "static-local:" + v["name"],
                                    "static/thread_local object %s in %s is shared by every log statement" % (v["name"], short(f.qual)), (f, e.get("ln")))
                if n.get("k") == "ref" and n.get("storage") in ("static_local", "namespace", "static_member") and not f.name == "instance":
                    g = n["decl"].split(":", 1)[1]
                    if g.startswith("std::"):
                        continue
                    shared += 1
                    ctx.bad("R09.4", f, "shared-object:" + g,
                            "%s uses static-storage object %s: state shared between concurrent log statements" % (short(f.qual), g), (f, e.get("ln")))
    ctx.need("R09.4", "stream.hpp/logger.hpp functions scanned", nfun, 10)
    if shared == 0:
        ctx.ok("R09.4", "nitro::log::detail::smart_stream", "no-shared-objects", "%d functions scanned" % nfun, "-")
    ctx.assume("no concurrent set_severity() while statements are in flight (severity_filter::sev is read unsynchronised)")

    # ---- R09.5
    insts = [f for f in prog.fns.values() if f.has_cfg and f.name == "instance" and (f.cls or "").startswith("nitro::log::logger")]
    ctx.need("R09.5", "logger::instance bodies", len(insts), 2)
    for f in insts:
        if not f.is_pattern and ctx.tier == "quick" and "stdout_mt" not in f.id and "StdErrThreaded" not in f.id:
            continue
        ok = False
        for bid, i, e in f.roots():
            x = e["expr"]
            if x.get("k") == "return":
                r = ir.unwrap(x.get("e"))
                if isinstance(r, dict) and r.get("k") == "ref" and (r.get("storage") == "static_local" or r["decl"].startswith("static:")):
                    ok = True
        ctx.check(ok, "R09.5", f.id, "instance-is-magic-static", "logger::instance() does not return a function-local static", f)
    ctx.trust("std::mutex + scoped lock objects give mutual exclusion for the lifetime of the lock object; function-local statics are "
              "initialised once, thread-safely (Appendix D.4)")


def _rel(f, ln):
    return "+%d" % ((ln or f.line) - f.line)
