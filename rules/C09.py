"""C09 - thread-safe sinks emit each concurrent record once and contiguously (for all schedules).

R09.1 (A1)  lock scope: in every method of a thread-safe sink every reference to the guarded stream (including the flush)
            lies inside the lifetime of ONE scoped lock object (no second lock object / unlock splits the writes of one call).
R09.2       the locked mutex is one object per process: function-local static behind an accessor, static data member,
            external-linkage namespace variable, or a member of the (singleton) sink; an automatic mutex or an
            internal-linkage namespace-scope mutex defined in a header (one copy per translation unit) is a violation.
R09.3 (A5)  who-may-touch: no other function of the sink class, of logger or of smart_stream references the stream.
R09.4 (A5)  per-statement state: smart_stream has no static data members, its buffer/record members are per-object owners,
            and nothing on the statement->sink path uses static-storage or thread-shared buffers.
R09.5       logger::instance() returns a function-local static (thread-safe initialisation, C++11 [stmt.dcl]).
Live positive: the unlocked siblings StdOut / StdErr must FAIL R09.1 (shows the rule is alive on real code).
"""
from sa import ir, cfg
from sa.ir import fmt, walk, short
from .common import callgraph, elem_calls

SINKS = {
    # class -> guarded stream (frozen table; one line of reason each)
    "nitro::log::sink::stdout_mt": "std::cout",  # documented thread-safe stdout sink
    "nitro::log::sink::StdErrThreaded": "std::cerr",  # documented thread-safe stderr sink
}
UNLOCKED_SIBLINGS = {"nitro::log::sink::StdOut": "std::cout", "nitro::log::sink::StdErr": "std::cerr"}
LOCK_TYPES = ("lock_guard", "unique_lock", "scoped_lock")
STREAMS = ("std::cout", "std::cerr", "std::clog", "std::wcout", "std::wcerr")


def stream_refs(e, stream=None):
    out = []
    if e.get("expr") is None:
        return out
    for n in walk(e["expr"]):
        if n.get("k") == "ref" and n.get("decl", "").startswith("global:"):
            g = n["decl"].split(":", 1)[1]
            if (stream and g == stream) or (stream is None and g in STREAMS):
                out.append(n)
    return out


def lock_decl(e):
    """(var name, mutex expr) if the element declares a scoped lock object"""
    x = e.get("expr")
    if not isinstance(x, dict) or x.get("k") != "decl":
        return None
    for v in x.get("vars", []):
        t = v.get("type", "")
        if any(lt in t for lt in LOCK_TYPES) and not v.get("static"):
            init = ir.unwrap(v.get("init"))
            mx = None
            if isinstance(init, dict) and init.get("k") == "construct" and init.get("args"):
                mx = init["args"][0]
            return v["name"], mx
    return None


STD_MUTEXES = ("std::mutex", "std::recursive_mutex", "std::timed_mutex", "std::recursive_timed_mutex", "std::shared_mutex", "std::shared_timed_mutex")


def lock_ctor_extra(e):
    """arguments of the lock object's constructor beyond the mutex(es): defer_lock / try_to_lock / adopt_lock / a timeout
    make the lock object one that may NOT own the mutex afterwards (scoped_lock takes several mutexes: all are mutexes)"""
    x = e.get("expr")
    out = []
    for v in x.get("vars", []):
        t = v.get("type", "")
        init = ir.unwrap(v.get("init"))
        if isinstance(init, dict) and init.get("k") == "construct":
            args = [a for a in init.get("args", []) if not (isinstance(a, dict) and a.get("k") == "defarg")]
            if "scoped_lock" in t:
                continue
            out += args[1:]
    return out


def lock_mutex_type(e):
    x = e.get("expr")
    for v in x.get("vars", []):
        t = (v.get("type") or "").replace(" ", "")
        for lt in LOCK_TYPES:
            i = t.find(lt + "<")
            if i >= 0:
                return t[i + len(lt) + 1:].rstrip(">").strip()
    return None


def analyse_method(f, stream):
    """returns list of (ref_node, ln, state) where state = frozenset of lock generations held (must-info)"""
    TOP = None

    def telem(s, bid, i, e):
        if s is TOP:
            s = frozenset()
        ld = lock_decl(e)
        if ld:
            if lock_ctor_extra(e):
                return s  # constructed without (necessarily) owning the mutex: held only after an explicit lock()
            return s | {(ld[0], "%d.%d" % (bid, i))}
        if e["kind"] == "auto_dtor":
            return frozenset(x for x in s if x[0] != e.get("var"))
        if e.get("expr") is not None:
            for n in walk(e["expr"], into_sc=False):
                if n.get("k") == "call" and short(n.get("name") or "") in ("unlock", "release") and n.get("this") is not None:
                    nm = fmt(n["this"])
                    s = frozenset(x for x in s if x[0] != nm)
                if n.get("k") == "call" and short(n.get("name") or "") == "lock" and n.get("this") is not None:
                    nm = fmt(n["this"])
                    if any(True for _ in [nm]):
                        # re-lock of a unique_lock: a new critical section
                        s = s | {(nm, "%d.%d.relock" % (bid, i))} if nm in getattr(telem, "lockvars", set()) else s
        return s

    lockvars = set()
    for bid, i, e in f.all_elems():
        ld = lock_decl(e)
        if ld:
            lockvars.add(ld[0])
    telem.lockvars = lockvars
    IN, before = cfg.forward(f, frozenset(), telem, lambda s, b, to, lab: s, lambda a, b: a & b)
    out = []
    for bid in f.reachable_blocks():
        for i, e in enumerate(f.elems(bid)):
            refs = stream_refs(e, stream)
            if refs:
                st = before.get((bid, i), frozenset())
                out.append((e, e.get("ln"), st))
    return out


def mutex_storage(ctx, cg, f, mx, depth=0):
    """classify the mutex expression passed to the lock: returns (verdict, description); verdict in ok/bad/unknown"""
    prog = ctx.prog
    m = ir.unwrap(mx)
    if not isinstance(m, dict):
        return "unknown", "no mutex expression"
    k = m.get("k")
    if k == "ref":
        st = m.get("storage")
        if st == "static_local":
            return "ok", "function-local static %s" % m["decl"]
        if st == "static_member":
            return "ok", "static data member %s" % m["decl"]
        if st == "namespace":
            if m.get("linkage") == "internal":
                df = m.get("decl_file", "")
                where = "header" if df.endswith((".hpp", ".h", ".hh")) else "source file"
                if where == "header":
                    return "bad", ("namespace-scope mutex %s has internal linkage and is defined in a header (%s): every translation "
                                   "unit gets its own copy, so threads logging from different units hold different mutexes"
                                   % (m["decl"].split(":", 1)[1], df.replace("/repo/", "")))
                return "ok", "internal-linkage mutex in a single source file"
            return "ok", "external-linkage namespace-scope mutex %s" % m["decl"]
        if m["decl"].startswith("local:") or m["decl"].startswith("param:"):
            # a local: automatic unless it is a reference bound to something acceptable
            for bid, i, e in f.all_elems():
                x = e.get("expr")
                if isinstance(x, dict) and x.get("k") == "decl":
                    for v in x.get("vars", []):
                        if "local:" + v["name"] == m["decl"]:
                            if v.get("static"):
                                return "ok", "function-local static %s" % v["name"]
                            if (v.get("ref") or (v.get("type") or "").rstrip().endswith("&")) and v.get("init") is not None:
                                # (also the reference parameter of a helper that was spliced into this function: bound to the caller's argument)
                                return mutex_storage(ctx, cg, f, v["init"], depth + 1)
                            return "bad", "the mutex %s has automatic storage: every call locks its own mutex" % v["name"]
            return "bad", "the mutex %s is a parameter/local with automatic storage" % m["decl"]
        return "unknown", "unrecognised mutex object %s" % m["decl"]
    u = ir.as_unop(m)
    if u and u[0] == "*":
        # *pointer: the pointer must be a static that is initialised by its declaration (thread-safe since C++11) - a pointer
        # that is assigned later ("create on first use") lets two first callers each create and lock their own mutex
        pn = ir.unwrap(u[1])
        if isinstance(pn, dict) and pn.get("k") == "ref" and pn.get("decl", "").split(":", 1)[0] in ("local", "static"):
            name = pn["decl"].split(":", 1)[1].split("::")[-1]
            decl = None
            assigned = []
            for bid, i, e in f.all_elems():
                x = e.get("expr")
                if not isinstance(x, dict):
                    continue
                if x.get("k") == "decl":
                    for v in x.get("vars", []):
                        if v["name"] == name:
                            decl = v
                for n in walk(x):
                    if n.get("k") == "bin" and n.get("op") == "=" and fmt(ir.unwrap(n["l"])) == name:
                        assigned.append(n)
            if decl is not None and decl.get("static"):
                init = ir.unwrap(decl.get("init")) if decl.get("init") is not None else None
                if assigned:
                    return "bad", ("the mutex is reached through the static pointer `%s`, which is assigned after its declaration (line %s) without synchronisation: threads whose first call overlaps "
                                   "each see a null pointer, each create a mutex and lock their own one" % (name, assigned[0].get("ln")))
                if isinstance(init, dict) and init.get("k") == "new":
                    return "ok", "static pointer %s initialised once by its declaration (never destroyed)" % name
                return "unknown", "static pointer %s with initialiser %s" % (name, fmt(init))
            if decl is not None:
                return "bad", "the mutex is reached through the automatic pointer %s" % name
        return "unknown", "mutex reached through %s" % fmt(m)
    if k == "member" and not m.get("method"):
        base = ir.unwrap(m.get("base"))
        if isinstance(base, dict) and base.get("k") == "this":
            return "ok", "non-static member %s of the sink (the logger is a singleton whose base is the sink)" % short(m["field"])
        return "unknown", "member of another object: %s" % fmt(m)
    if k == "call" and depth < 3:
        # accessor: every return must return an acceptable object
        verdicts = []
        for t in cg.targets_of(m):
            callee = prog.fn(t)
            if not callee or not callee.has_cfg:
                continue
            for bid, i, e in callee.roots():
                x = e["expr"]
                if x.get("k") == "return" and x.get("e") is not None:
                    r = ir.unwrap(x["e"])
                    if isinstance(r, dict) and r.get("k") == "ref" and r["decl"].startswith("local:"):
                        # find the declaration in the callee
                        found = False
                        for b2, i2, e2 in callee.roots():
                            y = e2["expr"]
                            if y.get("k") == "decl":
                                for v in y.get("vars", []):
                                    if "local:" + v["name"] == r["decl"]:
                                        found = True
                                        if v.get("static"):
                                            verdicts.append(("ok", "function-local static %s in %s" % (v["name"], short(callee.qual))))
                                        else:
                                            verdicts.append(("bad", "%s returns a reference to an automatic mutex" % short(callee.qual)))
                        if not found:
                            verdicts.append(("unknown", "returned local not found"))
                    else:
                        verdicts.append(mutex_storage(ctx, cg, callee, r, depth + 1))
        if not verdicts:
            return "unknown", "mutex accessor %s has no analysable body" % fmt(m)
        for v in verdicts:
            if v[0] != "ok":
                return v
        return verdicts[0]
    return "unknown", "unrecognised mutex expression %s" % fmt(m)


def run(ctx):
    prog = ctx.prog
    cg = callgraph(ctx)
    ctx.rule("R09.1", "every reference to the guarded stream lies inside the lifetime of one scoped lock object")
    ctx.rule("R09.2", "the mutex is one object per process (static local / static member / external namespace var / sink member)")
    ctx.rule("R09.3", "no other function of the sink, logger or smart_stream touches the guarded stream")
    ctx.rule("R09.4", "smart_stream keeps per-object state only; no static or thread-shared buffer on the statement->sink path")
    ctx.rule("R09.5", "logger::instance() returns a function-local static")
    ctx.rule("R09.6", "the scoped lock blocks until it owns the mutex; the mutex is a standard one or a hand-written lock whose acquire loop is verified")

    nsinks = 0
    nrefs = 0
    for cls, stream in sorted(SINKS.items()):
        c = prog.cls(cls)
        if not ctx.anchor("R09.1", cls, c is not None):
            continue
        methods = [f for f in prog.methods_of(cls) if f.has_cfg]
        sinkfn = [f for f in methods if f.name == "sink"]
        if not ctx.anchor("R09.1", cls + "::sink", bool(sinkfn)):
            continue
        nsinks += 1
        touched = False
        for f in methods:
            res = analyse_method(f, stream)
            if not res:
                continue
            touched = True
            gens = set()
            for e, ln, st in res:
                nrefs += 1
                if not st:
                    ctx.bad("R09.1", f, "unlocked-stream-use:%s" % stream,
                            "%s is used at line %s outside the lifetime of any scoped lock: `%s` can run concurrently with another "
                            "thread's locked write" % (stream, ln, e.get("text", "")), (f, ln))
                else:
                    ctx.ok("R09.1", f, "locked-stream-use:%s@%s" % (stream, _rel(f, ln)), "held: %s" % sorted(x[0] for x in st), (f, ln))
                    gens.add(frozenset(st))
            if len(gens) > 1:
                ctx.bad("R09.1", f, "split-critical-section:%s" % stream,
                        "the writes of one %s() call happen under different lock acquisitions: another record can interleave" % f.name, f)
            elif gens:
                ctx.ok("R09.1", f, "one-critical-section:%s" % stream, "all stream uses under the same lock object", f)
            # one lock OBJECT per record is not yet one critical section: a lock declared inside a loop is released and re-acquired on every
            # iteration (a record written in slices) - another thread's record fits between two iterations
            from sa import cfg as _cfg
            in_loop = set()
            for _h, _body in _cfg.loop_blocks(f):
                in_loop |= set(_body)
            for bid, i, e in f.all_elems():
                if lock_decl(e) and bid in in_loop and f.name == "sink":
                    ctx.bad("R09.1", f, "split-critical-section:%s:lock-inside-loop" % stream,
                            "the scoped lock of %s() is declared inside a loop (line %s): the mutex is released and taken again on every iteration, the pieces of one record are written under "
                            "different acquisitions and another thread's record can land between them" % (f.name, e.get("ln")), (f, e.get("ln")))
            # R09.2 for each lock declared in this method
            for bid, i, e in f.all_elems():
                ld = lock_decl(e)
                if ld:
                    verdict, desc = mutex_storage(ctx, cg, f, ld[1])
                    if verdict == "ok":
                        ctx.ok("R09.2", f, "mutex-storage", desc, (f, e.get("ln")))
                    elif verdict == "bad":
                        ctx.bad("R09.2", f, "mutex-storage", desc, (f, e.get("ln")))
                    else:
                        ctx.broken("R09.2", f, "mutex-storage", desc, (f, e.get("ln")))
                    # R09.6: the lock object blocks until it owns the mutex, and the mutex really excludes
                    extra = lock_ctor_extra(e)
                    ctx.check(not extra, "R09.6", f, "lock-acquires-unconditionally",
                              "the lock object is constructed with %s: it may not own the mutex when the stream is written (a timed or try lock that fails falls through "
                              "into the unprotected write)" % [fmt(a) for a in extra], (f, e.get("ln")), why_ok="blocking constructor")
                    mt = lock_mutex_type(e) or ""
                    mtn = mt if mt.startswith("std::") else mt
                    if mtn in STD_MUTEXES or ("std::" + mtn) in STD_MUTEXES:
                        ctx.ok("R09.6", f, "mutex-type", "standard mutex %s" % mt, (f, e.get("ln")))
                    else:
                        _check_lockable(ctx, f, mt, e)
        if not touched:
            ctx.broken("R09.1", cls, "stream-use", "no method of %s references %s: sink idiom not recognised" % (cls, stream), "-")
        # other streams touched by the sink at all? (e.g. writing to cerr from the cout sink unguarded)
    ctx.need("R09.1", "thread-safe sink classes", nsinks, 2)
    ctx.need("R09.1", "guarded stream references", nrefs, 2)

    # live positive
    alive = 0
    for cls, stream in sorted(UNLOCKED_SIBLINGS.items()):
        for f in prog.methods_of(cls):
            if f.has_cfg and f.name == "sink":
                res = analyse_method(f, stream)
                if res and all(not st for _, _, st in res):
                    alive += 1
    if alive < 1:
        ctx.broken("R09.1", "nitro::log::sink::StdOut", "live-positive",
                   "the unlocked sibling sinks no longer fail R09.1 - the rule may have gone blind", "-")
    else:
        ctx.note("live positive: %d unlocked sibling sink(s) fail R09.1 as expected" % alive)

    from .common import fx, static_locals
    g = fx(ctx, "unlocked_sink::sink")
    ctx.fixture("R09.1", "unlocked_sink::sink", g is not None and any(not st for _, _, st in analyse_method(g, "std::cout")), True, "unlocked stream use recognised")
    g = fx(ctx, "unlocked_sink::narrowed")
    res = analyse_method(g, "std::cout") if g is not None else []
    ctx.fixture("R09.1", "unlocked_sink::narrowed", len(res) == 2 and bool(res[0][2]) != bool(res[1][2]), True, "flush outside the lock scope recognised")
    for nm, want in (("unlocked_sink::narrowed", "bad"), ("unlocked_sink::automatic", "bad")):
        g = fx(ctx, nm)
        verdicts = []
        if g is not None:
            for bid, i, e in g.all_elems():
                ld = lock_decl(e)
                if ld:
                    verdicts.append(mutex_storage(ctx, cg, g, ld[1])[0])
        ctx.fixture("R09.2", nm + ":mutex", want in verdicts, True, "bad mutex storage recognised")
    g = fx(ctx, "shared_buffer")
    ctx.fixture("R09.4", "shared_buffer", g is not None and bool(static_locals(g)), True, "static/thread_local buffer recognised")
    # R09.6 fixtures: the acquire-loop check must reject the broken spin lock, accept the correct one, and a timed lock object must not count as held
    for nm, want_bad in (("spin_sinks::with_broken", True), ("spin_sinks::with_good", False), ("spin_sinks::with_wrapping_ticket", True), ("spin_sinks::with_good_ticket", False)):
        g = fx(ctx, nm)
        got = None
        if g is not None:
            sub = type(ctx)(ctx.prop, ctx.prog, ctx.tier)
            sub._sharing = True
            for bid, i, e in g.all_elems():
                if lock_decl(e):
                    _check_lockable(sub, g, lock_mutex_type(e) or "", e)
            got = any(o.status not in ("ok",) for o in sub.obs) if sub.obs else None
        ctx.fixture("R09.6", nm, got is not None and got == want_bad, True, "hand-written lock %s" % ("rejected" if want_bad else "accepted"))
    g = fx(ctx, "spin_sinks::with_timeout")
    res = analyse_method(g, "std::cout") if g is not None else []
    ctx.fixture("R09.6", "spin_sinks::with_timeout", bool(res) and all(not st for _, _, st in res), True, "a timed lock object is not taken as holding the mutex")

    # ---- R09.3: logger / smart_stream / other code never touches the streams
    offenders = 0
    scanned = 0
    for f in prog.fns.values():
        if not f.has_cfg or not f.file.startswith("/repo/include/nitro/log/"):
            continue
        if f.cls in SINKS or (f.cls or "").startswith("nitro::log::sink::"):
            continue
        scanned += 1
        for bid, i, e in f.all_elems():
            for n in stream_refs(e):
                offenders += 1
                ctx.bad("R09.3", f, "foreign-stream-use:" + n["decl"].split(":", 1)[1],
                        "%s writes to %s outside the sink (not under the sink's mutex)" % (short(f.qual), n["decl"].split(":", 1)[1]),
                        (f, e.get("ln")))
    ctx.need("R09.3", "log functions scanned", scanned, 20)
    if offenders == 0:
        ctx.ok("R09.3", "nitro::log", "no-foreign-stream-use", "%d functions of logger/smart_stream/filters/attributes scanned" % scanned, "-")

    # ---- R09.4
    fam = [c for c in prog.classes.values() if c["name"].startswith("nitro::log::detail::smart_stream")]
    ctx.need("R09.4", "smart_stream classes (pattern + instantiations)", len(fam), 2)
    for c in fam:
        if not c.get("pattern") and ctx.tier == "quick" and "stdout_mt" not in c["name"] and "StdErrThreaded" not in c["name"]:
            continue
        statics = [fl["name"] for fl in c["fields"] if fl.get("static")]
        ctx.check(not statics, "R09.4", c["name"], "no-static-members", "smart_stream has static data members %s shared by all threads" % statics,
                  "%s:%d" % (c["file"], c["line"]))
        for fl in c["fields"]:
            if fl.get("static"):
                continue
            t = fl["type"].replace(" ", "")
            owner = t.startswith("std::unique_ptr<") or t.startswith("unique_ptr<") or not (fl.get("ptr") or fl.get("ref"))
            ctx.check(owner, "R09.4", c["name"], "member-owns:" + fl["name"],
                      "member %s has type %s: a raw pointer/reference can alias a buffer shared between statements" % (fl["name"], fl["type"]),
                      "%s:%d" % (c["file"], c["line"]))
    # statics / thread_locals referenced from smart_stream / logger functions
    shared = 0
    nfun = 0
    for f in prog.fns.values():
        if not f.has_cfg:
            continue
        if not (f.file.endswith("/nitro/log/stream.hpp") or f.file.endswith("/nitro/log/logger.hpp")):
            continue
        nfun += 1
        for bid, i, e in f.all_elems():
            x = e.get("expr")
            if x is None:
                continue
            for n in walk(x):
                if n.get("k") == "decl":
                    for v in n.get("vars", []):
                        if v.get("static") and not (f.name == "instance"):
                            shared += 1
                            ctx.bad("R09.4", f, "static-local:" + v["name"],
                                    "static/thread_local object %s in %s is shared by every log statement" % (v["name"], short(f.qual)), (f, e.get("ln")))
                if n.get("k") == "ref" and n.get("storage") in ("static_local", "namespace", "static_member") and not f.name == "instance":
                    g = n["decl"].split(":", 1)[1]
                    if g.startswith("std::"):
                        continue
                    shared += 1
                    ctx.bad("R09.4", f, "shared-object:" + g,
                            "%s uses static-storage object %s: state shared between concurrent log statements" % (short(f.qual), g), (f, e.get("ln")))
    ctx.need("R09.4", "stream.hpp/logger.hpp functions scanned", nfun, 10)
    if shared == 0:
        ctx.ok("R09.4", "nitro::log::detail::smart_stream", "no-shared-objects", "%d functions scanned" % nfun, "-")
    ctx.assume("no concurrent set_severity() while statements are in flight (severity_filter::sev is read unsynchronised)")

    # ---- R09.5
    insts = [f for f in prog.fns.values() if f.has_cfg and f.name == "instance" and (f.cls or "").startswith("nitro::log::logger")]
    ctx.need("R09.5", "logger::instance bodies", len(insts), 2)
    for f in insts:
        if not f.is_pattern and ctx.tier == "quick" and "stdout_mt" not in f.id and "StdErrThreaded" not in f.id:
            continue
        ok = False
        per_thread = False
        for bid, i, e in f.roots():
            x = e["expr"]
            if x.get("k") == "return":
                r = ir.unwrap(x.get("e"))
                if isinstance(r, dict) and r.get("k") == "ref" and (r.get("storage") == "static_local" or r["decl"].startswith("static:")):
                    ok = True
                    per_thread = per_thread or bool(r.get("thread_local"))
        ctx.check(ok, "R09.5", f.id, "instance-is-magic-static", "logger::instance() does not return a function-local static", f)
        ctx.check(not per_thread, "R09.5", f.id, "instance-is-one-per-process", "logger::instance() returns a thread_local object: every thread has its own logger - and with it its own sink object, "
                  "so whatever the sink keeps as a member (a mutex, a stream) is not shared by the threads that log", f)
    # one statement is one sink call (one lock scope): R10.4 re-evaluated
    # ---- R09.8: the record arrives at the locked insertion with its length
    ctx.rule("R09.8", "the thread-safe sinks take the formatted record as a std::string (a text that carries its length): a C-string view would end the record at its first NUL byte, "
                      "the rest - with the line end - never reaches the stream and the next record is glued to the stump")
    nsk = 0
    for g in sorted(prog.fns.values(), key=lambda x: x.id):
        if g.name == "sink" and g.has_cfg and (g.cls or "") in ("nitro::log::sink::stdout_mt", "nitro::log::sink::StdErrThreaded") and len(g.params) >= 2:
            nsk += 1
            t1 = (g.params[1].get("type") or "")
            # ... or as a character range: a pointer together with a count
            ranged = len(g.params) >= 3 and t1.rstrip().endswith("*") and "char" in t1 and bool(g.params[2].get("bits"))
            ctx.check("basic_string<" in t1 or "std::string" in t1 or "string_view" in t1 or ranged, "R09.8", g, "record-carries-length:%s(%s)" % (short(g.cls), ", ".join((p0.get("type") or "?") for p0 in g.params[1:])), "%s::sink takes the record as `%s`" % (short(g.cls), t1), g, why_ok=t1)
    ctx.need("R09.8", "thread-safe sink functions", nsk, 2)
    ctx.rule("R09.7", "a log statement is handed to the sink in one call (R10.4 re-evaluated): a record emitted in several sink calls is several lock scopes")
    if ctx.prop == "C09" and not getattr(ctx, "_sharing", False):
        from .common import share
        share(ctx, "C10", ("R10.4",), "R09.7", "hand-over obligations shared with C10", 8)
        share(ctx, "C05", ("R05.1",), "R09.7", "ownership obligations shared with C05 (the statement object owns its record until it is handed to the sink: an operator<< that returns a reference to a temporary emits early and loses the rest)", 6)
    ctx.trust("std::mutex + scoped lock objects give mutual exclusion for the lifetime of the lock object; function-local statics are "
              "initialised once, thread-safely (Appendix D.4)")


def _rel(f, ln):
    return "+%d" % ((ln or f.line) - f.line)


def _check_lockable(ctx, f, mt, e):
    """a hand-written BasicLockable: lock() may return only after ITS atomic read-modify-write observed `free` and set `taken`"""
    prog = ctx.prog
    cands = [c for c in prog.classes if c.endswith("::" + mt.split("::")[-1]) or c == mt]
    lockf = [g for c in cands for g in prog.methods_of(c) if g.name == "lock" and g.has_cfg]
    unlockf = [g for c in cands for g in prog.methods_of(c) if g.name == "unlock" and g.has_cfg]
    if len(lockf) != 1 or len(unlockf) != 1:
        ctx.broken("R09.6", f, "mutex-type", "the lock guards a `%s`, which is neither a standard mutex nor a class with analysable lock()/unlock()" % mt, (f, e.get("ln")))
        return
    lk, ul = lockf[0], unlockf[0]
    # acquisition primitives in lock()
    prims = []
    for bid, i, el in lk.roots():
        for n in walk(el["expr"]):
            if n.get("k") == "call" and short(n.get("name") or "") in ("compare_exchange_weak", "compare_exchange_strong", "exchange", "test_and_set"):
                prims.append((bid, i, el, n))
    if not prims and _ticket_lock(ctx, lk, ul, mt):
        return
    if not prims:
        ctx.broken("R09.6", lk, "lock-acquire-loop", "%s::lock() uses no atomic read-modify-write (compare_exchange / exchange / test_and_set): idiom not recognised" % mt, lk)
        return
    for bid, i, el, n in prims:
        nm = short(n.get("name") or "")
        args = [a for a in n.get("args", []) if not (isinstance(a, dict) and a.get("k") == "defarg")]
        # lock() returns only through the success edge of a primitive that sits in a branch condition
        cond = lk.term(bid).get("cond")
        c2, neg = cfg.strip_not(cond) if cond is not None else (None, False)
        in_cond = c2 is not None and ir.unwrap(c2) == n
        if nm.startswith("compare_exchange"):
            succ_lab = "false" if neg else "true"
            desired_true = len(args) >= 2 and _lit(args[1]) is True
            # must-fact at the call: the `expected` local holds false (set by its declaration or an assignment, not yet clobbered by a failed CAS)
            ev = ir.unwrap(args[0]) if args else None
            evn = ev["decl"].split(":", 1)[1] if isinstance(ev, dict) and ev.get("k") == "ref" else None

            def tf(st, b, j, x, evn=evn):
                xx = x.get("expr")
                if not isinstance(xx, dict):
                    return st
                if xx.get("k") == "decl":
                    for v in xx.get("vars", []):
                        if v["name"] == evn:
                            st = _lit(v.get("init")) is False
                    return st
                for m in walk(xx):
                    if m.get("k") == "bin" and m.get("op") == "=" and fmt(m["l"]) == evn:
                        st = _lit(m["r"]) is False
                    if m.get("k") == "call" and short(m.get("name") or "").startswith("compare_exchange") and m.get("args") and fmt(ir.unwrap(m["args"][0])) == evn:
                        st = False  # a failed CAS stores the observed value (taken) into `expected`
                return st
            IN, before = cfg.forward(lk, False, tf, lambda st, b, to, lab: st, lambda a, b: a and b)
            fresh = before.get((bid, i), False) is True
            ctx.check(bool(evn) and fresh and desired_true, "R09.6", lk, "cas-expects-free@%s" % _rel(lk, el.get("ln")),
                      "%s(%s, ...) at line %s can run with `%s` still holding the value a failed attempt stored into it (taken): the exchange taken->taken then 'succeeds' while "
                      "another thread owns the lock, and two threads are inside the critical section" % (nm, evn, el.get("ln"), evn), (lk, el.get("ln")),
                      why_ok="`%s` is false on every path into the CAS" % evn)
        else:
            succ_lab = "true" if neg else "false"  # exchange(true) / test_and_set() return the OLD value: acquired iff it was false
            ok_arg = nm == "test_and_set" or (args and _lit(args[0]) is True)
            ctx.check(bool(ok_arg), "R09.6", lk, "tas-sets-taken@%s" % _rel(lk, el.get("ln")), "%s at line %s does not store `taken`" % (fmt(n), el.get("ln")), (lk, el.get("ln")))
        if not in_cond:
            ctx.broken("R09.6", lk, "lock-acquire-loop", "the result of %s at line %s is not a branch condition: acquire loop not recognised" % (nm, el.get("ln")), (lk, el.get("ln")))
            continue
        # every return of lock() is reached only through the success edge
        tgt = [to for to, lab in lk.succs(bid) if lab == succ_lab]
        ok_exit = bool(tgt) and not cfg.reachable_without_edge(lk, bid, tgt[0], lk.exit)
        ctx.check(ok_exit, "R09.6", lk, "returns-only-after-acquire", "%s::lock() can return without its atomic operation having succeeded" % mt, lk)
    # unlock stores `free`
    rel = False
    for bid, i, el in ul.roots():
        for n in walk(el["expr"]):
            if n.get("k") == "call" and short(n.get("name") or "") in ("store", "clear", "exchange"):
                a = [x for x in n.get("args", []) if not (isinstance(x, dict) and x.get("k") == "defarg")]
                if short(n.get("name") or "") == "clear" or (a and _lit(a[0]) is False):
                    rel = True
            if n.get("k") == "bin" and n.get("op") == "=" and _lit(n["r"]) is False:
                rel = True
    ctx.check(rel, "R09.6", ul, "unlock-stores-free", "%s::unlock() does not store `free`" % mt, ul)
    ctx.trust("a hand-written lock is verified for its acquire/release protocol only (memory orders: acquire on success, release on unlock are not decided)")


def _ticket_lock(ctx, lk, ul, mt):
    """ticket lock: lock() draws `t = next.fetch_add(1)` and waits until `serving` equals t; unlock() advances `serving` by one.
    Correct for counters of any width only when the wait is on (in)equality: an ordered comparison breaks when the counter wraps."""
    ticket = None
    for bid, i, el in lk.roots():
        x = el["expr"]
        if x.get("k") == "decl":
            for v in x.get("vars", []):
                init = ir.unwrap(v.get("init"))
                while isinstance(init, dict) and init.get("k") == "cast":
                    init = ir.unwrap(init["e"])
                if isinstance(init, dict) and init.get("k") == "call" and short(init.get("name") or "") in ("fetch_add", "operator++") and init.get("this") is not None:
                    a = [y for y in init.get("args", []) if not (isinstance(y, dict) and y.get("k") == "defarg")]
                    if short(init.get("name") or "") == "operator++" or (a and literal_int(a[0]) == 1):
                        ticket = (v["name"], fmt(ir.unwrap(init["this"])), v.get("type"), v.get("bits"))
    loops = cfg.loop_blocks(lk)
    if ticket is None or len(loops) != 1:
        return False
    head, body = loops[0]
    cond = lk.term(head).get("cond")
    c2, neg = cfg.strip_not(cond) if cond is not None else (None, False)
    bo = ir.as_binop(ir.unwrap(c2)) if c2 is not None else None
    if not bo:
        return False
    sides = [ir.unwrap(bo[1]), ir.unwrap(bo[2])]
    def is_load(y):
        while isinstance(y, dict) and y.get("k") == "cast":
            y = ir.unwrap(y["e"])
        return isinstance(y, dict) and ((y.get("k") == "call" and short(y.get("name") or "") in ("load", "operator unsigned short", "operator unsigned int", "operator unsigned long", "operator int") and y.get("this") is not None)
                                        or (y.get("k") == "call" and "operator" in short(y.get("name") or "") and y.get("this") is not None))
    def is_ticket(y):
        while isinstance(y, dict) and y.get("k") == "cast":
            y = ir.unwrap(y["e"])
        return isinstance(y, dict) and y.get("k") == "ref" and y.get("decl") == "local:" + ticket[0]
    if not ((is_load(sides[0]) and is_ticket(sides[1])) or (is_load(sides[1]) and is_ticket(sides[0]))):
        return False
    op = bo[0]
    if neg:
        op = {"==": "!=", "!=": "==", "<": ">=", ">": "<=", "<=": ">", ">=": "<"}.get(op, op)
    # the loop is left only through the condition's false edge (no break that skips the wait)
    exits = [(b0, to) for b0 in body for to, _ in lk.succs(b0) if to not in body]
    only_cond = all(b0 == head for b0, _ in exits)
    ctx.check(op == "!=" and only_cond, "R09.6", lk, "ticket-wait-until-served",
              "%s::lock() waits `while (serving %s ticket)`%s: the counters are finite (%s) and wrap around - after the wrap a new ticket compares %s the serving number although earlier tickets are still "
              "being served, so its holder enters the critical section at once; only waiting on inequality (`serving != ticket`) is wrap-safe"
              % (mt, op, "" if only_cond else " and can leave the wait otherwise", ticket[2], "below" if op in ("<", "<=") else "beyond"), lk, why_ok="waits while serving != ticket")
    adv = False
    for bid, i, el in ul.roots():
        for n in walk(el["expr"]):
            if n.get("k") == "call" and short(n.get("name") or "") in ("fetch_add", "operator++", "store") and n.get("this") is not None:
                adv = True
            if n.get("k") == "un" and n.get("op") in ("++pre", "++post"):
                adv = True
    ctx.check(adv, "R09.6", ul, "ticket-unlock-advances", "%s::unlock() does not advance the serving number" % mt, ul)
    ctx.trust("a ticket lock is verified for its draw / wait / advance protocol only (memory orders and fairness are not decided)")
    return True


def literal_int(n):
    n = ir.unwrap(n)
    while isinstance(n, dict) and n.get("k") == "cast":
        n = ir.unwrap(n["e"])
    return n.get("v") if isinstance(n, dict) and n.get("k") == "lit" and isinstance(n.get("v"), int) else None


def _lit(n):
    n = ir.unwrap(n)
    while isinstance(n, dict) and n.get("k") in ("cast", "construct") and (n.get("e") is not None or len(n.get("args", [])) == 1):
        n = ir.unwrap(n["e"] if n.get("k") == "cast" else n["args"][0])
    if isinstance(n, dict) and n.get("k") == "init_list" and len(n.get("elems", [])) == 1:
        return _lit(n["elems"][0])
    if isinstance(n, dict) and n.get("k") == "lit" and n.get("t") == "bool":
        return bool(n["v"])
    return None
