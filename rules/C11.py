"""C11 - a toggle counts its occurrences; reversal and environment words follow fixed rules.

R11.1 (A1/A2) toggle::update_value: every normal path performs exactly one write of given_: `= 0` on the --no- branch,
      `+= as_short_list().count(short_name())` for short tokens, `+1` otherwise.
R11.2 (A2) the --no- branch is dominated by the reversable_ test (other edge raises parsing_error); both branches are
      dominated by their conflict guard (dirty_ && given() != 0 resp. dirty_ && given() == 0); every given_ write is
      dominated by the has_value() rejection.
R11.3 (A3) toggle::matches == (has_prefix && name_without_prefix == name) || base::matches.
R11.4 (A3 + table) parse_env_value: the literals under which true/false is returned equal the documented vocabulary
      ({true,on,yes,with}/{false,off,no,without} x {lower, UPPER, Capitalised} + {y,Y,1}/{n,N,0}); every return is
      dominated by an equality with a literal; the fall-through ends in raise<parsing_error>.
R11.5 = R03.1-R03.4 instantiated for toggle::check (see C03; re-evaluated here).
"""
from sa import ir, cfg, logic, facts
from sa.ir import fmt, walk, short
from sa.logic import Not, And, Or
from sa.callgraph import tree_effects, lvalue_root
from .common import NS, callgraph, one, elem_calls, literal_value
from . import C04

GIVEN = NS + "toggle::given_"


def vocabulary():
    t, f = set(), set()
    for w in ("true", "on", "yes", "with"):
        t |= {w, w.upper(), w.capitalize()}
    for w in ("false", "off", "no", "without"):
        f |= {w, w.upper(), w.capitalize()}
    t |= {"y", "Y", "1"}
    f |= {"n", "N", "0"}
    return t, f


def run(ctx):
    prog = ctx.prog
    _PROG[:] = [prog]
    _RECOGNISED.clear()
    cg = callgraph(ctx)
    fe = facts.FactsEngine(prog, cg)
    lg = fe.lg
    ctx.rule("R11.1", "exactly one given_ write per normal path with the branch's required form")
    ctx.rule("R11.2", "reversal / conflict / has_value guards dominate every given_ write and raise parsing_error")
    ctx.rule("R11.3", "toggle::matches == (has_prefix && name_without_prefix == name) || base::matches")
    ctx.rule("R11.4", "parse_env_value accepts exactly the documented closed vocabulary")
    ctx.rule("R11.5", "toggle::check source order (shared with C03)")

    uv = one(ctx, "R11.1", NS + "toggle::update_value")
    if uv:
        IN, before = fe.analyse(uv)
        pname = uv.params[0]["name"] if uv.params else "arg"
        has_prefix = ("a", 'starts_with(%s.name_, basic_string{"--no-"})' % pname)
        is_short = lg.formula({"k": "call", "callee": NS + "user_input::is_short() const", "name": NS + "user_input::is_short",
                               "this": {"k": "ref", "decl": "param:" + pname}, "args": [], "type": "bool"})
        has_value = lg.formula({"k": "call", "callee": NS + "user_input::has_value() const", "name": NS + "user_input::has_value",
                                "this": {"k": "ref", "decl": "param:" + pname}, "args": [], "type": "bool"})
        dirty = ("a", "this.dirty_")
        # the count read: given() inlined or the member
        G = Not(("a", "(this.given_ == 0)"))
        writes = []
        for bid, i, e in uv.roots():
            if bid not in IN:
                continue
            for eff, lv, n in tree_effects(e["expr"], into_sc=False):
                if eff in ("write", "maybe_write") and lv is not None:
                    kind, key, _ = lvalue_root(lv)
                    if kind == "field" and key[0] == GIVEN and key[1] == "this":
                        writes.append((bid, i, e, n))
        ctx.need("R11.1", "writes of given_ in toggle::update_value", len(writes), 3)
        is_w = lambda e: any(e is w[2] for w in writes)
        ok, path = cfg.must_happen_before_exit(uv, is_w, edge_ok=one_letter_edge_ok(ctx, uv, pname))
        ctx.check(ok, "R11.1", uv, "counts-on-every-path", "a path through update_value (B%s) accepts the token without changing the count" % "->B".join(map(str, path or [])), uv)
        for (bid, i, e, n) in writes:
            p = cfg.reaches_without(uv, (bid, i), is_w, lambda e: False)
            ctx.check(p is None, "R11.1", uv, "counts-once@%s" % _rel(uv, e), "a second write of given_ follows the one at line %s on some path" % e.get("ln"), (uv, e.get("ln")))
            st = before.get((bid, i)) or frozenset()
            ent = lambda g: logic.entails(st, g, lg.axioms)[0] is True
            form = _write_form(n)
            if ent(has_prefix):
                branch = "reverse"
                want = form == ("assign", 0)
                desc = "on the --no- branch the count must be set to 0, found %s" % fmt(n)
            elif ent(Not(has_prefix)) and ent(is_short):
                branch = "short"
                want = form[0] == "add" and _is_multiplicity(form[1], pname, uv)
                desc = "for a short token the count must grow by the letter's multiplicity as_short_list().count(short_name()), found %s" % fmt(n)
            elif ent(Not(has_prefix)) and ent(Not(is_short)):
                branch = "long"
                want = form == ("add", 1)
                desc = "for a long spelling the count must grow by exactly one, found %s" % fmt(n)
            else:
                ctx.broken("R11.1", uv, "write-branch@%s" % _rel(uv, e), "cannot classify the branch of the given_ write at line %s (facts: %s)"
                           % (e.get("ln"), [logic.show(x) for x in st]), (uv, e.get("ln")))
                continue
            ctx.check(want, "R11.1", uv, "count-form:" + branch, desc, (uv, e.get("ln")), why_ok=fmt(n))
            # R11.2 guards
            ctx.check(ent(Not(has_value)), "R11.2", uv, "no-value:" + branch, "given_ is written although the token may carry a value (`=value` on a toggle is not rejected first)", (uv, e.get("ln")))
            if branch == "reverse":
                ctx.check(ent(("a", "this.reversable_")), "R11.2", uv, "reverse-needs-allow_reverse", "--no-<name> is honoured without the reversable_ test", (uv, e.get("ln")))
                ctx.check(ent(Or(Not(dirty), Not(G))), "R11.2", uv, "conflict-guard:reverse", "--no-<name> after --<name> is not rejected (dirty_ && given() != 0 not excluded)", (uv, e.get("ln")))
            else:
                ctx.check(ent(Or(Not(dirty), G)), "R11.2", uv, "conflict-guard:" + branch, "--<name> after --no-<name> is not rejected (dirty_ && given() == 0 not excluded)", (uv, e.get("ln")))
        # all raises are parsing_error
        nraise = 0
        for b in IN:
            if uv.is_noreturn(b):
                for n, exc, e in C04.raise_nodes(uv, b):
                    nraise += 1
                    ctx.check(exc == C04.ALLOWED, "R11.2", uv, "rejection-type#%d" % C04.site_ordinal(uv, b), "a toggle rejection raises %s instead of the user-input error" % exc, (uv, e.get("ln")))
        ctx.need("R11.2", "rejections in toggle::update_value", nraise, 3)  # value, reversal not allowed, conflict (one site or one per direction)

    # ---- R11.3
    tm = one(ctx, "R11.3", NS + "toggle::matches")
    bm = one(ctx, "R11.3", NS + "base::matches")
    if tm and bm:
        pn = tm.params[0]["name"] if tm.params else "arg"
        got = lg.fn_formula(tm, {"this": None, "params": {}}, noreturn_false=True)
        base = lg.fn_formula(bm, {"this": None, "params": {bm.params[0]["name"]: {"k": "ref", "decl": "param:" + pn}}}, noreturn_false=True)
        if got is None or base is None:
            ctx.broken("R11.3", tm, "matches-skeleton", "toggle::matches / base::matches is not a loop-free boolean function any more", tm)
        else:
            hp = ("a", 'starts_with(%s.name_, basic_string{"--no-"})' % pn)
            eqs = [a for a in logic.atoms_of(got) if "name_without_prefix()" in a and "==" in a]
            if len(eqs) != 1:
                # no whole-name comparison of the --no- form at all: what does the function accept beyond base::matches?
                extra_ok, cm = logic.entails([got], base, lg.axioms)
                if extra_ok is True:
                    ctx.bad("R11.3", tm, "reverse-name-compare", "toggle::matches accepts nothing beyond base::matches: the --no-<name> spelling is never matched", tm)
                else:
                    ctx.bad("R11.3", tm, "reverse-name-compare", "toggle::matches is true for --no- tokens without an equality between name_without_prefix() and the toggle's name (%s): "
                            "`--no-<other>` matches every toggle whose name merely starts <other>, which is then forced to 0 although it never occurred" % logic.show(got)[:200], tm)
            else:
                ok_cmp = eqs[0] in ("(%s.name_without_prefix() == this.name())" % pn, "(this.name() == %s.name_without_prefix())" % pn,
                                    "(%s.name_without_prefix() == this.name_)" % pn)
                ctx.check(ok_cmp, "R11.3", tm, "reverse-name-compare", "the --no- form is compared with %s instead of the toggle's own name" % eqs[0], tm)
                spec = Or(And(hp, ("a", eqs[0])), base)
                ctx.check(logic.equivalent(got, spec, lg.axioms), "R11.3", tm, "matches==spec",
                          "toggle::matches is not (has_prefix && name_without_prefix()==name()) || base::matches(arg): %s" % logic.show(got)[:300], tm)

    # ---- R11.6: the count the increments start from is zero
    ctx.rule("R11.6", "before a parse the occurrence count is reset to the literal 0 (the increments of R11.1 count from zero)")
    pr = one(ctx, "R11.6", NS + "toggle::prepare")
    if pr:
        ws = []
        for bid, i, e in pr.roots():
            for eff, lv, n in tree_effects(e["expr"], into_sc=False):
                if eff in ("write", "maybe_write") and lv is not None:
                    kind, key, _ = lvalue_root(lv)
                    if kind == "field" and key[0] == GIVEN and key[1] == "this":
                        ws.append((bid, i, e, n))
        ctx.need("R11.6", "writes of given_ in toggle::prepare", len(ws), 1)
        ok, path = cfg.must_happen_before_exit(pr, lambda e: any(e is w[2] for w in ws))
        ctx.check(ok, "R11.6", pr, "count-reset-on-every-path", "prepare() can return (B%s) without resetting given_" % "->B".join(map(str, path or [])), pr)
        for bid, i, e, n in ws:
            zero = n.get("k") == "bin" and n["op"] == "=" and literal_value(n["r"]) in (("int", 0), ("bool", False))
            ctx.check(zero, "R11.6", pr, "count-reset-to-zero@%s" % _rel(pr, e),
                      "prepare() sets the count to %s: occurrences on the command line are then added to that value instead of being counted from zero "
                      "(a toggle with default 1 given twice reports 3)" % fmt(n.get("r") if n.get("k") == "bin" else n), (pr, e.get("ln")), why_ok=fmt(n))
    # ---- R11.7: the count and the declared default travel in one integral type (no narrowing on the way)
    ctx.rule("R11.7", "count, default, default_value()'s parameter and given()'s result have one integral type: a declared default n is reported as n")
    tc = prog.cls(NS + "toggle")
    if ctx.anchor("R11.7", NS + "toggle", tc is not None):
        ftypes = {fl["name"]: (fl.get("ctype") or fl.get("type")) for fl in tc["fields"]}
        carriers = {"given_": ftypes.get(short(GIVEN))}
        # the default member: the field given_ is assigned from in check()
        chk = prog.fn(NS + "toggle::check()")
        dflt = set()
        if chk is not None and chk.has_cfg:
            for bid, i, e in chk.roots():
                for eff, lv, n in tree_effects(e["expr"], into_sc=False):
                    if eff == "write" and lv is not None and n.get("k") == "bin" and n["op"] == "=":
                        kind, key, _ = lvalue_root(lv)
                        r = ir.unwrap(n["r"])
                        while isinstance(r, dict) and r.get("k") == "cast":
                            r = ir.unwrap(r["e"])
                        if kind == "field" and key[0] == GIVEN and isinstance(r, dict) and r.get("k") == "member":
                            dflt.add(short(r["field"]))
        for d0 in dflt:
            carriers[d0] = ftypes.get(d0)
        dv = [f for f in prog.methods_of(NS + "toggle") if f.name == "default_value" and f.params]
        for f in dv:
            carriers["default_value(%s)" % f.params[0].get("name")] = f.params[0].get("type")
        gv = [f for f in prog.methods_of(NS + "toggle") if f.name == "given" and not f.params]
        for f in gv:
            carriers["given()"] = f.ret
        ctx.need("R11.7", "carriers of the count (given_, default member, default_value parameter, given())", len(carriers), 4)
        norm = {k: (v or "").replace("const ", "").strip() for k, v in carriers.items()}
        types = set(norm.values())
        ok = len(types) == 1 and not (types & {"bool", "_Bool", "char", "unsigned char", "signed char"})
        ctx.check(ok, "R11.7", NS + "toggle", "one-count-type", "the count is carried through different types %s: a declared default (or a count) is narrowed on the way, e.g. default 3 reported as 1"
                  % norm, "%s:%d" % (tc["file"], tc["line"]), why_ok=str(sorted(types)))
    ctx.rule("R11.8", "the word that is compared is the variable verbatim (R19.1) and every parse entry point resets the count first (R14.3)")
    if ctx.prop == "C11" and not getattr(ctx, "_sharing", False):
        from .common import share
        share(ctx, "C19", ("R19.1",), "R11.8", "env::get obligations shared with C19", 4)
        share(ctx, "C03", ("R03.11",), "R11.8", "who-may-consult-the-environment obligations shared with C03 (a toggle given on the command line is not judged by its variable)", 4)
        share(ctx, "C14", ("R14.2", "R14.3"), "R11.8", "reset-pass obligations shared with C14 (whatever check() stores - a count, a remembered environment word - is emptied by prepare())", 4)
        ctx.rule("R11.9", "an unparsable environment word is a catchable parsing_error (R04.7: nothing noexcept on the way) and a token that spells the toggle's letter is offered to it (R12.1: only dash-less tokens are values)")
        share(ctx, "C04", ("R04.7", "R04.13"), "R11.9", "noexcept / handler obligations shared with C04", 10)
        share(ctx, "C12", ("R12.1",), "R11.9", "value-token obligations shared with C12", 1)
        share(ctx, "C03", ("R03.8",), "R11.9", "bound-variable-name obligations shared with C03", 1)
        share(ctx, "C13", ("R13.9",), "R11.9", "single-source-of-declarations obligations shared with C13", 1)
    # ---- R11.10: reversible means DECLARED reversible
    ctx.rule("R11.10", "who-may-write: toggle::reversable_ is set by allow_reverse() only, and nothing in the library calls allow_reverse() on the user's behalf (a default of true, a short name, a group do not make a toggle reversible)")
    REV = NS + "toggle::reversable_"
    writers = []
    for g in sorted(prog.fns.values(), key=lambda x: x.id):
        if not g.has_cfg or not g.file.startswith("/repo/") or g.kind in ("ctor",):
            continue
        for (w, base, n2, b2, i2, how) in cg.field_writes(g):
            if w == REV and how in ("write", "init"):
                writers.append((g, n2))
    setters = sorted({short(g.qual) for g, _ in writers})
    ctx.check(setters in (["allow_reverse"], ["toggle::allow_reverse"]), "R11.10", NS + "toggle", "reversable-written-by-its-setter-only", "toggle::reversable_ is written by %s" % setters, "-", why_ok="only allow_reverse() writes it")
    ar = prog.fn(NS + "toggle::allow_reverse()")
    if ctx.anchor("R11.10", "toggle::allow_reverse", ar is not None):
        callers = sorted(short(c.split("(")[0]) for c in cg.callers(ar.id) if prog.fn(c) is not None and prog.fn(c).file.startswith("/repo/"))
        ctx.check(not callers, "R11.10", ar, "allow_reverse-called-by-the-user-only", "allow_reverse() is called by %s: a toggle becomes reversible without having been declared so, `--no-<name>` is accepted for it" % callers, ar,
                  why_ok="no caller inside the library")
    # ---- R11.4
    pe = one(ctx, "R11.4", NS + "toggle::parse_env_value")
    if pe:
        pn = pe.params[0]["name"] if pe.params else "env_value"
        form = None
        truthy, falsy = set(), set()
        okshape = True
        IN, before = fe.analyse(pe)
        # walk: each return literal true/false; facts at the return must be a disjunction of equalities -> collect from edges
        rets = []
        for bid, i, e in pe.roots():
            x = e["expr"]
            if x.get("k") == "return":
                rets.append((bid, i, e, literal_value(x.get("e"))))
        # literals guarding each return: blocks whose *true* edge leads (through or-chains) to the return block
        for bid, i, e, lv in rets:
            if lv is None or lv[0] != "bool":
                ctx.bad("R11.4", pe, "returns-constant", "parse_env_value returns a computed value %s: words outside the vocabulary would be guessed" % fmt(e["expr"]), (pe, e.get("ln")))
                okshape = False
                continue
            lits = _guard_literals(pe, bid, pn)
            if lits is None:
                ctx.broken("R11.4", pe, "guard-shape", "the return at line %s is not guarded by a chain of `%s == \"literal\"` comparisons" % (e.get("ln"), pn), (pe, e.get("ln")))
                okshape = False
                continue
            (truthy if lv[1] else falsy).update(lits)
        wt, wf = vocabulary()
        ctx.tables["vocabulary"] = {"true": sorted(wt), "false": sorted(wf)}
        if okshape:
            ctx.need("R11.4", "vocabulary literals", len(truthy) + len(falsy), 30)
            for w in sorted(wt | truthy):
                ctx.check(w in truthy and w in wt, "R11.4", pe, "truthy:" + w,
                          ("documented truthy word %r is not accepted" % w) if w in wt else ("undocumented word %r is accepted as true" % w), pe)
            for w in sorted(wf | falsy):
                ctx.check(w in falsy and w in wf, "R11.4", pe, "falsy:" + w,
                          ("documented falsy word %r is not accepted" % w) if w in wf else ("undocumented word %r is accepted as false" % w), pe)
        # any transformation of the word before comparing (case folding, trimming) = not the closed vocabulary
        mutated = False
        for bid, i, e in pe.roots():
            inside = set()
            for n in walk(e["expr"]):
                if isinstance(n, dict) and fmt(n) in _RECOGNISED:
                    inside |= {id(y) for y in walk(n)}
            for n in walk(e["expr"]):
                if id(n) in inside:
                    continue  # part of a membership test over a constant table whose literals were checked above
                if n.get("k") == "call" and not n.get("op") and (n.get("name") or "") != "nitro::except::raise":
                    nm = short(n.get("name") or "")
                    if nm in ("size", "length", "empty", "begin", "end", "cbegin", "cend", "c_str", "data") and not n.get("args"):
                        continue  # observers of the word itself
                    if nm not in ("basic_string", "operator==", "compare"):
                        mutated = True
                        ctx.bad("R11.4", pe, "word-transformed:" + nm, "the environment word passes through %s before it is compared: spellings outside the "
                                "documented vocabulary become acceptable" % fmt(n)[:80], (pe, n.get("ln")))
        if not mutated:
            ctx.ok("R11.4", pe, "word-compared-verbatim", "no call other than string equality in parse_env_value", pe)
        # fall-through raises parsing_error
        rb = [b for b in IN if pe.is_noreturn(b)]
        okr = False
        for b in rb:
            for n, exc, e in C04.raise_nodes(pe, b):
                if exc == C04.ALLOWED:
                    okr = True
        ctx.check(okr, "R11.4", pe, "unknown-word-rejected", "an unknown environment word does not end in raise<parsing_error>", pe)
        # no path reaches the exit without a return literal or raise (already: returns are constants)

    # ---- R11.5: reuse C03's toggle::check obligations
    from . import C03
    sub = type(ctx)(ctx.prop, ctx.prog, ctx.tier)
    sub._sharing = True
    C03.run(sub)
    n5 = 0
    for o in sub.obs:
        if "toggle::check" in o.fn:
            n5 += 1
            o.rule = "R11.5"
            ctx.obs.append(o)
    ctx.need("R11.5", "toggle::check obligations", n5, 6)
    ctx.assume("counts for bundles that mix declared and undeclared letters are not decided (C01's undecided clause)")


def _rel(f, e):
    return "+%d" % ((e.get("ln") or f.line) - f.line)


def _strip_casts(n):
    n = ir.unwrap(n)
    while isinstance(n, dict) and n.get("k") in ("cast", "paren") and isinstance(n.get("e"), dict):
        n = ir.unwrap(n["e"])
    return n


def _write_form(n):
    """('assign', k) / ('add', k or expr)"""
    if n.get("k") == "bin":
        if n["op"] == "=":
            lv = literal_value(n["r"])
            if not lv:
                # `x = static_cast<int>(static_cast<std::size_t>(x) + e)` is what `x += e` does, with its conversions spelled out
                r = _strip_casts(n["r"])
                if isinstance(r, dict) and r.get("k") == "bin" and r.get("op") == "+":
                    tgt = fmt(_strip_casts(n["l"]))
                    for a, b in ((r["l"], r["r"]), (r["r"], r["l"])):
                        if fmt(_strip_casts(a)) == tgt:
                            lb = literal_value(b)
                            return ("add", lb[1] if lb else b)
            return ("assign", lv[1] if lv else n["r"])
        if n["op"] == "+=":
            lv = literal_value(n["r"])
            return ("add", lv[1] if lv else n["r"])
        return ("other", n["op"])
    if n.get("k") == "un" and n["op"] in ("++pre", "++post"):
        return ("add", 1)
    return ("other", n.get("k"))


def _const_local_init(fn, n):
    """n names a const / const-reference local with one declaration: its initialiser (the local is just a name for it)"""
    n = ir.unwrap(n)
    if isinstance(n, dict) and n.get("k") == "ref" and str(n.get("decl", "")).startswith("local:"):
        nm = n["decl"][6:]
        ds = [v for _, _, e in fn.roots() if e["expr"].get("k") == "decl" for v in e["expr"].get("vars", []) if v["name"] == nm]
        if len(ds) == 1 and (ds[0].get("type") or "").startswith("const ") and ds[0].get("init") is not None:
            return ir.unwrap(ds[0]["init"])
    return n


def _is_multiplicity(rhs, pname, fn=None):
    r = ir.unwrap(rhs)
    if not isinstance(r, dict):
        return False
    while r.get("k") == "cast":
        r = ir.unwrap(r["e"])
    if fn is not None:
        r = _const_local_init(fn, r)  # `const auto occurrences = ...; given_ += occurrences;`
        while isinstance(r, dict) and r.get("k") == "cast":
            r = ir.unwrap(r["e"])
    s = fmt(r)
    if s in ("%s.as_short_list().count(short_name())" % pname, "%s.as_short_list().count(short_)" % pname):
        return True
    # the same number taken from the token's text: std::count over the characters behind the dash of the letter's one character
    # (as_short_list() holds exactly these characters, one entry each: R01.10)
    if r.get("k") == "call" and short(r.get("name") or "") == "count" and r.get("this") is None and len(r.get("args", [])) == 3 and fn is not None:
        a0, a1, a2 = [ir.unwrap(x) for x in r["args"]]
        text = ("%s.name()" % pname, "%s.name_" % pname)

        def txt(x):
            x = _const_local_init(fn, x)
            return fmt(x)
        bo = ir.as_binop(a0)
        first = bool(bo) and bo[0] == "+" and fmt(ir.unwrap(bo[2])) == "1" \
            and isinstance(ir.unwrap(bo[1]), dict) and short(ir.unwrap(bo[1]).get("name") or "") in ("begin", "cbegin") and txt(ir.unwrap(bo[1]).get("this")) in text
        last = isinstance(a1, dict) and short(a1.get("name") or "") in ("end", "cend") and txt(a1.get("this")) in text
        letter = False
        if isinstance(a2, dict) and a2.get("k") == "subscript" and fmt(ir.unwrap(a2.get("idx"))) == "0":
            letter = txt(a2.get("base")) in ("short_name()", "short_", "this->short_")
        elif isinstance(a2, dict) and a2.get("k") == "call" and short(a2.get("name") or "") in ("front", "operator[]"):
            letter = txt(a2.get("this")) in ("short_name()", "short_", "this->short_") and (short(a2.get("name") or "") == "front" or fmt(ir.unwrap(a2["args"][0])) == "0")
        return first and last and letter
    return False


def one_letter_edge_ok(ctx, uv, pname):
    """edge filter for path rules over toggle::update_value: for a short token the branch `short_name().size() == 1` cannot be false.
    Checked premises: every caller in the library reaches update_value(tok) only under matches(tok) (for a short token that is
    base::matches' letter branch, entered under has_short_name()); the stored letter is empty or one character (R13.3: the
    guarded setter is its only writer). The filter only applies under `tok.is_short()`."""
    prog = ctx.prog
    cg = callgraph(ctx)
    for cid in cg.callers(uv.id):
        c = prog.fn(cid)
        if c is None or not c.has_cfg or not c.file.startswith("/repo/"):
            continue
        for b, i, e in c.roots():
            for n in walk(e["expr"]):
                if n.get("k") == "call" and n.get("callee") == uv.id or (n.get("k") == "call" and uv.id in (n.get("reaches") or [])):
                    if not cfg.dominated_by_edge(c, b, lambda cnd: ir.unwrap(cnd).get("k") == "call" and short(ir.unwrap(cnd).get("name") or "") == "matches"):
                        return None

    def edge_ok(b, to, lab):
        cnd = uv.term(b).get("cond")
        if cnd is None:
            return True
        c2, neg = cfg.strip_not(cnd)
        bo = ir.as_binop(ir.unwrap(c2))
        if not bo or bo[0] not in ("==", "!="):
            return True
        sides = [ir.unwrap(bo[1]), ir.unwrap(bo[2])]
        one = [x for x in sides if fmt(x) == "1"]
        sz = [x for x in sides if isinstance(x, dict) and x.get("k") == "call" and short(x.get("name") or "") in ("size", "length")
              and fmt(_const_local_init(uv, x.get("this"))) in ("short_name()", "short_", "this->short_")]
        if len(one) != 1 or len(sz) != 1:
            return True
        if not cfg.dominated_by_edge(uv, b, lambda cnd2: fmt(ir.unwrap(cnd2)) == "%s.is_short()" % pname):
            return True
        holds_lab = "true" if (bo[0] == "==") != neg else "false"
        return lab == holds_lab
    return edge_ok


def _guard_literals(fn, ret_bid, pname):
    """the string literals L such that the return block is entered through the true edge of `pname == L`
    (or-chains / if-chains); None if some entering edge is not of that form"""
    lits = set()
    preds = fn.preds()
    seen = set()
    st = [ret_bid]
    while st:
        b = st.pop()
        if b in seen:
            continue
        seen.add(b)
        for p, lab in preds.get(b, []):
            t = fn.term(p)
            if lab == "true" and t.get("cond") is not None:
                bo = ir.as_binop(ir.unwrap(t["cond"]))
                if bo and bo[0] == "==":
                    l, r = ir.unwrap(bo[1]), ir.unwrap(bo[2])
                    if r.get("k") != "lit":
                        l, r = r, l
                    if r.get("k") == "lit" and r.get("t") == "str" and fmt(l) == pname:
                        lits.add(r["v"])
                        continue
                    tl = _table_literals(fn, p, l, r, pname)
                    if tl is not None:
                        lits.update(tl)
                        continue
                _SCOPE[:] = [fn]
                ml = _membership_literals(_PROG[0], ir.unwrap(t["cond"]), pname) if _PROG else None
                if ml is not None:
                    lits.update(ml)
                    _RECOGNISED.add(fmt(ir.unwrap(t["cond"])))
                    continue
                return None
            elif lab == "next" and not fn.elems(p) and False:
                st.append(p)
            else:
                return None
    return lits


_PROG = []
_SCOPE = []  # the function whose guards are being read (for tables that are function-local statics)
_RECOGNISED = set()  # renderings of membership tests over constant tables that _guard_literals has resolved


def _table_of(a, b):
    """the constant table T when (a, b) is (std::begin(T), std::end(T)) / (T, T + N) / (begin(T), end(T)); else None"""
    a, b = ir.unwrap(a), ir.unwrap(b)

    def tab(x, which):
        x = ir.unwrap(x)
        while isinstance(x, dict) and x.get("k") == "cast":
            x = ir.unwrap(x["e"])
        if isinstance(x, dict) and x.get("k") == "call" and short(x.get("name") or "") in (which, "c" + which) and len(x.get("args", [])) == 1:
            x = ir.unwrap(x["args"][0])
            while isinstance(x, dict) and x.get("k") == "cast":
                x = ir.unwrap(x["e"])
            return x
        if isinstance(x, dict) and x.get("k") == "call" and short(x.get("name") or "") in (which, "c" + which) and x.get("this") is not None and not x.get("args"):
            return ir.unwrap(x["this"])
        return None
    ta, tb = tab(a, "begin"), tab(b, "end")
    if ta is None and isinstance(a, dict) and a.get("k") == "ref" and a.get("const_init") is not None:
        bo = ir.as_binop(b)
        if bo and bo[0] == "+" and fmt(ir.unwrap(bo[1])) == fmt(a):
            n = ir.unwrap(bo[2])
            ci = ir.unwrap(a["const_init"])
            if isinstance(n, dict) and n.get("k") == "lit" and isinstance(ci, dict) and n.get("v") == len(ci.get("elems", [])):
                ta = tb = a
    ci = None
    if isinstance(ta, dict) and isinstance(tb, dict) and ta.get("k") == "ref" and ta.get("decl") == tb.get("decl") and str(ta.get("decl", "")).startswith("local:") and _SCOPE:
        # a function-local `static const` table (array / std::array of literals, possibly with the doubled braces of std::array)
        nm = ta["decl"][6:]
        ds = [v for _, _, e in _SCOPE[0].roots() if e["expr"].get("k") == "decl" for v in e["expr"].get("vars", []) if v["name"] == nm]
        if len(ds) == 1 and ds[0].get("static") and (ds[0].get("type") or "").startswith("const ") and ds[0].get("init") is not None:
            ci = ir.unwrap(ds[0]["init"])
            while isinstance(ci, dict) and ci.get("k") in ("construct", "cast") and (ci.get("e") is not None or len(ci.get("args", [])) == 1):
                ci = ir.unwrap(ci.get("e") if ci.get("e") is not None else ci["args"][0])
            while isinstance(ci, dict) and ci.get("k") == "init_list" and len(ci.get("elems", [])) == 1 and isinstance(ir.unwrap(ci["elems"][0]), dict) and ir.unwrap(ci["elems"][0]).get("k") == "init_list":
                ci = ir.unwrap(ci["elems"][0])
    elif isinstance(ta, dict) and isinstance(tb, dict) and ta.get("k") == "ref" and ta.get("const_init") is not None and ta.get("decl") == tb.get("decl"):
        ci = ir.unwrap(ta["const_init"])
    # (std::array is an aggregate around an array: its initialiser has one more pair of braces)
    while isinstance(ci, dict) and ci.get("k") == "init_list" and len(ci.get("elems", [])) == 1 and isinstance(ir.unwrap(ci["elems"][0]), dict) and ir.unwrap(ci["elems"][0]).get("k") == "init_list":
        ci = ir.unwrap(ci["elems"][0])
    if not (isinstance(ci, dict) and ci.get("k") == "init_list"):
        return None
    out = set()
    for el in ci.get("elems", []):
        el = ir.unwrap(el)
        while isinstance(el, dict) and el.get("k") in ("cast", "construct") and (el.get("e") is not None or len(el.get("args", [])) == 1):
            el = ir.unwrap(el.get("e") if el.get("e") is not None else el["args"][0])
        if not (isinstance(el, dict) and el.get("k") == "lit" and el.get("t") == "str"):
            return None
        out.add(el["v"])
    return out


def _membership_literals(prog, c, pname, depth=0):
    names = set(pname) if isinstance(pname, (set, frozenset)) else {pname}
    """`std::any_of(begin(T), end(T), [&](w) { return pname == w; })`, `std::find(begin(T), end(T), pname) != end(T)`, or a call
    of a /repo helper whose whole body is one of these over its own parameters: the literals of the constant table T"""
    if not isinstance(c, dict) or depth > 2:
        return None
    # a helper that was spliced into the function under analysis left its parameter behind as a local bound to the word: the closure inside
    # still calls it by the parameter's name
    if _SCOPE and depth == 0:
        more = set()
        for _, _, e0 in _SCOPE[0].roots():
            x0 = e0["expr"]
            if x0.get("k") == "decl":
                for v0 in x0.get("vars", []):
                    i0 = ir.unwrap(v0.get("init")) if v0.get("init") is not None else None
                    if isinstance(i0, dict) and i0.get("k") == "ref" and fmt(i0) in names and (v0.get("type") or "").startswith("const "):
                        more |= {v0["name"], v0["name"].split("@")[0]}
        names = names | more
    while c.get("k") == "cast":
        c = ir.unwrap(c["e"])
    bo = ir.as_binop(c)
    if bo and bo[0] == "!=":
        for x, y in ((bo[1], bo[2]), (bo[2], bo[1])):
            x, y = ir.unwrap(x), ir.unwrap(y)
            if isinstance(x, dict) and x.get("k") == "call" and (x.get("name") or "") == "std::find" and len(x.get("args", [])) == 3 and fmt(ir.unwrap(x["args"][2])) in names \
                    and fmt(ir.unwrap(x["args"][1])) == fmt(y):
                return _table_of(x["args"][0], x["args"][1])
        return None
    if c.get("k") != "call":
        return None
    nm = c.get("name") or ""
    args = c.get("args", [])
    if nm == "std::any_of" and len(args) == 3:
        lam = ir.unwrap(args[2])
        # the closure may have a name: `const auto is_word = [&](..){..}; any_of(b, e, is_word)` passes a copy of that local
        for _ in range(3):
            if isinstance(lam, dict) and lam.get("k") in ("construct", "cast") and (lam.get("e") is not None or len(lam.get("args", [])) == 1):
                lam = ir.unwrap(lam.get("e") if lam.get("e") is not None else lam["args"][0])
            elif isinstance(lam, dict) and lam.get("k") == "ref" and str(lam.get("decl", "")).startswith("local:") and _SCOPE:
                ds = [v for _, _, e0 in _SCOPE[0].roots() if e0["expr"].get("k") == "decl" for v in e0["expr"].get("vars", []) if v["name"] == lam["decl"][6:] and v.get("init") is not None]
                if len(ds) != 1:
                    return None
                lam = ir.unwrap(ds[0]["init"])
            else:
                break
        if not (isinstance(lam, dict) and lam.get("k") == "lambda"):
            return None
        body = prog.fn((lam.get("bodies") or [lam.get("id")])[0])
        if body is None or not body.has_cfg or len(body.params) != 1:
            return None
        rs = [ir.unwrap(e["expr"].get("e")) for _, _, e in body.roots() if e["expr"].get("k") == "return"]
        if len(rs) != 1 or len(list(body.roots())) != 1:
            return None
        b2 = ir.as_binop(rs[0])
        if not (b2 and b2[0] == "=="):
            return None
        sides = {fmt(ir.unwrap(b2[1])), fmt(ir.unwrap(b2[2]))}
        other = sides - {body.params[0]["name"]}
        if len(sides) == 2 and body.params[0]["name"] in sides and not other <= names and _SCOPE:
            # the closure of a helper that was spliced into the function under analysis still calls the word by the helper's parameter name:
            # a by-reference capture whose name no longer exists in the enclosing function, where the word is the function's only text parameter
            caps = [c0.get("var") for c0 in lam.get("captures", []) if c0.get("byref")]
            scope_names = {p0.get("name") for p0 in _SCOPE[0].params} | {v0["name"] for _, _, e0 in _SCOPE[0].roots() if e0["expr"].get("k") == "decl" for v0 in e0["expr"].get("vars", [])}
            text_params = [p0.get("name") for p0 in _SCOPE[0].params if "string" in (p0.get("type") or "")]
            if len(caps) == 1 and other == {caps[0]} and caps[0] not in scope_names and text_params and set(text_params) <= names:
                other = set()
        if len(sides) != 2 or body.params[0]["name"] not in sides or not other <= names:
            return None
        return _table_of(args[0], args[1])
    # a helper of the repository: substitute its parameters
    h = prog.fn(c.get("callee")) if c.get("callee") else None
    if h is None or not h.has_cfg or not h.file.startswith("/repo/") or len(h.params) != len(args):
        return None
    rs = [e["expr"].get("e") for _, _, e in h.roots() if e["expr"].get("k") == "return"]
    if len(rs) != 1 or len(list(h.roots())) != 1:
        return None
    env = {"this": None, "params": {p0["name"]: a for p0, a in zip(h.params, args)}}
    inner_name = None
    for p0, a in zip(h.params, args):
        if fmt(ir.unwrap(a)) in names:
            inner_name = p0["name"]
    if inner_name is None:
        return None
    body = logic.subst(rs[0], env)
    # inside the helper the word is called inner_name (also in the closure that captures it)
    return _membership_literals(prog, ir.unwrap(body), names | {inner_name}, depth + 1)


def _table_literals(fn, bid, l, r, pname):
    """`pname == word` inside `for (word : TABLE)` where TABLE is a constant array of string literals: the literals of
    the table (a range-based for visits every element); None if this is not that idiom"""
    from sa.valueflow import local_defs
    if fmt(l) != pname:
        l, r = r, l
    if fmt(l) != pname or not (isinstance(r, dict) and r.get("k") == "ref" and r.get("decl", "").startswith("local:")):
        return None
    dom = cfg.dominators(fn)

    def nearest_init(name, at):
        """initialiser of the declaration of local `name` nearest above block `at` (same-named locals of sibling scopes apart)"""
        c = []
        for hb, i, e in fn.roots():
            x = e["expr"]
            if x.get("k") == "decl" and hb in dom.get(at, ()):
                for v in x.get("vars", []):
                    if v["name"] == name and v.get("init") is not None:
                        c.append((len(dom.get(hb, ())), i, v["init"]))
        c.sort(key=lambda t: (t[0], t[1]))
        return c[-1][2] if c else None

    # the word is never reassigned, and its declaration is the loop variable's
    if any(d[0] != "init" for d in local_defs(fn, r["decl"][6:])):
        return None
    init = ir.unwrap(nearest_init(r["decl"][6:], bid))
    if init is None:
        return None
    u = ir.as_unop(init)
    if not (u and u[0] == "*"):
        return None
    itn = ir.unwrap(u[1])
    if not (isinstance(itn, dict) and itn.get("k") == "ref" and itn.get("decl", "").startswith("local:__begin")):
        return None
    # the enclosing range-for whose head tests this iterator
    heads = [h for h, body in cfg.loop_blocks(fn) if bid in body and fn.term(h).get("kind") == "range_for" and itn["decl"][6:] in fmt(fn.term(h).get("cond"))]
    if not heads:
        return None
    # every element is compared: the comparison sits in the first block of the body (no filter in front of it)
    if not any(to == bid and lab == "true" for to, lab in fn.succs(heads[0])):
        return None
    rng = "__range" + itn["decl"][6:][len("__begin"):]
    tab = ir.unwrap(nearest_init(rng, heads[0]))
    if not (isinstance(tab, dict) and tab.get("k") == "ref" and tab.get("const_init") is not None):
        return None
    ci = ir.unwrap(tab["const_init"])
    if not (isinstance(ci, dict) and ci.get("k") == "init_list"):
        return None
    out = []
    for el in ci.get("elems", []):
        lv = literal_value(el)
        if lv is None or lv[0] != "str":
            return None
        out.append(lv[1])
    return out
