"""C20 - enumerate and reverse visit every element once, in the right order, in place.

R20.1 (AST/A9) every construction of the enumerating iterator in a begin() passes the range's begin and the literal index 0;
      in end() the range's end unchanged; operator++ increments both the wrapped iterator and the index on all paths;
      operator!= compares the wrapped iterators only; operator* pairs index_ with *it_.
R20.2 (AST) reverse_proxy is built from (rbegin(), rend()) in that order in both lvalue overloads; the owning adaptors'
      begin()/end() are computed from the owned container on every call (crbegin()/crend() for reverse) and the adaptors hold
      nothing but the container (no cached iterators: the implicit copy/move would leave them dangling).
R20.3 (A7) type-level matrix: well-formedness, aliasing types for lvalues, owning adaptor types for rvalues.
R20.4 (AST) the array overload of reverse builds reference_wrappers over [container, container + Size); the
      initializer_list overloads copy into a vector that the returned adaptor owns; no static/thread_local storage.
"""
import os
import re

from sa import ir, cfg, witness
from sa.ir import fmt, walk, short
from sa.extract import VERIF
from .common import callgraph

NS = "nitro::lang::"


def rets(f):
    return [ir.unwrap(e["expr"].get("e")) for _, _, e in f.roots() if e["expr"].get("k") == "return"]


def run(ctx):
    prog = ctx.prog
    for r, d in (("R20.1", "enumerating iterator: start at (begin, 0), stop at end, advance both, compare iterators only"),
                 ("R20.2", "reverse built on rbegin/rend; owning adaptors hold only the container"), ("R20.3", "type-level matrix"),
                 ("R20.4", "array / initializer_list overloads own their storage")):
        ctx.rule(r, d)
    wp = os.path.join(VERIF, "witness", "tl_C20.cpp")
    witness.apply(ctx, lambda t: "R20.3", wp)
    if ctx.tier == "thorough":
        witness.apply(ctx, lambda t: "R20.3", wp, compiler="g++", label="g++")
        witness.apply(ctx, lambda t: "R20.3", wp, std="gnu++14", label="gnu++14")

    pats = [f for f in prog.fns.values() if f.has_cfg and f.is_pattern and (f.file.endswith("/nitro/lang/enumerate.hpp") or f.file.endswith("/nitro/lang/reverse.hpp"))]
    ctx.need("R20.1", "enumerate/reverse pattern functions", len(pats), 28)

    def P(pred):
        return [f for f in pats if pred(f)]

    # ---- R20.1
    it_cls = NS + "detail::enumerate_proxy::iterator"
    for nm, want in (("begin", "begin_"), ("end", "end_")):
        fs = P(lambda f: f.cls == NS + "detail::enumerate_proxy" and f.name == nm)
        ctx.need("R20.1", "enumerate_proxy::" + nm, len(fs), 1)
        for f in fs:
            r = [fmt(x) for x in rets(f)]
            ok = r == ["{%s, 0}" % want] or r == ["iterator{%s, 0}" % want]
            if nm == "end":
                ok = ok or (len(r) == 1 and re.fullmatch(r"(iterator)?\{end_, \d+\}", r[0]) is not None)
            ctx.check(ok, "R20.1", f, "proxy-%s" % nm, "enumerate_proxy::%s() returns %s (expected the range's %s%s)" % (nm, r, want, " with index 0" if nm == "begin" else ""), f)
    for nm, want in (("begin", "container_.begin()"), ("end", "container_.end()")):
        fs = P(lambda f: f.cls == NS + "detail::enumerate" and f.name == nm)
        ctx.need("R20.1", "detail::enumerate::" + nm, len(fs), 1)
        for f in fs:
            r = rets(f)
            ok = len(r) == 1 and r[0].get("k") == "construct" and [fmt(a) for a in r[0].get("args", [])][:1] == [want]
            idx = fmt(r[0]["args"][1]) if ok and len(r[0].get("args", [])) > 1 else None
            if nm == "begin":
                ok = ok and idx == "0"
            ctx.check(bool(ok), "R20.1", f, "owning-%s" % nm, "detail::enumerate::%s() returns %s" % (nm, [fmt(x) for x in r]), f)
    inc = P(lambda f: f.cls == it_cls and f.op == "++" and not f.params)
    ctx.need("R20.1", "iterator::operator++()", len(inc), 1)
    for f in inc:
        for fld in ("it_", "index_"):
            ok, path = cfg.must_happen_before_exit(f, lambda e, fld=fld: fmt(e.get("expr")) in ("(++%s)" % fld, "(%s++)" % fld, "(%s += 1)" % fld))
            ctx.check(ok, "R20.1", f, "advances-" + fld, "operator++ does not advance %s on every path%s" % (fld, ": the index no longer counts the elements" if fld == "index_" else ""), f)
        ctx.check([fmt(x) for x in rets(f)] == ["(*this)"], "R20.1", f, "pre-increment-returns-self", "operator++ returns %s" % [fmt(x) for x in rets(f)], f)
    pinc = P(lambda f: f.cls == it_cls and f.op == "++" and len(f.params) == 1)
    for f in pinc:
        body = [fmt(e["expr"]) for _, _, e in f.roots()]
        ok = len(body) == 3 and body[0].endswith("orig = (*this)") and body[1] == "(++(*this))" and body[2] == "return orig"
        ctx.check(ok, "R20.1", f, "post-increment", "operator++(int) is %s" % body, f)
    ne = P(lambda f: f.cls == it_cls and f.op == "!=")
    ctx.need("R20.1", "iterator::operator!=", len(ne), 1)
    for f in ne:
        o = f.params[0]["name"]
        r = [fmt(x) for x in rets(f)]
        ctx.check(r in (["(it_ != %s.it_)" % o], ["(!(it_ == %s.it_))" % o]), "R20.1", f, "end-by-iterator-only", "operator!= is %s: the end of the range is no longer detected by the wrapped iterators alone" % r, f)
    der = P(lambda f: f.cls == it_cls and f.op == "*")
    ctx.need("R20.1", "iterator::operator*", len(der), 2)
    for f in der:
        r = rets(f)
        ok = len(r) == 1 and r[0].get("k") == "construct" and [fmt(a) for a in r[0].get("args", [])] == ["index_", "(*it_)"]
        ctx.check(bool(ok), "R20.1", f, "pairs-index-with-element" + (":const" if f.flags.get("const") else ""), "operator* yields %s" % [fmt(x) for x in r], f)
    pc = P(lambda f: f.cls == NS + "detail::enumerate_proxy::proxy" and f.kind == "ctor")
    for f in pc:
        inits = {short(e["field"]): fmt(ir.unwrap(e["expr"])) for _, _, e in f.all_elems() if e["kind"] == "init" and e.get("field")}
        ctx.check(inits.get("index_") == f.params[0]["name"] and inits.get("value_") == f.params[1]["name"], "R20.1", f, "proxy-stores-pair", "proxy stores %s" % inits, f)
    # free enumerate overloads
    for f in P(lambda f: f.qual == NS + "enumerate" and len(f.params) == 1):
        t = f.params[0].get("type") or ""
        p = f.params[0]["name"]
        r = [fmt(x) for x in rets(f)]
        if t in ("const T &", "T &"):
            ok = len(r) == 1 and re.fullmatch(r"enumerate_proxy<decltype\(begin\(%s\)\)>\{begin\(%s\), end\(%s\)\}" % (p, p, p), r[0]) is not None
            ctx.check(ok, "R20.1", f, "lvalue-proxy-over-begin-end:" + t, "enumerate(%s) returns %s" % (t, r), f)
        elif t == "T &&":
            ctx.check(r == ["enumerate<T>{move(%s)}" % p], "R20.4", f, "rvalue-moved-into-adaptor", "enumerate(T&&) returns %s: the temporary range is not owned by the returned object" % r, f)
        elif t.startswith("std::initializer_list<T>"):
            ctx.check(r == ["enumerate(vector<T>{move(%s)})" % p] or r == ["enumerate(vector<T>{%s})" % p], "R20.4", f, "initializer_list-copied-into-owned-vector",
                      "enumerate(initializer_list&&) returns %s: the elements are not owned by the returned adaptor (shared or dangling storage)" % r, f)

    # ---- R20.2
    for f in P(lambda f: f.qual == NS + "reverse" and len(f.params) == 1):
        t = f.params[0].get("type") or ""
        p = f.params[0]["name"]
        r = [fmt(x) for x in rets(f)]
        if t in ("const T &", "T &"):
            ok = r == ["reverse_proxy<T, decltype(%s.rbegin())>{%s.rbegin(), %s.rend()}" % (p, p, p)]
            ctx.check(ok, "R20.2", f, "lvalue-proxy-over-rbegin-rend:" + t, "reverse(%s) returns %s" % (t, r), f)
        elif t == "T &&":
            ctx.check(r == ["reverse<T>{move(%s)}" % p], "R20.4", f, "rvalue-moved-into-adaptor", "reverse(T&&) returns %s" % r, f)
        elif t.startswith("std::initializer_list<T>"):
            ctx.check(r in (["reverse(vector<T>{move(%s)})" % p], ["reverse(vector<T>{%s})" % p]), "R20.4", f, "initializer_list-copied-into-owned-vector", "reverse(initializer_list&&) returns %s" % r, f)
        elif "(&)[Size]" in t:
            ctx.check(r == ["reverse(vector<std::reference_wrapper<T>>{%s, (%s + Size)})" % (p, p)], "R20.4", f, "array-as-reference_wrappers", "reverse(T(&)[Size]) returns %s" % r, f)
    for nm, want in (("begin", "begin_"), ("end", "end_")):
        for f in P(lambda f: f.cls == NS + "detail::reverse_proxy" and f.name == nm):
            ctx.check([fmt(x) for x in rets(f)] == [want], "R20.2", f, "proxy-returns-" + want, "reverse_proxy::%s() returns %s" % (nm, [fmt(x) for x in rets(f)]), f)
    for f in P(lambda f: f.cls == NS + "detail::reverse_proxy" and f.kind == "ctor"):
        inits = {short(e["field"]): fmt(ir.unwrap(e["expr"])) for _, _, e in f.all_elems() if e["kind"] == "init" and e.get("field")}
        ctx.check(inits == {"begin_": f.params[0]["name"], "end_": f.params[1]["name"]}, "R20.2", f, "proxy-keeps-order", "reverse_proxy stores %s" % inits, f)
    for nm, want in (("begin", "container_.crbegin()"), ("end", "container_.crend()")):
        fs = P(lambda f: f.cls == NS + "detail::reverse" and f.name == nm)
        ctx.need("R20.2", "detail::reverse::" + nm, len(fs), 1)
        for f in fs:
            r = [fmt(x) for x in rets(f)]
            ctx.check(r in ([want], [want.replace("cr", "r")]), "R20.2", f, "owning-%s-from-container" % nm,
                      "detail::reverse::%s() returns %s instead of computing %s from the owned container" % (nm, r, want), f)
    # owning adaptors hold nothing but the container
    for cn in (NS + "detail::reverse", NS + "detail::enumerate"):
        c = prog.cls(cn)
        if not ctx.anchor("R20.2", cn, c is not None):
            continue
        flds = [(fl["name"], fl["type"]) for fl in c["fields"]]
        ok = len(flds) == 1 and flds[0][1] == "T"
        ctx.check(ok, "R20.2", cn, "adaptor-holds-only-the-container",
                  "%s has members %s: anything derived from the container (iterators, proxies) dangles into the source object after the implicit copy/move of the adaptor" % (short(cn), flds),
                  "%s:%d" % (c["file"], c["line"]))
        for f in P(lambda f: f.cls == cn and f.kind == "ctor"):
            inits = {short(e["field"]): fmt(ir.unwrap(e["expr"])) for _, _, e in f.all_elems() if e["kind"] == "init" and e.get("field")}
            ctx.check(inits.get("container_") == "move(%s)" % f.params[0]["name"] and set(inits) == {"container_"}, "R20.2", f, "adaptor-takes-ownership", "the adaptor constructor initialises %s" % inits, f)

    # ---- R20.4: no static / thread_local storage anywhere in the two headers
    n = 0
    for f in pats:
        for bid, i, e in f.all_elems():
            x = e.get("expr")
            if x is None:
                continue
            for y in walk(x):
                if y.get("k") == "decl":
                    for v in y.get("vars", []):
                        if v.get("static"):
                            n += 1
                            ctx.bad("R20.4", f, "shared-storage:" + v["name"], "%s keeps the range in a static/thread_local object `%s`: two enumerations that overlap in time share (and overwrite) it" % (short(f.qual), v["name"]), (f, e.get("ln")))
                if y.get("k") == "ref" and y.get("storage") in ("static_local", "namespace", "static_member") and not y["decl"].split(":", 1)[1].startswith("std::"):
                    n += 1
                    ctx.bad("R20.4", f, "shared-storage:" + y["decl"], "%s uses static-storage object %s" % (short(f.qual), y["decl"]), (f, e.get("ln")))
    from .common import fx, static_locals
    g = fx(ctx, "shared_buffer")
    ctx.fixture("R20.4", "shared_buffer", g is not None and bool(static_locals(g)), True, "static/thread_local storage recognised")
    if not n:
        ctx.ok("R20.4", "nitro::lang", "no-shared-storage", "%d functions scanned" % len(pats), "-")
    ctx.assume("iteration over user-defined iterators with exotic operator!= is outside the claim")
    ctx.trust("range-based for keeps the range expression's temporary alive for the whole loop (Appendix D.7)")
