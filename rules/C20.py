"""C20 - enumerate and reverse visit every element once, in the right order, in place.

R20.1 (AST/A9) every construction of the enumerating iterator in a begin() passes the range's begin and the literal index 0;
      in end() the range's end unchanged; operator++ increments both the wrapped iterator and the index on all paths;
      operator!= compares the wrapped iterators only; operator* pairs index_ with *it_.
R20.2 (AST) reverse_proxy is built from (rbegin(), rend()) in that order in both lvalue overloads; the owning adaptors'
      begin()/end() are computed from the owned container on every call (crbegin()/crend() for reverse) and the adaptors hold
      nothing but the container (no cached iterators: the implicit copy/move would leave them dangling).
R20.3 (A7) type-level matrix: well-formedness, aliasing types for lvalues, owning adaptor types for rvalues.
R20.4 (AST) the array overload of reverse builds reference_wrappers over [container, container + Size); the
      initializer_list overloads copy into a vector that the returned adaptor owns; no static/thread_local storage.
"""
import os
import re

from sa import ir, cfg, witness
from sa.ir import fmt, walk, short
from sa.extract import VERIF
from .common import callgraph, literal_value

NS = "nitro::lang::"


def rets(f):
    return [ir.unwrap(e["expr"].get("e")) for _, _, e in f.roots() if e["expr"].get("k") == "return"]


def run(ctx):
    prog = ctx.prog
    for r, d in (("R20.1", "enumerating iterator: start at (begin, 0), stop at end, advance both, compare iterators only"),
                 ("R20.2", "reverse built on rbegin/rend; owning adaptors hold only the container"), ("R20.3", "type-level matrix"),
                 ("R20.4", "array / initializer_list overloads own their storage")):
        ctx.rule(r, d)
    wp = os.path.join(VERIF, "witness", "tl_C20.cpp")
    witness.apply(ctx, lambda t: "R20.3", wp)
    if ctx.tier == "thorough":
        witness.apply(ctx, lambda t: "R20.3", wp, compiler="g++", label="g++")
        witness.apply(ctx, lambda t: "R20.3", wp, std="gnu++14", label="gnu++14")

    pats = [f for f in prog.fns.values() if f.has_cfg and f.is_pattern and (f.file.endswith("/nitro/lang/enumerate.hpp") or f.file.endswith("/nitro/lang/reverse.hpp"))]
    ctx.need("R20.1", "enumerate/reverse pattern functions", len(pats), 28)

    def P(pred):
        return [f for f in pats if pred(f)]

    # ---- roles instead of names: a member is what the constructor initialises it from
    def field_of(n):
        """short field name if n is (a cast/move of) a data member of *this"""
        n = ir.unwrap(n)
        while isinstance(n, dict) and n.get("k") == "call" and (n.get("name") or "") in ("std::move", "std::forward") and n.get("args"):
            n = ir.unwrap(n["args"][0])
        if isinstance(n, dict) and n.get("k") == "member" and not n.get("method") and ir.unwrap(n.get("base")).get("k") == "this":
            return short(n["field"])
        return None

    def param_of(f, n):
        """index of the parameter that n (possibly moved/forwarded/parenthesised) names"""
        n = ir.unwrap(n)
        while isinstance(n, dict) and ((n.get("k") == "call" and (n.get("name") or "") in ("std::move", "std::forward") and n.get("args")) or (n.get("k") == "construct" and len(n.get("args", [])) == 1)
                                       or (n.get("k") == "cast" and n.get("e") is not None)):
            n = ir.unwrap(n["e"] if n.get("k") == "cast" else n["args"][0])
        if isinstance(n, dict) and n.get("k") == "ref" and n.get("decl", "").startswith("param:"):
            for i, p0 in enumerate(f.params):
                if p0.get("name") == n["decl"][6:]:
                    return i
        return None

    def ctor_roles(cn, nparams):
        """{param index: field short name} of the class's converting constructor with nparams parameters"""
        cs = P(lambda f: f.cls == cn and f.kind == "ctor" and len(f.params) == nparams and not f.flags.get("copy_ctor") and not f.flags.get("move_ctor"))
        if len(cs) != 1:
            return None, None
        f = cs[0]
        m = {}
        for _, _, e in f.all_elems():
            if e["kind"] == "init" and e.get("field"):
                pi = param_of(f, e["expr"])
                if pi is not None:
                    m[pi] = short(e["field"])
        return f, m

    def pieces(n):
        """argument nodes of a construction T{a, b} / T(a, b) / {a, b}"""
        n = ir.unwrap(n)
        if not isinstance(n, dict):
            return None
        if n.get("k") == "cast" and n.get("ck") == "functional":
            return pieces(n["e"])
        if n.get("k") in ("construct", "paren_list"):
            return [a for a in n.get("args", n.get("kids", [])) if not (isinstance(a, dict) and a.get("k") == "defarg")]
        if n.get("k") == "init_list":
            return list(n.get("elems", []))
        return None

    def is_zero(n):
        n = ir.unwrap(n)
        if isinstance(n, dict) and n.get("k") == "lit" and n.get("t") == "int" and n.get("v") == 0:
            return True
        from .common import const_int, named_constant
        return const_int(n) == 0 or named_constant(prog, n, NS + "detail::enumerate") == 0

    def const_idx(n):
        from .common import const_int, named_constant
        return literal_value(n) is not None or const_int(n) is not None or named_constant(prog, n, NS + "detail::enumerate") is not None

    def bound_of(n, which, obj_pred, reverse_ok=("",)):
        """n is <prefix>begin/end of an object accepted by obj_pred: obj.begin() / begin(obj) / std::begin(obj); returns the prefix"""
        n = ir.unwrap(n)
        if not (isinstance(n, dict) and n.get("k") == "call"):
            return None
        nm = short(n.get("name") or "")
        for pre in reverse_ok:
            if nm == pre + which:
                args = [a for a in n.get("args", []) if not (isinstance(a, dict) and a.get("k") == "defarg")]
                obj = n.get("this") if n.get("this") is not None else (args[0] if len(args) == 1 else None)
                if obj is not None and obj_pred(obj):
                    return pre
        return None

    def advances(e, fld):
        """does this element advance member `fld` by exactly one?"""
        x = ir.unwrap(e.get("expr"))
        if not isinstance(x, dict):
            return False
        if x.get("k") == "un" and x["op"] in ("++pre", "++post") and field_of(x["e"]) == fld:
            return True
        if x.get("k") == "call" and x.get("op") == "++" and (field_of(x.get("this")) == fld or (x.get("args") and field_of(x["args"][0]) == fld)):
            return True
        if x.get("k") == "bin" and x["op"] == "+=" and field_of(x["l"]) == fld and literal_is(x["r"], 1):
            return True
        if x.get("k") == "bin" and x["op"] == "=" and field_of(x["l"]) == fld:
            r = ir.unwrap(x["r"])
            if isinstance(r, dict) and r.get("k") == "bin" and r["op"] == "+" and ((field_of(r["l"]) == fld and literal_is(r["r"], 1)) or (field_of(r["r"]) == fld and literal_is(r["l"], 1))):
                return True
            if isinstance(r, dict) and r.get("k") == "call" and (r.get("name") or "") == "std::next" and len(r.get("args", [])) == 1 and field_of(r["args"][0]) == fld:
                return True
        if x.get("k") == "call" and (x.get("name") or "") == "std::advance" and len(x.get("args", [])) == 2 and field_of(x["args"][0]) == fld and literal_is(x["args"][1], 1):
            return True
        return False

    def literal_is(n, v):
        n = ir.unwrap(n)
        return isinstance(n, dict) and n.get("k") == "lit" and n.get("t") == "int" and n.get("v") == v

    def is_param(f, n, i=0):
        return param_of(f, n) == i and ir.unwrap(n).get("k") == "ref"

    # ---- R20.1
    it_cls = NS + "detail::enumerate_proxy::iterator"
    itc, itr = ctor_roles(it_cls, 2)
    prc, prr = ctor_roles(NS + "detail::enumerate_proxy", 2)
    pxc, pxr = ctor_roles(NS + "detail::enumerate_proxy::proxy", 2)
    roles_ok = all(m is not None and set(m) == {0, 1} for m in (itr, prr, pxr))
    if not roles_ok:
        ctx.broken("R20.1", NS + "detail::enumerate_proxy", "constructor-roles", "cannot derive which member holds the wrapped iterator / index / range bounds from the constructors: iterator %s, proxy range %s, element proxy %s" % (itr, prr, pxr), "-")
        IT = IDX = B = E = PI = PV = None
    else:
        IT, IDX = itr[0], itr[1]
        B, E = prr[0], prr[1]
        PI, PV = pxr[0], pxr[1]
        ctx.tables["roles"] = {"iterator": {"wrapped": IT, "index": IDX}, "enumerate_proxy": {"begin": B, "end": E}, "proxy": {"index": PI, "value": PV}}
    if roles_ok:
        # the running index counts every element of any range: each carrier on its way (iterator member, constructor
        # parameters, the element proxy's member) is as wide as std::size_t (w9 pins what index() returns)
        want_bits = getattr(prog, "size_t_bits", None)
        carriers = []
        for cname, fld, ctor, pi in ((it_cls, IDX, itc, 1), (NS + "detail::enumerate_proxy::proxy", PI, pxc, 0)):
            c0 = prog.cls(cname)
            for fl in (c0 or {}).get("fields", []):
                if fl["name"] == fld:
                    carriers.append(("%s::%s" % (short(cname), fld), fl.get("type"), fl.get("bits"), "%s:%d" % (c0["file"], c0["line"])))
            if ctor is not None and len(ctor.params) > pi:
                carriers.append(("%s(%s)" % (short(cname), ctor.params[pi]["name"]), ctor.params[pi].get("type"), ctor.params[pi].get("bits"), ctor))
        ctx.need("R20.1", "carriers of the running index", len(carriers), 4)
        for nm, ty_, bits, where in carriers:
            if bits is None or want_bits is None:
                ctx.broken("R20.1", it_cls, "index-width:" + nm, "cannot determine the width of %s (%s)" % (nm, ty_), where)
            else:
                ctx.check(bits >= want_bits, "R20.1", it_cls, "index-width:" + nm, "%s has type %s (%d bits) while ranges hold up to 2^%d elements: the running index wraps to 0 after 2^%d elements, "
                          "later elements are paired with indices that were used before" % (nm, ty_, bits, want_bits, bits), where, why_ok="%s, %d bits" % (ty_, bits))
        for nm, want in (("begin", B), ("end", E)):
            fs = P(lambda f: f.cls == NS + "detail::enumerate_proxy" and f.name == nm)
            ctx.need("R20.1", "enumerate_proxy::" + nm, len(fs), 1)
            for f in fs:
                r = rets(f)
                ps = pieces(r[0]) if len(r) == 1 else None
                ok = ps is not None and len(ps) == 2 and field_of(ps[0]) == want and (is_zero(ps[1]) if nm == "begin" else const_idx(ps[1]))
                ctx.check(bool(ok), "R20.1", f, "proxy-%s" % nm, "enumerate_proxy::%s() returns %s (expected the range's %s%s)" % (nm, [fmt(x) for x in r], want, " with index 0" if nm == "begin" else ""), f)
        # a one-past-the-end iterator may carry any index only as long as nothing can step BACK from it: once the iterator can be
        # decremented (or compared by index), end() has to carry the element count, otherwise the element in front of end() is
        # paired with index 0 - 1
        backward = P(lambda f: f.cls == it_cls and (f.op in ("--", "-=", "-", "+=", "+", "[]")))
        if backward:
            for nm0, cls0 in (("end", NS + "detail::enumerate_proxy"), ("end", NS + "detail::enumerate")):
                for f in P(lambda f, cls0=cls0: f.cls == cls0 and f.name == "end"):
                    r = rets(f)
                    ps = pieces(r[0]) if len(r) == 1 else None
                    lit_idx = ps is not None and len(ps) == 2 and const_idx(ps[1])
                    ctx.check(not lit_idx, "R20.1", f, "end-index-when-steppable-backwards", "%s::end() builds its iterator with the constant index %s while the iterator offers %s: stepping back from end() "
                              "pairs the last element with index %s - 1 (the index wraps around)" % (short(cls0), fmt(ps[1]) if ps else "?", sorted({g.op for g in backward}), fmt(ps[1]) if ps else "0"), f)
        _, er = ctor_roles(NS + "detail::enumerate", 1)
        C1 = er.get(0) if er else None
        for nm in ("begin", "end"):
            fs = P(lambda f: f.cls == NS + "detail::enumerate" and f.name == nm)
            ctx.need("R20.1", "detail::enumerate::" + nm, len(fs), 1)
            for f in fs:
                r = rets(f)
                ps = pieces(r[0]) if len(r) == 1 else None
                ok = ps is not None and len(ps) == 2 and C1 is not None and bound_of(ps[0], nm, lambda o: field_of(o) == C1, ("", "c")) is not None
                if nm == "begin":
                    ok = ok and is_zero(ps[1])
                ctx.check(bool(ok), "R20.1", f, "owning-%s" % nm, "detail::enumerate::%s() returns %s (expected an iterator over the owned container's %s%s)" % (nm, [fmt(x) for x in r], nm, ", index 0" if nm == "begin" else ""), f)
        from .common import rule_noexcept
        ctx.rule("R20.5", "no function of the adaptors that runs the wrapped iterator's or the elements' own operations is declared noexcept: what the caller's iterator throws part-way reaches the caller after the elements visited so far")
        rule_noexcept(ctx, "R20.5", lambda g: g.file.endswith(("lang/enumerate.hpp", "lang/reverse.hpp")), "the wrapped range's exception has to reach the caller", minimum=6)
        # ---- R20.6: which overload may copy. The adaptors alias an lvalue range and own only what was handed over as a temporary. An entry
        # point that takes its range BY VALUE is viable for lvalues too (and more specialised than the generic reference overloads): a named
        # initializer_list / container is copied, the walk visits the copy, writes and element identity are lost
        ctx.rule("R20.6", "the entry points enumerate() / reverse() take their range by lvalue reference (aliasing) or by rvalue reference (owning) - never by value")
        nep = 0
        seen_ep = set()
        for g in sorted(prog.fns.values(), key=lambda h: h.id):
            if g.qual not in (NS + "enumerate", NS + "reverse") or not g.file.startswith("/repo/") or not g.is_pattern or (g.file, g.line) in seen_ep:
                continue
            seen_ep.add((g.file, g.line))
            if len(g.params) != 1:
                continue  # an iterator-pair overload `enumerate(first, last)` takes iterators, not a range, and cannot be selected for a one-argument call
            for p0 in g.params:
                nep += 1
                ctx.check(bool(p0.get("ref")), "R20.6", g, "range-parameter-is-a-reference:%s:%s" % (short(g.qual), (p0.get("type") or "")[:40]),
                          "%s takes its range as `%s` - by value: the overload is viable for an lvalue (a named std::initializer_list, a container) and wins over the aliasing overloads; "
                          "the range is copied and the copy is visited, not the caller's elements" % (short(g.qual), p0.get("type")), g, why_ok=p0.get("type") or "")
        ctx.need("R20.6", "range parameters of enumerate() / reverse()", nep, 6)
        from .common import rule_no_move_from_member
        rule_no_move_from_member(ctx, "R20.1", lambda g: g.file.endswith(("lang/enumerate.hpp", "lang/reverse.hpp")),
                                 "begin() / end() / operator* can be asked again - a second traversal of the same enumerate / reverse object starts from an emptied iterator and visits nothing", minimum=8)
        inc = P(lambda f: f.cls == it_cls and f.op == "++" and not f.params)
        ctx.need("R20.1", "iterator::operator++()", len(inc), 1)
        for f in inc:
            for fld, what in ((IT, "it_"), (IDX, "index_")):
                ok, path = cfg.must_happen_before_exit(f, lambda e, fld=fld: advances(e, fld))
                ctx.check(ok, "R20.1", f, "advances-" + what, "operator++ does not advance %s by one on every path%s" % (fld, ": the index no longer counts the elements" if what == "index_" else ""), f)
                n_adv = sum(1 for _, _, e in f.roots() if advances(e, fld))
                ctx.check(n_adv <= 1, "R20.1", f, "advances-once-" + what, "operator++ advances %s %d times" % (fld, n_adv), f)
            # the index follows the position: it is advanced after the wrapped iterator, so a step that fails (an iterator whose ++ throws) leaves both where they were
            okp, pth = cfg.must_precede(f, lambda e: advances(e, IT), lambda e: advances(e, IDX))
            ctx.check(okp, "R20.1", f, "index-follows-position", "operator++ advances the index before the wrapped iterator: when stepping the wrapped iterator throws and the caller retries, "
                      "every later element is paired with an index one too high", f)
            ctx.check([fmt(x) for x in rets(f)] == ["(*this)"], "R20.1", f, "pre-increment-returns-self", "operator++ returns %s" % [fmt(x) for x in rets(f)], f)
        pinc = P(lambda f: f.cls == it_cls and f.op == "++" and len(f.params) == 1)
        for f in pinc:
            # a copy of *this taken first, the pre-increment applied to *this, the copy returned
            copies = [(bid, i, v["name"]) for bid, i, e in f.roots() if e["expr"].get("k") == "decl" for v in e["expr"]["vars"] if v.get("init") is not None and fmt(_strip_copy(v["init"])) == "(*this)"]
            def bumps(e):
                x = ir.unwrap(e.get("expr"))
                if not isinstance(x, dict):
                    return False
                if x.get("k") == "un" and x["op"] == "++pre" and fmt(ir.unwrap(x["e"])) == "(*this)":
                    return True
                if x.get("k") == "call" and (x.get("op") == "++" or short(x.get("name") or "") == "operator++") and not [a for a in x.get("args", []) if a.get("k") != "defarg"] and fmt(ir.unwrap(x.get("this"))) in ("this", "(*this)"):
                    return True
                return False
            rr = [fmt(x) for x in rets(f)]
            ok = len(copies) == 1 and rr == [copies[0][2]]
            if ok:
                okb, _ = cfg.must_happen_before_exit(f, bumps)
                first = copies[0]
                before_ok, _ = cfg.must_precede(f, lambda e: e.get("expr") is not None and e["expr"].get("k") == "decl" and any(v["name"] == first[2] for v in e["expr"]["vars"]), bumps)
                ok = okb and before_ok
            ctx.check(bool(ok), "R20.1", f, "post-increment", "operator++(int) is %s (expected: copy *this, pre-increment *this, return the copy)" % [fmt(e["expr"]) for _, _, e in f.roots()], f)
        ne = P(lambda f: f.cls == it_cls and f.op == "!=")
        ctx.need("R20.1", "iterator::operator!=", len(ne), 1)
        for f in ne:
            r = rets(f)
            ok = False
            if len(r) == 1:
                x = r[0]
                neg = False
                u = ir.as_unop(x)
                if u and u[0] == "!":
                    neg = True
                    x = ir.unwrap(u[1])
                bo = ir.as_binop(x)
                if bo and bo[0] == ("==" if neg else "!="):
                    sides = []
                    for sd in (bo[1], bo[2]):
                        su = ir.unwrap(sd)
                        if field_of(su) == IT:
                            sides.append("own")
                        elif isinstance(su, dict) and su.get("k") == "member" and short(su.get("field") or "") == IT and is_param(f, su.get("base")):
                            sides.append("other")
                    ok = sorted(sides) == ["other", "own"]
            ctx.check(ok, "R20.1", f, "end-by-iterator-only", "operator!= is %s: the end of the range is no longer detected by the wrapped iterators alone" % [fmt(x) for x in r], f)
        der = P(lambda f: f.cls == it_cls and f.op == "*")
        ctx.need("R20.1", "iterator::operator*", len(der), 2)
        for f in der:
            r = rets(f)
            ps = pieces(r[0]) if len(r) == 1 else None
            ok = ps is not None and len(ps) == 2 and field_of(ps[0]) == IDX
            if ok:
                u = ir.as_unop(ir.unwrap(ps[1]))
                ok = bool(u and u[0] == "*" and field_of(u[1]) == IT)
            ctx.check(bool(ok), "R20.1", f, "pairs-index-with-element" + (":const" if f.flags.get("const") else ""), "operator* yields %s (expected the index member and the dereferenced wrapped iterator)" % [fmt(x) for x in r], f)
        ctx.ok("R20.1", pxc, "proxy-stores-pair", "proxy(index, value) initialises %s / %s" % (PI, PV), pxc)
        for nm, want in (("index", PI), ("value", PV)):
            for f in P(lambda f: f.cls == NS + "detail::enumerate_proxy::proxy" and f.name == nm):
                r = rets(f)
                ctx.check(len(r) == 1 and field_of(r[0]) == want, "R20.1", f, "proxy-%s-accessor%s" % (nm, ":const" if f.flags.get("const") else ""), "proxy::%s() returns %s instead of the member initialised from the constructor's %s argument" % (nm, [fmt(x) for x in r], nm), f)

    def ctor_name(n):
        n = ir.unwrap(n)
        if isinstance(n, dict) and n.get("k") == "cast" and n.get("ck") == "functional":
            return ctor_name(n["e"])
        return (n.get("name") or n.get("type") or "") if isinstance(n, dict) else ""

    def owned_vector_of(f, n):
        """n constructs a std::vector from the parameter (copy / move / iterator pair over it)"""
        # (the copy may be a named local that is then moved into the adaptor: `std::vector<T> snapshot(list); return enumerate(std::move(snapshot));`)
        u = ir.unwrap(n)
        while isinstance(u, dict) and u.get("k") == "call" and (u.get("name") or "") in ("std::move", "std::forward") and len(u.get("args", [])) == 1:
            u = ir.unwrap(u["args"][0])
        if isinstance(u, dict) and u.get("k") == "ref" and str(u.get("decl", "")).startswith("local:"):
            ds = [v for _, _, e in f.roots() if e["expr"].get("k") == "decl" for v in e["expr"].get("vars", []) if v["name"] == u["decl"][6:]]
            if len(ds) == 1 and "vector<" in (ds[0].get("type") or "") and not (ds[0].get("type") or "").rstrip().endswith("&") and not ds[0].get("static") and ds[0].get("init") is not None:
                i0 = ir.unwrap(ds[0]["init"])
                args0 = i0.get("args") if isinstance(i0, dict) and i0.get("k") == "construct" else (i0.get("elems") if isinstance(i0, dict) and i0.get("k") in ("paren_list", "init_list") else None)
                if args0 is None and param_of(f, i0) == 0:
                    return True  # `std::vector<T> snapshot(list);` - the parenthesised initialiser reads as the parameter itself
                if args0 is not None and len(args0) == 1 and param_of(f, args0[0]) == 0:
                    return True
                if args0 is not None and len(args0) == 2 and bound_of(args0[0], "begin", lambda o: is_param(f, o)) is not None and bound_of(args0[1], "end", lambda o: is_param(f, o)) is not None:
                    return True
            return False
        ps = pieces(n)
        if ps is None or "vector" not in ctor_name(n):
            return False
        if len(ps) == 1 and param_of(f, ps[0]) == 0:
            return True
        if len(ps) == 2 and bound_of(ps[0], "begin", lambda o: is_param(f, o)) is not None and bound_of(ps[1], "end", lambda o: is_param(f, o)) is not None:
            return True
        return False

    # free enumerate overloads
    for f in P(lambda f: f.qual == NS + "enumerate" and len(f.params) == 1):
        t = f.params[0].get("type") or ""
        r = rets(f)
        rs = [fmt(x) for x in r]
        if re.fullmatch(r"(const )?\w+ &", t):
            ps = pieces(r[0]) if len(r) == 1 else None
            ok = ps is not None and len(ps) == 2 and ("enumerate_proxy" in ctor_name(r[0]) or re.fullmatch(r"\w+", ctor_name(r[0]) or "") is not None) and bound_of(ps[0], "begin", lambda o: is_param(f, o)) is not None and bound_of(ps[1], "end", lambda o: is_param(f, o)) is not None
            ctx.check(bool(ok), "R20.1", f, "lvalue-proxy-over-begin-end:" + ("const T &" if t.startswith("const") else "T &"), "enumerate(%s) returns %s (expected a proxy over [begin(x), end(x)) of the argument itself)" % (t, rs), f)
        elif re.fullmatch(r"\w+ &&", t):
            ps = pieces(r[0]) if len(r) == 1 else None
            ok = ps is not None and len(ps) == 1 and param_of(f, ps[0]) == 0 and re.match(r"(detail::)?enumerate\b", ctor_name(r[0]).replace("nitro::lang::", "")) is not None and "proxy" not in ctor_name(r[0])
            ctx.check(bool(ok), "R20.4", f, "rvalue-moved-into-adaptor", "enumerate(T&&) returns %s: the temporary range is not owned by the returned object" % rs, f)
        elif t.startswith("std::initializer_list<"):
            x = r[0] if len(r) == 1 else None
            ok = isinstance(x, dict) and x.get("k") == "call" and short(x.get("name") or "") == "enumerate" and len(x.get("args", [])) == 1 and owned_vector_of(f, x["args"][0])
            ctx.check(bool(ok), "R20.4", f, "initializer_list-copied-into-owned-vector",
                      "enumerate(initializer_list&&) returns %s: the elements are not owned by the returned adaptor (shared or dangling storage)" % rs, f)

    # ---- R20.2
    for f in P(lambda f: f.qual == NS + "reverse" and len(f.params) == 1):
        t = f.params[0].get("type") or ""
        r = rets(f)
        rs = [fmt(x) for x in r]
        if re.fullmatch(r"(const )?\w+ &", t):
            ps = pieces(r[0]) if len(r) == 1 else None
            ok = ps is not None and len(ps) == 2 and ("reverse_proxy" in ctor_name(r[0]) or re.fullmatch(r"\w+", ctor_name(r[0]) or "") is not None) and bound_of(ps[0], "begin", lambda o: is_param(f, o), ("r",)) == "r" and bound_of(ps[1], "end", lambda o: is_param(f, o), ("r",)) == "r"
            ctx.check(bool(ok), "R20.2", f, "lvalue-proxy-over-rbegin-rend:" + ("const T &" if t.startswith("const") else "T &"), "reverse(%s) returns %s (expected a proxy over [x.rbegin(), x.rend()) of the argument itself)" % (t, rs), f)
        elif re.fullmatch(r"\w+ &&", t):
            ps = pieces(r[0]) if len(r) == 1 else None
            ok = ps is not None and len(ps) == 1 and param_of(f, ps[0]) == 0 and re.match(r"(detail::)?reverse\b", ctor_name(r[0]).replace("nitro::lang::", "")) is not None and "proxy" not in ctor_name(r[0])
            ctx.check(bool(ok), "R20.4", f, "rvalue-moved-into-adaptor", "reverse(T&&) returns %s" % rs, f)
        elif t.startswith("std::initializer_list<"):
            x = r[0] if len(r) == 1 else None
            ok = isinstance(x, dict) and x.get("k") == "call" and short(x.get("name") or "") == "reverse" and len(x.get("args", [])) == 1 and owned_vector_of(f, x["args"][0])
            ctx.check(bool(ok), "R20.4", f, "initializer_list-copied-into-owned-vector", "reverse(initializer_list&&) returns %s" % rs, f)
        elif "(&)[" in t:
            x = r[0] if len(r) == 1 else None
            ok = False
            if isinstance(x, dict) and x.get("k") == "call" and short(x.get("name") or "") == "reverse" and len(x.get("args", [])) == 1:
                ps = pieces(x["args"][0])
                if ps is not None and len(ps) == 2:
                    a, b = ir.unwrap(ps[0]), ir.unwrap(ps[1])
                    whole = is_param(f, a) and isinstance(b, dict) and b.get("k") == "bin" and b["op"] == "+" and is_param(f, b["l"]) and re.fullmatch(r"\w+", fmt(ir.unwrap(b["r"]))) is not None and fmt(ir.unwrap(b["r"])) in t
                    viabe = bound_of(a, "begin", lambda o: is_param(f, o)) is not None and bound_of(b, "end", lambda o: is_param(f, o)) is not None
                    ok = whole or viabe
            ctx.check(bool(ok), "R20.4", f, "array-as-reference_wrappers", "reverse(T(&)[Size]) returns %s (expected reverse over a vector of references to [array, array + Size); element type pinned by witness w25)" % rs, f)
    rpc, rpr = ctor_roles(NS + "detail::reverse_proxy", 2)
    if rpr is None or set(rpr) != {0, 1}:
        ctx.broken("R20.2", NS + "detail::reverse_proxy", "constructor-roles", "cannot derive which member holds begin / end from the constructor: %s" % rpr, "-")
    else:
        ctx.ok("R20.2", rpc, "proxy-keeps-order", "reverse_proxy(begin, end) initialises %s / %s" % (rpr[0], rpr[1]), rpc)
        for nm, want in (("begin", rpr[0]), ("end", rpr[1])):
            for f in P(lambda f: f.cls == NS + "detail::reverse_proxy" and f.name == nm):
                r = rets(f)
                ctx.check(len(r) == 1 and field_of(r[0]) == want, "R20.2", f, "proxy-returns-" + nm + "_", "reverse_proxy::%s() returns %s instead of the member holding the constructor's %s argument" % (nm, [fmt(x) for x in r], nm), f)
    _, rr_ = ctor_roles(NS + "detail::reverse", 1)
    C2 = rr_.get(0) if rr_ else None
    for nm in ("begin", "end"):
        fs = P(lambda f: f.cls == NS + "detail::reverse" and f.name == nm)
        ctx.need("R20.2", "detail::reverse::" + nm, len(fs), 1)
        for f in fs:
            r = rets(f)
            ok = len(r) == 1 and C2 is not None and bound_of(r[0], nm, lambda o: field_of(o) == C2, ("cr", "r")) is not None
            ctx.check(bool(ok), "R20.2", f, "owning-%s-from-container" % nm,
                      "detail::reverse::%s() returns %s instead of computing (c)r%s() from the owned container" % (nm, [fmt(x) for x in r], nm), f)
    # owning adaptors hold nothing but the container
    for cn in (NS + "detail::reverse", NS + "detail::enumerate"):
        c = prog.cls(cn)
        if not ctx.anchor("R20.2", cn, c is not None):
            continue
        flds = [(fl["name"], fl["type"]) for fl in c["fields"] if not fl.get("static")]
        ok = len(flds) == 1 and re.fullmatch(r"\w+", flds[0][1]) is not None and not c["fields"][0].get("ref") and not c["fields"][0].get("ptr")
        ctx.check(ok, "R20.2", cn, "adaptor-holds-only-the-container",
                  "%s has members %s: anything derived from the container (iterators, proxies) dangles into the source object after the implicit copy/move of the adaptor" % (short(cn), flds),
                  "%s:%d" % (c["file"], c["line"]))
        cf, cm = ctor_roles(cn, 1)
        if cf is not None:
            inits = {short(e["field"]): fmt(ir.unwrap(e["expr"])) for _, _, e in cf.all_elems() if e["kind"] == "init" and e.get("field")}
            ctx.check(cm == {0: flds[0][0]} and len(inits) == 1 and ("move(" in list(inits.values())[0] or "forward(" in list(inits.values())[0]), "R20.2", cf, "adaptor-takes-ownership", "the adaptor constructor initialises %s" % inits, cf)

    # ---- R20.4: no static / thread_local storage anywhere in the two headers
    n = 0
    for f in pats:
        for bid, i, e in f.all_elems():
            x = e.get("expr")
            if x is None:
                continue
            for y in walk(x):
                if y.get("k") == "decl":
                    for v in y.get("vars", []):
                        if v.get("static"):
                            n += 1
                            ctx.bad("R20.4", f, "shared-storage:" + v["name"], "%s keeps the range in a static/thread_local object `%s`: two enumerations that overlap in time share (and overwrite) it" % (short(f.qual), v["name"]), (f, e.get("ln")))
                if y.get("k") == "ref" and y.get("storage") in ("static_local", "namespace", "static_member") and not y["decl"].split(":", 1)[1].startswith("std::"):
                    n += 1
                    ctx.bad("R20.4", f, "shared-storage:" + y["decl"], "%s uses static-storage object %s" % (short(f.qual), y["decl"]), (f, e.get("ln")))
    from .common import fx, static_locals
    g = fx(ctx, "shared_buffer")
    ctx.fixture("R20.4", "shared_buffer", g is not None and bool(static_locals(g)), True, "static/thread_local storage recognised")
    if not n:
        ctx.ok("R20.4", "nitro::lang", "no-shared-storage", "%d functions scanned" % len(pats), "-")
    # ---- R20.5: the library's own container hands the adaptors correct range bounds
    ctx.rule("R20.5", "fixed_vector's (c)(r)begin/(c)(r)end delimit exactly its elements (R06.9 re-evaluated): enumerate/reverse over it visit each element once")
    if ctx.prop == "C20" and not getattr(ctx, "_sharing", False):
        from .common import share
        share(ctx, "C06", ("R06.9",), "R20.5", "iterator accessor obligations shared with C06", 12)
    ctx.assume("iteration over user-defined iterators with exotic operator!= is outside the claim")
    ctx.trust("range-based for keeps the range expression's temporary alive for the whole loop (Appendix D.7)")


def _strip_copy(n):
    n = ir.unwrap(n)
    while isinstance(n, dict) and n.get("k") == "construct" and len(n.get("args", [])) == 1 and (n.get("copy") or n.get("move") or True):
        n = ir.unwrap(n["args"][0])
    return n
