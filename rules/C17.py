"""C17 - split, join, replace_all and starts_with obey their string laws (structural clauses).

R17.1 (A2/A4 termination) every loop that searches with find(needle, pos) either is dominated by a rejection of the empty
      needle, or decides the empty-needle case explicitly inside the loop (a branch on needle.empty() whose true side
      advances pos by one or leaves the loop on every path).
R17.2 (A4 linear expressions) split: the next search starts at hit + needle.size(), the piece is
      substr(start, hit - start) (or the empty string on the !(start < hit) edge) and the last piece substr(start);
      replace_all: replace(hit, pattern.length(), replacement) and resume at hit + replacement.length().
R17.3 (A6/A2) join: the returned string is the stream's str() unmodified; each element's text goes into the stream through
      operator<< only; the infix is inserted only when the CURRENT element is known to be non-empty and something was
      written before (no leading, trailing or doubled infix).
R17.4 (A3 idiom table) starts_with is one of the position-0 idioms.
"""
import re

from sa import ir, cfg, logic, facts
from sa.ir import fmt, walk, short
from sa.logic import Not
from sa.callgraph import tree_effects, lvalue_root
from .common import callgraph, elem_calls
from . import C04

NS = "nitro::lang::"


def _piece_text(call, hay):
    """canonical text of what a push_back / emplace_back adds: `hay.substr(pos, len)` for the substring forms (substr call, the
    (string, pos[, len]) constructor arguments handed to emplace_back, an explicit std::string(hay, pos, len)), `basic_string{}` for empty"""
    args = [a for a in call.get("args", []) if not (isinstance(a, dict) and a.get("k") == "defarg")]
    if not args:
        return "basic_string{}"
    a0 = ir.unwrap(args[0])
    if len(args) == 1 and isinstance(a0, dict) and a0.get("k") == "construct" and "basic_string" in (a0.get("name") or a0.get("type") or ""):
        inner = [x for x in a0.get("args", []) if not (isinstance(x, dict) and x.get("k") == "defarg")]
        if not inner:
            return "basic_string{}"
        if len(inner) in (2, 3) and fmt(ir.unwrap(inner[0])) == hay:
            args = inner
            a0 = ir.unwrap(args[0])
    if len(args) in (2, 3) and fmt(a0) == hay:
        if len(args) == 2:
            return "%s.substr(%s)" % (hay, fmt(ir.unwrap(args[1])))
        return "%s.substr(%s, %s)" % (hay, fmt(ir.unwrap(args[1])), fmt(ir.unwrap(args[2])))
    return fmt(a0)


def find_sites(f):
    """[(bid, idx, elem, node, needle, pos)] calls X.find(needle, pos) inside loops"""
    out = []
    for bid, i, e in f.roots():
        for n in walk(e["expr"]):
            if n.get("k") == "call" and short(n.get("name") or "") == "find" and n.get("this") is not None and len(n.get("args", [])) >= 1:
                a = n["args"]
                out.append((bid, i, e, n, fmt(ir.unwrap(a[0])), fmt(ir.unwrap(a[1])) if len(a) > 1 else "0"))
    return out


def _reaches_block_without(f, start, targets, barriers):
    """is one of the target blocks reachable from the element position start=(bid, idx) without executing a barrier element?"""
    b0, i0 = start
    es = f.elems(b0)
    for e in es[i0 + 1:]:
        if any(e is c for c in barriers):
            return False
    seen = set()
    st = [to for to, lab in f.succs(b0)]
    while st:
        b = st.pop()
        if b in seen:
            continue
        seen.add(b)
        if b in targets:
            return True
        if any(any(e is c for c in barriers) for e in f.elems(b)):
            continue
        for to, lab in f.succs(b):
            st.append(to)
    return False


def run(ctx):
    prog = ctx.prog
    cg = callgraph(ctx)
    fe = facts.FactsEngine(prog, cg)
    lg = fe.lg
    for r, d in (("R17.1", "scan loops terminate for the empty needle"), ("R17.2", "resume positions and piece boundaries"), ("R17.3", "join: text unaltered, infix only between non-empty elements"), ("R17.4", "starts_with is a position-0 test")):
        ctx.rule(r, d)

    split = [f for f in prog.find(NS + "split") if f.has_cfg]
    repl = [f for f in prog.find(NS + "replace_all") if f.has_cfg]
    from .common import delegating_overload
    for f in [f for f in repl if delegating_overload(prog, f) is not None]:
        ctx.ok("R17.1", f, "delegates", "hands its parameters to %s and returns: the laws are those of that overload" % delegating_overload(prog, f).id[:90], f)
    repl = [f for f in repl if delegating_overload(prog, f) is None]
    ctx.need("R17.1", "split", len(split), 1)
    ctx.need("R17.1", "replace_all", len(repl), 1)
    nloops = 0
    # scan direction: occurrences are chosen in ONE left-to-right pass (for self-overlapping patterns a pass from the right
    # picks different occurrences: "aaa"/"aa" -> "ab" instead of "ba")
    from .common import fx
    g = fx(ctx, "replace_from_back")
    ctx.fixture("R17.2", "replace_from_back", g is not None and bool(_backward(g)), True, "backward search primitive recognised")
    for f in split + repl:
        back = _backward(f)
        if back:
            ctx.bad("R17.2", f, "scans-left-to-right", "%s searches from the right (%s): when occurrences of the pattern overlap, a different set of occurrences is chosen than by the single "
                    "left-to-right pass the law describes" % (short(f.qual), ", ".join(sorted({fmt(n)[:50] for n in back}))), (f, back[0].get("ln")))
        else:
            ctx.ok("R17.2", f, "scans-left-to-right", "no backward search primitive in %s" % short(f.qual), f)
    for f in split + repl:
        IN, before = fe.analyse(f)
        loops = cfg.loop_blocks(f)
        sites = [s for s in find_sites(f) if any(s[0] in body for h, body in loops)]
        if not sites:
            ctx.broken("R17.1", f, "scan-loop", "%s has no find(needle, pos) inside a loop: scan idiom not recognised" % short(f.qual), f)
            continue
        for (bid, i, e, n, needle, pos) in sites:
            nloops += 1
            empty = ("a", "%s.empty()" % needle)
            st = before.get((bid, i)) or frozenset()
            # (a) dominated by a rejection - which holds for the loop only if nothing in the loop can change the needle: a needle taken by
            # (const) reference may BE the string the loop modifies through another reference parameter of the same type
            # (`replace_all(s, s, "")`): what was tested in front of the loop is then no longer true after the first modification
            body0 = [b for h, b in loops if bid in b][0]
            base_t = lambda t: (t or "").replace("const ", "").replace("&", "").strip()
            np0 = [p0 for p0 in f.params if p0["name"] == needle and (p0.get("type") or "").rstrip().endswith("&")]
            aliased = None
            if np0:
                others = {p0["name"] for p0 in f.params if p0["name"] != needle and base_t(p0.get("type")) == base_t(np0[0].get("type"))
                          and (p0.get("type") or "").rstrip().endswith("&") and not (p0.get("type") or "").startswith("const ")}
                for b0 in body0:
                    for el0 in f.elems(b0):
                        if el0.get("expr") is None:
                            continue
                        for eff, lv, n0 in tree_effects(el0["expr"]):
                            if eff in ("write", "maybe_write") and lv is not None:
                                kind0, key0, _ = lvalue_root(lv)
                                if kind0.split(":")[-1] == "param" and key0 in others and not (isinstance(n0, dict) and n0.get("k") == "call" and short(n0.get("name") or "") in ("find", "begin", "end", "size", "length")):
                                    aliased = (key0, n0)
            if logic.entails(st, Not(empty), lg.axioms)[0] is True and aliased is not None:
                ctx.bad("R17.1", f, "empty-needle-rejected", "find(%s, %s) runs in a loop that is entered only with a non-empty %s - but the loop changes `%s` (`%s`), a reference parameter of the same type: "
                        "when both name one string (`replace_all(s, s, \"\")`) the first modification empties the needle, find(\"\", p) then succeeds forever and the call never returns"
                        % (needle, pos, needle, aliased[0], fmt(aliased[1])[:50]), (f, n.get("ln")))
                continue
            if logic.entails(st, Not(empty), lg.axioms)[0] is True:
                ctx.ok("R17.1", f, "empty-needle-rejected", "find(%s, %s) only runs with a non-empty needle" % (needle, pos), (f, n.get("ln")))
                continue
            # (b) decided inside the loop
            body = [b for h, b in loops if bid in b][0]
            decided = False
            for b in body:
                c = f.term(b).get("cond")
                if c is not None and fmt(c) in ("%s.empty()" % needle, "(%s.size() == 0)" % needle, "(%s.length() == 0)" % needle, "(!%s.size())" % needle):
                    tgt = dict((lab, to) for to, lab in f.succs(b)).get("true")
                    # every path from the true edge back to the loop head passes an increment of pos, or leaves the loop
                    adv = lambda x, pos=pos: fmt(x.get("expr")) in ("(++%s)" % pos, "(%s++)" % pos, "(%s += 1)" % pos)
                    head = [h for h, bb in loops if bid in bb][0]
                    seen = set()
                    stack = [tgt]
                    okpaths = True
                    while stack:
                        x = stack.pop()
                        if x in seen or x is None:
                            continue
                        seen.add(x)
                        if x not in body:
                            continue  # left the loop
                        if any(adv(el) for el in f.elems(x)):
                            continue
                        if x == head:
                            okpaths = False
                            break
                        for to, lab in f.succs(x):
                            stack.append(to)
                    decided = okpaths
            ctx.check(decided, "R17.1", f, "empty-needle-terminates",
                      "%s searches with find(%s, %s) in a loop without rejecting the empty %s first and without stepping %s forward for an empty match: "
                      "find(\"\", p) succeeds at every p, so the call never returns for an empty %s" % (short(f.qual), needle, pos, needle, pos, needle), (f, n.get("ln")))
    ctx.need("R17.1", "find-in-loop sites", nloops, 2)

    # ---- R17.2 split
    for f in split:
        hay, needle = f.params[0]["name"], f.params[1]["name"]
        sites = find_sites(f)
        # one search expression (it may be written twice: as the initialiser and as the step of a for loop)
        distinct = sorted({fmt(s0[3]) for s0 in sites})
        ctx.check(len(distinct) == 1 and sites[0][4] == needle and fmt(sites[0][3].get("this")) == hay, "R17.2", f, "split-one-search", "split searches %s" % distinct, f)
        if len(sites) != 1:
            continue
        bid, i, e, n, _, startv = sites[0]
        x = e["expr"]
        hit = x["vars"][0]["name"] if x.get("k") == "decl" and x.get("vars") else None
        if hit is None:
            # assignment form
            for y in walk(x):
                if y.get("k") == "bin" and y["op"] == "=" and ir.unwrap(y["r"]) is n:
                    hit = fmt(y["l"])
        ctx.check(re.fullmatch(r"\w+", startv or "") is not None and startv != "0", "R17.2", f, "split-search-from-start", "the search starts at `%s`, not at the running start position" % startv, (f, n.get("ln")))
        assigns = []
        for b2, i2, e2 in f.roots():
            for y in walk(e2["expr"], into_sc=False):
                if y.get("k") == "bin" and y["op"] in ("=", "+=") and fmt(y["l"]) == startv:
                    assigns.append((b2, i2, e2, y))
        okres = len(assigns) == 1 and assigns[0][3]["op"] == "=" and fmt(ir.unwrap(assigns[0][3]["r"])) in ("(%s + %s.size())" % (hit, needle), "(%s + %s.length())" % (hit, needle))
        ctx.check(okres, "R17.2", f, "split-resumes-after-the-separator",
                  "after a hit the next search starts at %s instead of hit + needle.size(): separators that overlap the consumed one are found again (or text is skipped)"
                  % ([fmt(a[3]) for a in assigns] or startv), f)
        pieces = []
        for b2, i2, e2 in f.roots():
            for y in walk(e2["expr"], into_sc=False):
                if y.get("k") == "call" and short(y.get("name") or "") in ("emplace_back", "push_back") and fmt(y.get("this")) == "result":
                    pieces.append((b2, i2, e2, _piece_text(y, hay)))
        IN, before = fe.analyse(f)
        found = ("a", "(%s == std::basic_string<char>::npos)" % hit)
        nmid = nlast = 0
        for (b2, i2, e2, p) in pieces:
            st = before.get((b2, i2)) or frozenset()
            if logic.entails(st, found, lg.axioms)[0] is True:
                nlast += 1
                ctx.check(p in ("%s.substr(%s, std::basic_string<char>::npos)" % (hay, startv), "%s.substr(%s)" % (hay, startv)), "R17.2", f, "split-last-piece", "the last piece is %s" % p, (f, e2.get("ln")))
            else:
                nmid += 1
                ok = p == "%s.substr(%s, (%s - %s))" % (hay, startv, hit, startv) or (p in ("basic_string{}", "\"\"") and logic.entails(st, Not(("a", "(%s < %s)" % (startv, hit))), lg.axioms)[0] is True)
                ctx.check(ok, "R17.2", f, "split-piece-boundaries@%s" % (e2.get("ln", 0) - f.line), "a piece is %s instead of substr(start, hit - start)" % p, (f, e2.get("ln")))
        ctx.check(nlast == 1 and nmid >= 1, "R17.2", f, "split-pieces-complete", "split emits %d middle and %d last pieces" % (nmid, nlast), f)
    # ---- R17.2 replace_all
    for f in repl:
        s, pat, rep = [p["name"] for p in f.params[:3]]
        sites = find_sites(f)
        if len(sites) != 1:
            ctx.broken("R17.2", f, "replace-one-search", "replace_all has %d find calls" % len(sites), f)
            continue
        bid, i, e, n, needle, posv = sites[0]
        ctx.check(needle == pat and fmt(n.get("this")) == s, "R17.2", f, "replace-searches-pattern", "replace_all searches %s" % fmt(n), f)
        reps = [y for b2, i2, e2 in f.roots() for y in walk(e2["expr"], into_sc=False) if y.get("k") == "call" and short(y.get("name") or "") == "replace" and fmt(y.get("this")) == s]
        okr = len(reps) == 1 and [fmt(ir.unwrap(a)) for a in reps[0].get("args", [])] in ([posv, "%s.length()" % pat, rep], [posv, "%s.size()" % pat, rep])
        ctx.check(okr, "R17.2", f, "replace-at-hit", "the replacement is %s instead of replace(hit, pattern.length(), replacement)" % [fmt(r) for r in reps], f)
        advs = [fmt(y) for b2, i2, e2 in f.roots() for y in walk(e2["expr"], into_sc=False) if y.get("k") == "bin" and y["op"] in ("+=", "=") and fmt(y["l"]) == posv and not (ir.unwrap(y["r"]).get("k") == "call" and short(ir.unwrap(y["r"]).get("name") or "") == "find") and not (ir.unwrap(y["r"]).get("k") == "lit")]
        oka = advs in (["(%s += %s.length())" % (posv, rep)], ["(%s += %s.size())" % (posv, rep)])
        ctx.check(oka, "R17.2", f, "replace-resumes-after-inserted-text", "the scan resumes with %s instead of hit + replacement.length(): inserted text is rescanned (or original text skipped)" % advs, f)

    # ---- R17.3 join
    joins = [f for f in prog.find(NS + "join") if f.has_cfg and f.is_pattern]
    ctx.need("R17.3", "join (iterator overload, pattern)", len(joins), 1)
    for f in joins:
        infix = f.params[2]["name"] if len(f.params) > 2 else "infix"
        IN, before = fe.analyse(f)
        # the result stream: the stringstream whose str() is returned
        rets = [(b, i, e, ir.unwrap(e["expr"].get("e"))) for b, i, e in f.roots() if e["expr"].get("k") == "return" and b in IN]
        outs = set()
        for b, i, e, r in rets:
            s0 = fmt(r)
            m = re.fullmatch(r"(\w+)\.str\(\)", s0)
            if m:
                outs.add(m.group(1))
                ctx.ok("R17.3", f, "returns-stream-text-unmodified@%d" % (e.get("ln", 0) - f.line), s0, (f, e.get("ln")))
            elif isinstance(r, dict) and ((r.get("k") == "ref" and r.get("decl", "").startswith("local:")) or (r.get("k") == "construct" and len(r.get("args", [])) == 1 and ir.unwrap(r["args"][0]).get("k") == "ref")):
                # a local that only ever holds some stream's str()
                from sa import valueflow
                holder = {}
                def is_str_call(m, holder=holder):
                    if isinstance(m, dict) and m.get("k") == "call" and short(m.get("name") or "") == "str" and not m.get("args") and m.get("this") is not None:
                        holder["s"] = fmt(m["this"])
                        return True
                    return False
                okc, why = valueflow.carrier(f, r, is_str_call)
                if okc and holder.get("s"):
                    outs.add(holder["s"])
                    ctx.ok("R17.3", f, "returns-stream-text-unmodified@%d" % (e.get("ln", 0) - f.line), s0 + " = %s.str()" % holder["s"], (f, e.get("ln")))
                else:
                    ctx.bad("R17.3", f, "returns-stream-text-unmodified@%d" % (e.get("ln", 0) - f.line), "join returns %s which is not the stream's text unmodified (%s)" % (s0[:60], why), (f, e.get("ln")))
            elif s0 in ("basic_string{}", "{}", "\"\""):
                ctx.ok("R17.3", f, "returns-empty-for-empty-range@%d" % (e.get("ln", 0) - f.line), s0, (f, e.get("ln")))
            else:
                ctx.bad("R17.3", f, "returns-stream-text-unmodified@%d" % (e.get("ln", 0) - f.line),
                        "join returns %s - the collected text is post-processed (trimmed/cut), which alters an element's own text" % s0[:80], (f, e.get("ln")))
        if len(outs) != 1:
            ctx.broken("R17.3", f, "result-stream", "cannot identify the result stream of join (%s)" % sorted(outs), f)
            continue
        out = outs.pop()
        # insertions into the result stream
        ins = []
        for b, i, e in f.roots():
            for y in walk(e["expr"], into_sc=False):
                bo = ir.as_binop(y)
                if bo and bo[0] == "<<" and fmt(ir.unwrap(bo[1])) == out:
                    ins.append((b, i, e, fmt(ir.unwrap(bo[2]))))
        infix_ins = [x for x in ins if x[3] == infix]
        elem_ins = [x for x in ins if x[3] != infix]
        ctx.check(len(infix_ins) >= 1 and len(elem_ins) >= 1, "R17.3", f, "stream-receives-elements-and-infix", "insertions into the result stream: %s" % [x[3] for x in ins], f)
        # what is the current element's text? a local holding the rendering of *it, or *it itself
        for (b, i, e, what) in elem_ins:
            okw = what in ("(*it)", "text") or re.fullmatch(r"[\w@]+(\.str\(\))?", what) is not None  # a local, or the element stream's text itself
            ctx.check(okw, "R17.3", f, "element-inserted-directly", "an element reaches the result as %s" % what, (f, e.get("ln")))
        for (b, i, e, what) in infix_ins:
            st = before.get((b, i)) or frozenset()
            shown = [logic.show(g) for g in st]
            # (1) the current element is known non-empty
            nonempty = any(re.fullmatch(r"!([\w@]+)(\.str\(\))?\.empty\(\)", s0) for s0 in shown) or any(re.fullmatch(r"!\(%s\.tellp\(\) == \w+\)|!\(\w+ == %s\.tellp\(\)\)" % (out, out), s0) for s0 in shown)
            # the non-emptiness must be about the current element: the tested local is (re)defined inside the loop body
            ctx.check(nonempty, "R17.3", f, "infix-only-next-to-a-non-empty-element",
                      "the infix is written at line %s without knowing that the current element is non-empty [known: %s]: an empty element produces a doubled or trailing infix" % (e.get("ln"), shown), (f, e.get("ln")))
            # (2) not before the first written element (no leading infix): either a `first` flag is known false or the infix follows an element insertion in the same iteration
            follows = any(x[0] == b and x[1] < i for x in elem_ins) or any(cfg.reaches_without(f, (x[0], x[1]), lambda el, e=e: el is e, lambda el: False) is not None and x[0] in [bb for h, body in cfg.loop_blocks(f) for bb in body] for x in elem_ins)
            notfirst = any(re.fullmatch(r"!first|!is_first|!\w*first\w*", s0) for s0 in shown)
            ctx.check(notfirst or follows, "R17.3", f, "no-leading-infix", "the infix at line %s can be written before any element" % e.get("ln"), (f, e.get("ln")))
        # (3) no missing infix: the flag that holds the infix back ahead of the first written element only ever goes from true to false.
        # Inside the loop it is assigned the literal `false`, nothing else (`first = text.empty()` re-arms it after an empty element: "a", "", "b" -> "ab"),
        # and an element known to be non-empty is not written without clearing it before the next round
        loop_bl = set(bb for h, body in cfg.loop_blocks(f) for bb in body)
        flags = set()
        for (b, i, e, what) in infix_ins:
            for g in (before.get((b, i)) or frozenset()):
                m = re.fullmatch(r"!([A-Za-z_]\w*)", logic.show(g))
                if m:
                    flags.add(m.group(1))
        for fl in sorted(flags):
            clears = []
            for b, i, e in f.roots():
                if b not in loop_bl:
                    continue
                for y in walk(e["expr"], into_sc=False):
                    if y.get("k") == "bin" and y.get("op") in ("=", "|=", "&=", "^=") and fmt(ir.unwrap(y["l"])) == fl:
                        r = ir.unwrap(y["r"])
                        lit_false = y["op"] == "=" and isinstance(r, dict) and r.get("k") == "lit" and r.get("v") in (False, 0)
                        ctx.check(lit_false, "R17.3", f, "infix-flag-only-cleared:%s" % fl,
                                  "the flag `%s` that holds the infix back is assigned `%s` inside the loop: it can become true again after an element has been written, the next element is glued to it without the infix"
                                  % (fl, fmt(y)[:50]), (f, e.get("ln")), why_ok=fmt(y))
                        if lit_false:
                            clears.append(e)
            for (b, i, e, what) in elem_ins:
                if b not in loop_bl:
                    continue
                st = [logic.show(g) for g in (before.get((b, i)) or frozenset())]
                if not any(re.fullmatch(r"!([\w@]+)(\.str\(\))?\.empty\(\)", s0) for s0 in st):
                    continue
                heads = [h for h, body in cfg.loop_blocks(f) if b in body]
                # a cleared flag on the way round: from the insertion, the loop head is not reachable without passing a clearing assignment
                rounds = _reaches_block_without(f, (b, i), set(heads), clears)
                ctx.check(bool(clears) and not rounds, "R17.3", f, "infix-flag-cleared-after-element:%s" % fl,
                          "after writing a non-empty element at line %s the loop can start its next round with `%s` still true: the following element is written without the infix" % (e.get("ln"), fl), (f, e.get("ln")))
        # no trailing infix: an infix insertion is always followed by an element insertion before the loop can end
        for (b, i, e, what) in infix_ins:
            p = cfg.reaches_without(f, (b, i), cfg.EXIT, lambda el: any(el is x[2] for x in elem_ins))
            lead = any(re.fullmatch(r"!\w*first\w*", logic.show(g)) for g in (before.get((b, i)) or []))
            ctx.check(p is None or not lead and False, "R17.3", f, "no-trailing-infix", "after writing the infix at line %s join can finish without writing another element" % e.get("ln"), (f, e.get("ln"))) if lead else None
    # the vector overload delegates
    jv = [f for f in prog.find(NS + "join") if f.has_cfg and not f.is_pattern and not f.flags.get("instantiation")]
    for f in jv:
        r = [fmt(ir.unwrap(e["expr"].get("e"))) for _, _, e in f.roots() if e["expr"].get("k") == "return"]
        p = f.params[0]["name"]
        q = f.params[1]["name"]
        okd = len(r) == 1 and (re.fullmatch(r"join\(%s\.c?begin\(\), %s\.c?end\(\), %s\)" % (p, p, q), r[0]) is not None
                               or re.fullmatch(r"join\((std::)?c?begin\(%s\), (std::)?c?end\(%s\), %s\)" % (p, p, q), r[0]) is not None)
        ctx.check(okd, "R17.3", f, "vector-overload-delegates", "join(vector) returns %s instead of the iterator overload over the whole vector with the same infix" % r, f)

    # ---- R17.4
    sw = [f for f in prog.find(NS + "starts_with") if f.has_cfg]
    ctx.need("R17.4", "starts_with", len(sw), 1)
    for f in sw:
        a, b = f.params[0]["name"], f.params[1]["name"]
        # the prefix relation is over all byte strings: both operands are length-carrying strings, not NUL-terminated views
        pts = [(p0.get("type") or "") for p0 in f.params[:2]]
        lenful = all(re.search(r"basic_string|std::string|string_view", t) for t in pts)
        ctx.check(lenful, "R17.4", f, "operands-carry-their-length", "starts_with takes (%s): a NUL-terminated view ends at the first NUL byte, so length and comparison ignore everything behind it - "
                  "starts_with(\"ab\", \"ab\\0zz\") holds although it is not a prefix" % ", ".join(pts), f, why_ok=", ".join(pts))
        if not lenful:
            continue
        r = [fmt(ir.unwrap(e["expr"].get("e"))) for _, _, e in f.roots() if e["expr"].get("k") == "return"]
        good = {"(%s.find(%s, 0) == 0)" % (a, b), "(%s.rfind(%s, 0) == 0)" % (a, b), "(%s.compare(0, %s.size(), %s) == 0)" % (a, b, b), "(%s.compare(0, %s.length(), %s) == 0)" % (a, b, b)}
        wrong = {"(%s.find(%s, 0) != std::basic_string<char>::npos)" % (a, b), "(%s.find(%s, 0) >= 0)" % (a, b), "(%s.rfind(%s, std::basic_string<char>::npos) == 0)" % (a, b)}
        # `full.size() >= beginning.size() && <core>`: the guard only states what the core implies
        mg = re.fullmatch(r"\(\((%s\.(?:size|length)\(\) >= %s\.(?:size|length)\(\)|%s\.(?:size|length)\(\) <= %s\.(?:size|length)\(\))\) && (.+)\)" % (re.escape(a), re.escape(b), re.escape(b), re.escape(a)), r[0]) if len(r) == 1 else None
        # element-wise comparison from both starts over the prefix's length: `equal(b.begin(), b.end(), a.begin())` reads b.size() elements
        # of a - a position-0 idiom only where a.size() >= b.size() is established first (the guard is then not an optimisation but the
        # bound of the read)
        eq3 = re.compile(r"(std::)?equal\(%s\.c?begin\(\), %s\.c?end\(\), %s\.c?begin\(\)\)" % (re.escape(b), re.escape(b), re.escape(a)))
        if mg and mg.group(2) in good:
            ctx.ok("R17.4", f, "prefix-idiom", r[0], f)
        elif mg and eq3.fullmatch(mg.group(2)):
            ctx.ok("R17.4", f, "prefix-idiom", r[0], f)
        elif len(r) == 1 and eq3.fullmatch(r[0]):
            ctx.bad("R17.4", f, "prefix-idiom", "starts_with is %s: the comparison walks %s.size() elements of %s without establishing %s.size() >= %s.size() first - for a prefix longer than the "
                    "string it reads past the end (the terminator compares equal to an embedded NUL, what lies behind it is whatever the buffer holds): starts_with(\"ab\", std::string(\"ab\\0\", 3)) holds" % (r[0], b, a, a, b), f)
        elif len(r) == 1 and r[0] in good:
            ctx.ok("R17.4", f, "prefix-idiom", r[0], f)
        elif len(r) == 1 and r[0] in wrong:
            ctx.bad("R17.4", f, "prefix-idiom", "starts_with is %s: true for an occurrence anywhere, not only at position 0" % r[0], f)
        elif len(r) == 1 and re.fullmatch(r"\(%s\.r?find\(%s, (.+)\) == 0\)" % (re.escape(a), re.escape(b)), r[0]):
            # the search is anchored by its position argument: only the constant 0 makes `== 0` mean "is a prefix"
            m = re.fullmatch(r"\(%s\.(r?find)\(%s, (.+)\) == 0\)" % (re.escape(a), re.escape(b)), r[0])
            ctx.bad("R17.4", f, "prefix-idiom", "starts_with is %s: %s" % (r[0], "rfind reports the LAST occurrence starting at or before `%s`, so a prefix that occurs again up to there is refused" % m.group(2) if m.group(1) == "rfind" else "find from position `%s` can only answer 0 when that position is 0" % m.group(2)), f)
        else:
            # early answers in front of one core idiom: each constant return must be right for every input it covers
            rets = [(bid, e, ir.unwrap(e["expr"].get("e"))) for bid, _, e in f.roots() if e["expr"].get("k") == "return"]
            core = [x for x in rets if fmt(x[2]) in good or eq3.fullmatch(fmt(x[2]))]
            consts = [x for x in rets if fmt(x[2]) in ("true", "false")]
            if len(core) == 1 and len(core) + len(consts) == len(rets) and not cfg.loop_blocks(f):
                if eq3.fullmatch(fmt(core[0][2])):
                    # the bounded read needs its bound: some `return false` (checked below to hang on `prefix longer than string`) in front of it
                    ctx.check(any(fmt(v) == "false" for _, _, v in consts), "R17.4", f, "prefix-idiom",
                              "starts_with is %s with no refusal of a longer prefix in front of it: the comparison reads %s.size() elements of %s" % (fmt(core[0][2]), b, a), f, why_ok=fmt(core[0][2]))
                else:
                    ctx.ok("R17.4", f, "prefix-idiom", fmt(core[0][2]), f)
                sz = lambda v: r"%s\.(size|length)\(\)" % re.escape(v)
                for bid, e, val in consts:
                    # the branch edge this return hangs on
                    guard = None
                    dom = cfg.dominators(f)
                    for d0 in sorted(dom.get(bid, ()), key=lambda x: len(dom.get(x, ()))):
                        c = f.term(d0).get("cond")
                        if c is None or d0 == bid:
                            continue
                        for to, lab in f.succs(d0):
                            if not cfg.reachable_without_edge(f, d0, to, bid):
                                guard = (fmt(ir.unwrap(c)), lab)  # the nearest such edge wins (dominators visited outermost first)
                    g = guard[0] if guard and guard[1] == "true" else ("!(%s)" % guard[0] if guard else "?")
                    if fmt(val) == "true":
                        okg = re.fullmatch(r"%s\.empty\(\)|\(%s == 0\)" % (re.escape(b), sz(b)), g) is not None
                        why = "`return true` under %s: only the empty prefix may be answered without comparing" % g
                    else:
                        okg = re.fullmatch(r"\(%s > %s\)|\(%s < %s\)" % (sz(b), sz(a), sz(a), sz(b)), g) is not None
                        why = ("`return false` under %s: only a prefix LONGER than the string may be refused without comparing (with >= a string is no longer a prefix of itself)" % g)
                    ctx.check(okg, "R17.4", f, "early-answer:%s@%s" % (fmt(val), e.get("ln")), why, (f, e.get("ln")), why_ok=g)
            else:
                ctx.broken("R17.4", f, "prefix-idiom", "starts_with is %s: not one of the recognised position-0 idioms" % r, f)
    ctx.rule("R17.5", "split / join / replace_all / starts_with keep no function-local static / thread_local object (stream formatting state or text of one call or element cannot reach another)")
    from .common import rule_no_static_state
    rule_no_static_state(ctx, "R17.5", lambda f: f.file.endswith("lang/string.hpp"), "stream state (flags, fill, precision) or text left by one element or call is seen by the next", minimum=4)
    ctx.assume("the split/join inverse law, piece counts and the full output equations are statements about runtime strings: not decided")
    ctx.trust("p = s.find(x, from): p == npos or from <= p (Appendix D.2)")


def _backward(f):
    return [n for _, _, e in f.roots() for n in walk(e["expr"]) if n.get("k") == "call" and short(n.get("name") or "") in ("rfind", "find_last_of", "find_last_not_of", "find_end", "rbegin", "crbegin")]
