"""C12 - positionals: `--`, greedy mode, the accepted count, negative indices.

R12.1 (A1/A2) once the only-positionals mode is on - and for every value token - an iteration of the token loop can only
      append the token to the positional list or raise the limit error; no option/toggle matching or `--` test comes first.
      Every append happens under (mode || is_value(token)).
R12.2 (A5/A1) the mode flag is only ever assigned `true` inside the loop (monotone): once on the is_double_dash edge and,
      under greedy_positionals_, in the positional branch.
R12.3 (A2) every feasible append is dominated by the limit comparison whose other edge raises parsing_error; at most one
      append per iteration.
R12.4 (A6) what is appended is a copy-only carrier of it->data(); data() returns arg_; arg_ is only ever the constructor argument.
R12.5 (A2) arguments::get(int) adds size() exactly when the index is negative and accesses through the range-checked at().
R12.6 (A1/A5) parse(argc, argv) must not apply a token constructor that can raise to every argv[i] unconditionally
      (tokens after `--` would still be syntax-checked).
"""
import re

from sa import ir, cfg, logic, facts, valueflow
from sa.ir import fmt, walk, short
from sa.logic import Not, And, Or
from sa.callgraph import tree_effects, lvalue_root
from .common import NS, PARSE_VEC, PARSE_ARGV, callgraph, one, elem_calls, literal_value
from .parse_loop import ParseLoop
from . import C04

UI = NS + "user_input"


def run(ctx):
    prog = ctx.prog
    cg = callgraph(ctx)
    for r, d in (("R12.1", "positional branch first; taken for every token in only-positionals mode and for every value token"),
                 ("R12.2", "mode flag monotone: assigned true on `--` and (greedy) on the first positional"),
                 ("R12.3", "append dominated by the limit comparison whose other edge raises; one append per iteration"),
                 ("R12.4", "appended text is the token verbatim"),
                 ("R12.5", "negative index normalisation + range-checked access"),
                 ("R12.6", "no unconditional raising token construction for every argv[i]")):
        ctx.rule(r, d)
    pl = ParseLoop(ctx, "R12.1")
    if pl.ok:
        fn, fe, lg = pl.fn, pl.fe, pl.fe.lg
        it = pl.it
        modes = [("a", m) for m in pl.modes]
        mode = modes[0]
        for m in modes[1:]:
            mode = Or(mode, m)
        ctx.tables["mode_flags"] = pl.modes
        is_value = Not(("a", "((*%s).name_[0] == '-')" % it))
        is_dd = ("a", '((*%s).arg_ == "--")' % it)
        # sanity: the engine's is_value atom is what user_input::is_value means
        iv = prog.fn(UI + "::is_value() const")
        ivf = lg.fn_formula(iv, {"this": None, "params": {}}) if iv is not None and iv.has_cfg else None
        if ivf is None:
            ctx.broken("R12.1", UI + "::is_value", "predicate-shape", "user_input::is_value() is not a loop-free predicate", "-")
            return
        # is_value() must mean exactly "does not start with a dash" (the empty name included: name_[0] is then the
        # terminator): front() and [0] are the same character
        def ren(f0):
            if f0[0] == "a":
                return ("a", f0[1].replace("this.name_.front()", "this.name_[0]").replace("this.name_.at(0)", "this.name_[0]"))
            if f0[0] == "n":
                return Not(ren(f0[1]))
            if f0[0] in "&|":
                return (And if f0[0] == "&" else Or)(ren(f0[1]), ren(f0[2]))
            return f0
        ivn = ren(ivf)
        dash = ("a", "(this.name_[0] == '-')")
        sound, _ = logic.entails([ivn], Not(dash), lg.axioms)
        complete, cm = logic.entails([Not(dash)], ivn, lg.axioms)
        if not sound:
            ctx.bad("R12.1", iv, "value-tokens-are-dashless", "is_value() (%s) can be true for a token that starts with `-`: option-like tokens would be taken as positionals" % logic.show(ivf), iv)
            return
        if not complete:
            ctx.bad("R12.1", iv, "every-dashless-token-is-a-value", "is_value() (%s) is false for some token that does not start with `-` (%s): such a token is neither a value nor option-like, "
                    "so it is rejected instead of becoming a positional" % (logic.show(ivf), {k: v for k, v in (cm or {}).items()}), iv)
            return
        ctx.ok("R12.1", iv, "is_value-means-dashless", logic.show(ivf), iv)
        paths = pl.iteration_paths()
        ctx.need("R12.1", "iteration path classes of the token loop", len(paths), 5)
        app_elems = {id(a[2]) for a in pl.appends}

        def has_append(path):
            return sum(1 for b in path for e in fn.elems(b) if id(e) in app_elems)

        def other_classification(path):
            names = []
            for b in path:
                for e in fn.elems(b):
                    for n in elem_calls(e):
                        nm = short(n.get("name") or "")
                        if nm.startswith("try_parse") or nm in ("is_double_dash", "matches"):
                            names.append(nm)
            return names

        def compatible(path, lit):
            # no block on the path knows the negation of lit
            for b in path:
                r, _ = logic.entails(pl.IN.get(b, frozenset()), Not(lit), lg.axioms)
                if r is True:
                    return False
            return True

        n_mode = n_val = 0
        for path, end in paths:
            for (lit, what, counter) in [(m, "only-positionals mode (%s)" % m[1], "m:" + m[1] if len(modes) > 1 else "m") for m in modes] + [(is_value, "a value token", "v")]:
                if not compatible(path, lit):
                    continue
                if counter.startswith("m"):
                    n_mode += 1
                else:
                    n_val += 1
                na = has_append(path)
                oc = other_classification(path)
                if counter == "v":
                    # a value token is never `--`; testing for it first is harmless, matching it against options is not
                    oc = [x for x in oc if x != "is_double_dash"]
                is_limit_raise = end == "raise" and _is_limit_raise(fn, path[-1], pl.positionals)
                good = (na >= 1 or is_limit_raise) and not oc
                sig = "B" + "-".join(map(str, path))
                ctx.check(good, "R12.1", fn, "positional-path[%s]:%s" % (counter, _path_sig(fn, path, end)),
                          "in %s an iteration can %s (path %s): the token is not treated as a positional first" % (
                              what, ("reach " + ", ".join(sorted(set(oc)))) if oc else "end without appending the token", sig), fn)
        ctx.need("R12.1", "mode-compatible iteration paths", n_mode, 1)
        ctx.need("R12.1", "value-token iteration paths", n_val, 1)
        # every append under mode || is_value
        for (bid, i, e, n, lst) in pl.appends:
            if bid not in pl.IN:
                ctx.note("append at line %s is infeasible (pruned by must-facts)" % e.get("ln"))
                continue
            ok, cm = fe.proves(fn, bid, i, Or(mode, is_value))
            ctx.check(ok, "R12.1", fn, "append-under-mode-or-value@%s" % _rel(fn, e),
                      "a token that is neither a value nor after `--`/greedy can be appended to the positionals (line %s)" % e.get("ln"), (fn, e.get("ln")))

        # ---- R12.2
        n_dd = n_greedy = 0
        for (bid, i, e, n, key) in pl.mode_writes:
            lv = literal_value(n["r"])
            st = pl.before.get((bid, i)) or frozenset()
            was_off = logic.entails(st, Not(("a", key)), lg.axioms)[0] is True
            ctx.check(lv == ("bool", True) or was_off, "R12.2", fn, "mode-monotone@%s" % _rel(fn, e), "the only-positionals flag `%s` is assigned %s on a path where it may already be on: the mode can be switched off again" % (key, fmt(n["r"])), (fn, e.get("ln")))
            greedy_rhs = fmt(n["r"]) in ("greedy_positionals_", "this.greedy_positionals_")
            if logic.entails(st, is_dd, lg.axioms)[0] is True:
                n_dd += 1
            elif (greedy_rhs or logic.entails(st, ("a", "this.greedy_positionals_"), lg.axioms)[0] is True) and logic.entails(st, Or(mode, is_value), lg.axioms)[0] is True:
                n_greedy += 1
            else:
                ctx.bad("R12.2", fn, "mode-switch-reason@%s" % _rel(fn, e), "the mode is switched on at line %s neither on the `--` token nor under greedy_positionals_ in the positional branch" % e.get("ln"), (fn, e.get("ln")))
        ctx.check(n_dd >= 1, "R12.2", fn, "mode-on-double-dash", "no assignment switches the mode on for the `--` token", fn)
        ctx.check(n_greedy >= 1, "R12.2", fn, "mode-on-greedy", "no assignment switches the mode on for the first positional in greedy mode", fn)
        # the `--` edge consumes the token without appending it only when the mode was off
        # ---- R12.3
        lst = pl.positionals
        if pl.positionals_member:
            # a list that outlives the call must be emptied on every path before the first token is looked at
            def clears(e, fld=pl.positionals_member):
                x = e.get("expr")
                if x is None:
                    return False
                for n0 in walk(x, into_sc=False):
                    if n0.get("k") == "call" and short(n0.get("name") or "") == "clear" and n0.get("this") is not None and fmt(ir.unwrap(n0["this"])) == short(fld):
                        return True
                    if n0.get("k") in ("bin", "call") and (n0.get("op") == "=") and fmt(ir.unwrap(n0.get("l") if n0.get("k") == "bin" else n0.get("this"))) == short(fld):
                        from .common import is_empty_temp
                        rhs = n0.get("r") if n0.get("k") == "bin" else (n0.get("args") or [None])[0]
                        if rhs is not None and is_empty_temp(rhs):
                            return True
                return False
            okc, pth = cfg.must_precede(fn, clears, lambda e, h=pl.head: False) if False else (None, None)
            reach = _head_reachable_without(fn, pl.head, clears)
            ctx.check(not reach, "R12.3", fn, "member-list-emptied-before-loop",
                      "the positional list is the parser member `%s` and the token loop can be reached without emptying it: positionals collected by an earlier parse that ended in an error "
                      "are still in it - they are prepended to the next result and count against the accepted number" % short(pl.positionals_member), fn)
        lim_eq = ("a", "(%s.size() == this.allowed_positionals_)" % pl.positionals_atom)
        lim_lt = ("a", "(%s.size() < this.allowed_positionals_)" % pl.positionals_atom)
        nfeasible = 0
        for (bid, i, e, n, _) in pl.appends:
            if bid not in pl.IN:
                continue
            nfeasible += 1
            st = pl.before.get((bid, i)) or frozenset()
            under = logic.entails(st, Not(lim_eq), lg.axioms)[0] is True or logic.entails(st, lim_lt, lg.axioms)[0] is True
            ctx.check(under, "R12.3", fn, "append-under-limit@%s" % _rel(fn, e),
                      "the positional list grows at line %s without the comparison with allowed_positionals_ on that path: more positionals than accepted are taken" % e.get("ln"),
                      (fn, e.get("ln")), detail={"facts": [logic.show(x) for x in st]})
        ctx.need("R12.3", "feasible appends to the positional list", nfeasible, 1)
        # a whole range appended in one go (std::copy / std::transform into back_inserter(list), list.insert(list.end(), a, b)): the limit test in
        # front of it has to count the positionals collected so far, i.e. it mentions the list's size() together with the accepted number
        for bid, i, e in fn.roots():
            if bid not in pl.IN:
                continue
            for n in walk(e["expr"], into_sc=False):
                if n.get("k") != "call":
                    continue
                nm0 = n.get("name") or ""
                bulk = False
                if nm0 in ("std::copy", "std::transform", "std::move", "std::copy_n", "std::copy_if", "std::remove_copy_if", "std::transform_if"):
                    for a in n.get("args", []):
                        au = ir.unwrap(a)
                        if isinstance(au, dict) and au.get("k") == "call" and (au.get("name") or "") in ("std::back_inserter", "std::inserter", "std::front_inserter") and au.get("args") \
                                and fmt(ir.unwrap(au["args"][0])) in (pl.positionals, "this->" + pl.positionals):
                            bulk = True
                elif short(nm0) in ("insert", "assign", "append_range", "insert_range") and n.get("this") is not None and fmt(ir.unwrap(n["this"])) in (pl.positionals, "this->" + pl.positionals) \
                        and len([a for a in n.get("args", []) if not (isinstance(a, dict) and a.get("k") == "defarg")]) >= 2:
                    bulk = True
                if not bulk:
                    continue
                doms = []
                dom = cfg.dominators(fn)
                for b2 in dom.get(bid, ()):
                    c2 = fn.term(b2).get("cond")
                    if c2 is not None and b2 != bid:
                        doms.append(fmt(c2))
                counted = any(("%s.size()" % pl.positionals) in s0 and "allowed_positionals_" in s0 for s0 in doms)
                ctx.check(counted, "R12.3", fn, "range-append-under-limit@%s" % _rel(fn, e),
                          "the positional list grows by a whole range at line %s (%s) and no test in front of it compares %s.size() with allowed_positionals_: positionals collected before are not "
                          "counted, more than accepted are taken" % (e.get("ln"), fmt(n)[:60], pl.positionals), (fn, e.get("ln")), why_ok="dominated by a test over %s.size() and the accepted number" % pl.positionals)
        # the limit guard's other edge raises parsing_error
        guards = []
        for b in pl.body:
            t = fn.term(b)
            c = t.get("cond")
            if c is not None and "allowed_positionals_" in fmt(c) and lst in fmt(c) and b in pl.IN:
                guards.append(b)
        ctx.need("R12.3", "limit comparison in the loop", len(guards), 1)
        for b in guards:
            outs = dict((lab, to) for to, lab in fn.succs(b))
            raising = [lab for lab, to in outs.items() if fn.is_noreturn(to) and any(exc == C04.ALLOWED for _, exc, _ in C04.raise_nodes(fn, to))]
            ctx.check(len(raising) == 1, "R12.3", fn, "limit-rejects@%s" % _rel(fn, {"ln": fn.term(b).get("ln")}),
                      "when the accepted number of positionals is reached the parser does not raise parsing_error (the comparison at line %s has no raising edge): "
                      "surplus tokens are dropped or accepted silently" % fn.term(b).get("ln"), (fn, fn.term(b).get("ln")))
        for path, end in paths:
            ctx.check(has_append(path) <= 1, "R12.3", fn, "one-append-per-iteration:%s" % _path_sig(fn, path, end), "an iteration appends more than once", fn) if has_append(path) else None
        # appends outside the token loop (e.g. a tail loop copying the rest) obey the same limit discipline
        outside = 0
        for bid2, i2, e2 in fn.roots():
            if bid2 in pl.body or bid2 not in pl.IN:
                continue
            for n2 in walk(e2["expr"], into_sc=False):
                if n2.get("k") == "call" and short(n2.get("name") or "") in ("push_back", "emplace_back", "insert", "assign", "emplace") and fmt(n2.get("this")) == lst:
                    outside += 1
                    st = pl.before.get((bid2, i2)) or frozenset()
                    under = logic.entails(st, Not(lim_eq), lg.axioms)[0] is True or logic.entails(st, lim_lt, lg.axioms)[0] is True
                    # the comparison that guards it must have a raising other edge
                    rejecting = False
                    dom = cfg.dominators(fn)
                    for gb in dom.get(bid2, ()):
                        c = fn.term(gb).get("cond")
                        if c is not None and "allowed_positionals_" in fmt(c) and lst in fmt(c):
                            for to, lab in fn.succs(gb):
                                if fn.is_noreturn(to) and any(exc == C04.ALLOWED for _, exc, _ in C04.raise_nodes(fn, to)):
                                    rejecting = True
                    ctx.check(under and rejecting, "R12.3", fn, "append-outside-token-loop@%s" % _rel(fn, e2),
                              "the positional list is extended at line %s outside the classifying token loop and %s: surplus tokens are dropped or accepted silently"
                              % (n2.get("ln"), "without the comparison with allowed_positionals_" if not under else "the comparison with allowed_positionals_ has no edge raising parsing_error"),
                              (fn, n2.get("ln")))
        if not outside:
            ctx.ok("R12.3", fn, "no-append-outside-token-loop", "the positional list grows only inside the token loop", fn)

        # ---- R12.4
        data_fn = prog.fn(UI + "::data() const")
        ctx.anchor("R12.4", UI + "::data", data_fn is not None)
        for (bid, i, e, n, _) in pl.appends:
            if bid not in pl.IN:
                continue
            arg = n["args"][0] if n.get("args") else None
            src = lambda m, it=it: isinstance(m, dict) and m.get("k") == "call" and (m.get("name") or "") == UI + "::data" and logic.objpath(m.get("this")) in ("&(*%s)" % it, "(*%s)" % it, it)
            okc, why = valueflow.carrier(fn, arg, src)
            ctx.check(okc, "R12.4", fn, "append-verbatim@%s" % _rel(fn, e), "the positional stored at line %s is not the token's text verbatim: %s" % (e.get("ln"), why), (fn, e.get("ln")), why_ok=fmt(arg))
        if data_fn is not None:
            rets = [ir.unwrap(x["expr"].get("e")) for _, _, x in data_fn.roots() if x["expr"].get("k") == "return"]
            ctx.check(bool(rets) and all(fmt(r) == "arg_" for r in rets), "R12.4", data_fn, "data-returns-arg_", "user_input::data() returns %s, not the stored argument" % [fmt(r) for r in rets], data_fn)
        # arg_ written only by the constructor initialiser from the parameter
        w = []
        for f2 in prog.methods_of(UI):
            if not f2.has_cfg:
                continue
            for (fq, base, n2, b2, i2, how) in cg.field_writes(f2):
                if fq == UI + "::arg_" and base == "this":
                    w.append((f2, n2, how))
        okw = bool(w) and all(how == "init" and f2.kind == "ctor" for f2, n2, how in w)
        for f2, n2, how in w:
            if how == "init" and not f2.flags.get("implicit") and not f2.flags.get("copy_ctor") and not f2.flags.get("move_ctor"):
                okc, why = valueflow.carrier(f2, n2["expr"], lambda m: isinstance(m, dict) and m.get("k") == "ref" and m.get("decl", "").startswith("param:"))
                okw = okw and okc
        ctx.check(okw, "R12.4", UI, "arg_-is-the-constructor-argument", "user_input::arg_ is modified after construction or not initialised verbatim from the constructor argument", "-")

    # ---- R12.5
    g = prog.fn(NS + "arguments::get(int) const")
    if ctx.anchor("R12.5", NS + "arguments::get(int)", g is not None and g.has_cfg):
        fe2 = facts.FactsEngine(prog, cg)
        IN, before = fe2.analyse(g)
        p = g.params[0]["name"]
        adds = []
        ats = []
        raw = []
        for bid, i, e in g.roots():
            for n in walk(e["expr"], into_sc=False):
                if n.get("k") == "bin" and n["op"] in ("+=", "=") and fmt(n["l"]) == p:
                    adds.append((bid, i, e, n))
                if n.get("k") == "call" and short(n.get("name") or "") == "at" and "positionals" in fmt(n.get("this")):
                    ats.append((bid, i, e, n))
                if n.get("k") == "subscript" and "positionals" in fmt(n.get("base")):
                    raw.append((bid, i, e, n))
        # path-sensitive symbolic evaluation of the index handed to at(): a linear form over {i, size} per sign of i
        res = _index_by_sign(g, p, ats)
        if res is None or isinstance(res, str):
            ctx.broken("R12.5", g, "index-form", "cannot evaluate the index handed to at() as a linear form of the parameter and size(): %s" % (res or "unrecognised statement"), g)
        else:
            ctx.need("R12.5", "index normalisation in arguments::get(int)", len(res), 2)
            seen_signs = set()
            for sign, lin, ln in res:
                want = {"i": 1, "S": 1} if sign == "neg" else {"i": 1}
                seen_signs.add(sign)
                if sign == "any":
                    ctx.bad("R12.5", g, "index-by-sign:any@%s" % _show_lin(lin), "the index %s reaches at() without a test of its sign: negative and non-negative indices cannot both be right" % _show_lin(lin), (g, ln))
                else:
                    ctx.check(lin == want, "R12.5", g, "index-by-sign:%s" % sign,
                              "for a %s index the element accessed is at(%s) instead of at(%s)" % ("negative" if sign == "neg" else "non-negative", _show_lin(lin), _show_lin(want)), (g, ln),
                              why_ok="at(%s)" % _show_lin(lin))
            for sgn in ("neg", "nonneg"):
                if "any" not in seen_signs:
                    ctx.check(sgn in seen_signs, "R12.5", g, "sign-reaches-access:" + sgn, "no path with a %s index reaches the access" % ("negative" if sgn == "neg" else "non-negative"), g)
        ctx.check(len(ats) >= 1 and not raw, "R12.5", g, "range-checked-access", "positionals are accessed with unchecked operator[]: an index outside [-n, n) reads out of bounds instead of raising", g)

    # the subscript spelling is the same index space: it hands a SIGNED index on to get() unchanged (or normalises itself)
    subs = [f for f in prog.methods_of(NS + "arguments") if f.op == "[]" and f.has_cfg and len(f.params) == 1]
    ctx.need("R12.5", "arguments::operator[]", len(subs), 1)
    for f in subs:
        p0 = f.params[0]
        ctx.check(not p0.get("u"), "R12.5", f, "subscript-index-is-signed", "operator[] takes its index as `%s`: index -k cannot be expressed, `args[-1]` becomes a huge position and raises out_of_range" % p0.get("type"), f,
                  why_ok=p0.get("type"))
        rets = [ir.unwrap(e["expr"].get("e")) for _, _, e in f.roots() if e["expr"].get("k") == "return"]
        deleg = len(rets) == 1 and isinstance(rets[0], dict) and rets[0].get("k") == "call" and short(rets[0].get("name") or "") == "get" \
            and [fmt(ir.unwrap(a)) for a in rets[0].get("args", [])] == [p0["name"]] and len(list(f.roots())) == 1
        if deleg:
            ctx.ok("R12.5", f, "subscript-normalises", "return get(%s)" % p0["name"], f)
        else:
            ats2 = [(bid, i, e, n) for bid, i, e in f.roots() for n in walk(e["expr"], into_sc=False)
                    if n.get("k") == "call" and short(n.get("name") or "") == "at" and "positionals" in fmt(n.get("this"))]
            res2 = _index_by_sign(f, p0["name"], ats2)
            if res2 is None or isinstance(res2, str) or not res2:
                ctx.broken("R12.5", f, "subscript-normalises", "operator[] neither returns get(%s) nor accesses positionals through at() in an evaluable form (%s)" % (p0["name"], res2 or "no at() call"), f)
            else:
                good = all((sign == "neg" and lin == {"i": 1, "S": 1}) or (sign == "nonneg" and lin == {"i": 1}) for sign, lin, ln in res2) and {sg for sg, _, _ in res2} == {"neg", "nonneg"}
                ctx.check(good, "R12.5", f, "subscript-normalises", "operator[] accesses %s: a negative index is not counted from the end (only get() does that)"
                          % ", ".join("at(%s) for a %s index" % (_show_lin(lin), {"neg": "negative", "nonneg": "non-negative", "any": "any"}[sign]) for sign, lin, ln in res2), f)
    # ---- R12.10: one way in for raw strings. "Everything behind `--` is positional whatever it looks like" lives in the
    # argv entry point (tokens behind `--` are built verbatim, without the syntax check); any further parse overload that
    # turns strings into tokens itself skips that rule
    ctx.rule("R12.10", "every parse() overload of parser other than the two known ones hands its raw strings to parse(argc, argv) (no second place where strings become tokens)")
    from .common import PARSE_ARGV
    entries = [f for f in prog.methods_of(NS + "parser") if f.name == "parse" and f.has_cfg and not f.flags.get("instantiation")]
    ctx.need("R12.10", "parse overloads of parser", len(entries), 2)
    argv_fn = prog.fn(PARSE_ARGV)
    for f in entries:
        if f.id in (PARSE_ARGV, PARSE_VEC):
            ctx.ok("R12.10", f, "entry-point:" + _psig(f), "known entry point", f)
            continue
        calls = [n for _, _, e in f.roots() for n in elem_calls(e)]
        to_argv = any(n.get("callee") == PARSE_ARGV for n in calls)
        # a template overload that copies an iterator range into the token vector and hands it to the vector overload: whether strings
        # become tokens there depends on which iterator types the overload accepts - decided by the type-level witnesses below
        pnames = {p0["name"] for p0 in f.params}
        cons = [n for _, _, e in f.all_elems() if e.get("expr") is not None for n in walk(e["expr"]) if n.get("k") == "construct" and "user_input" in (n.get("name") or n.get("type") or "")]
        if f.is_pattern and cons and all("vector" in (n.get("name") or n.get("type") or "") and len(n.get("args", [])) == 2
                                         and all(isinstance(ir.unwrap(a), dict) and ir.unwrap(a).get("k") == "ref" and ir.unwrap(a)["decl"].split(":", 1)[-1] in pnames for a in n["args"]) for n in cons) \
                and any(short(n.get("name") or "") == "parse" for n in calls):
            ctx.ok("R12.10", f, "entry-point:" + _psig(f), "copies the range [%s) into the token vector and delegates to parse(vector): element types admitted are decided by witness/tl_C12.cpp" % ", ".join(sorted(pnames)), f)
            continue
        builds = [fmt(n)[:60] for _, _, e in f.all_elems() if e.get("expr") is not None for n in walk(e["expr"]) if n.get("k") == "construct" and "user_input" in (n.get("name") or n.get("type") or "")]
        ctx.check(to_argv and not builds, "R12.10", f, "entry-point:" + _psig(f),
                  "parse(%s) %s: tokens behind `--` go through the syntax check there, so `prog -- -` or `-- ---x` raises instead of yielding the positional%s"
                  % (", ".join(p0.get("type") or "?" for p0 in f.params), "builds its tokens itself (%s)" % builds[0] if builds else "does not delegate to parse(argc, argv)",
                     " - and for a `char**` / `const char*[]` argument this overload is the better match, so existing calls are rerouted" if f.is_pattern else ""), f)
    from sa import witness as _wit
    from sa.extract import VERIF as _VERIF
    import os as _os
    _wit.apply(ctx, lambda t: "R12.10", _os.path.join(_VERIF, "witness", "tl_C12.cpp"), broken_tags=("w9",))
    if ctx.tier == "thorough":
        _wit.apply(ctx, lambda t: "R12.10", _os.path.join(_VERIF, "witness", "tl_C12.cpp"), compiler="g++", label="g++", broken_tags=("w9",))
        _wit.apply(ctx, lambda t: "R12.10", _os.path.join(_VERIF, "witness", "tl_C12.cpp"), std="gnu++14", label="gnu++14", broken_tags=("w9",))
    # ---- R12.11: nothing on the options path reads an object it has just moved from
    ctx.rule("R12.11", "no function of the options code reads a local / parameter after handing it to std::move (e.g. asking a moved-from token whether it was `--`)")
    from .common import rule_no_use_after_move
    rule_no_use_after_move(ctx, "R12.11", lambda f: "/options/" in f.file, "a moved-from token has an empty text: it is never `--`, so what follows the separator is not taken verbatim", minimum=40)
    # ---- R12.12: a command line within the accepted count is parsed - not refused by a standard-library precondition
    # (reserving room for `accepted count` positionals throws std::length_error for a huge finite count before a token is read)
    ctx.rule("R12.12", "every std thrower (reserve / resize / substr / at ...) reachable from parse() is discharged in its calling contexts: whether parsing succeeds depends on the number of positionals given, not on the size of the accepted number")
    ents = [g for g in (prog.fn(PARSE_VEC), prog.fn(PARSE_ARGV)) if g is not None and g.has_cfg]
    if ctx.anchor("R12.12", "parser::parse", bool(ents)):
        nthr, nctx = C04.std_thrower_obligations(ctx, "R12.12", ents, "parse", callgraph(ctx))
        ctx.note("R12.12: %d std thrower site(s) in %d calling context(s) from parse()" % (nthr, nctx))
        ctx.need("R12.12", "calling contexts walked from parse()", nctx, 20)
    # ---- R12.14: what becomes a positional and what an option takes
    ctx.rule("R12.14", "a value token is a positional unless an option takes it: an option takes the FOLLOWING token only when it carries no `=value` itself (R02.3), and the syntax check refuses no well-formed token (R04.4: in greedy mode such a token is a positional)")
    if ctx.prop == "C12" and not getattr(ctx, "_sharing", False):
        from .common import share
        share(ctx, "C02", ("R02.3",), "R12.14", "value-selection obligations shared with C02", 2)
        ctx.rule("R12.17", "the consistency check at the start of parse() refuses nothing but duplicate letters (R13.4 re-evaluated): every combination of greedy mode and accepted count the setters take is parsed")
        share(ctx, "C13", ("R13.4",), "R12.17", "consistency-check obligations shared with C13", 6)
        share(ctx, "C04", ("R04.4",), "R12.14", "token-syntax obligations shared with C04", 1)
    ctx.rule("R12.16", "parse(argc, argv) passes no element of argv over (R01.14 re-evaluated): an empty or odd-looking word behind `--` is a positional like any other")
    from .common import rule_every_argument_tokenised
    rule_every_argument_tokenised(ctx, "R12.16")
    # ---- R12.15: an index outside the positionals is an exception the caller can catch
    ctx.rule("R12.15", "no accessor of the parse result is declared noexcept and reaches a throwing access (`at`) or a raise: `args[n]` beyond the last positional raises std::out_of_range / "
                       "the library's error, it does not end the process")
    from .common import rule_noexcept
    rule_noexcept(ctx, "R12.15", lambda f: f.file.endswith("options/arguments.hpp"), "an index that is out of range has to raise", minimum=5)
    # ---- R12.13: the settings travel with the parser
    ctx.rule("R12.13", "the hand-written move operations of parser take over every data member (accepted count, greedy switch, positional name, groups ...): a parser built in a factory and moved into place accepts the same positionals")
    from .common import rule_special_members_complete
    rule_special_members_complete(ctx, "R12.13", lambda cn: cn == NS + "parser", "the moved-to parser keeps its own old setting", minimum=2)
    # ---- R12.9: the accepted count is stored as wide as it is given
    ctx.rule("R12.9", "parser's integral settings are stored at least as wide as the setter's parameter (an accepted count of 2^32 or more is not reduced modulo 2^32)")
    from .common import rule_no_narrowing
    rule_no_narrowing(ctx, "R12.9", NS + "parser", "a larger accepted count is reduced modulo 2^width, `accept_positionals(1ull << 32)` accepts nothing", minimum=1)
    # ---- R12.7: the accepted count and the greedy switch are independent settings
    ctx.rule("R12.7", "who-may-write: the accepted count is set only by accept_positionals(), the greedy switch only by greedy_postionals() (neither setting changes the other)")
    SETTERS = {NS + "parser::allowed_positionals_": "accept_positionals", NS + "parser::greedy_positionals_": "greedy_postionals"}
    pcls = prog.cls(NS + "parser")
    have = {fl["qual"] for fl in pcls["fields"]} if pcls else set()
    if ctx.anchor("R12.7", NS + "parser", pcls is not None and set(SETTERS) <= have):
        nset = 0
        for f in prog.methods_of(NS + "parser"):
            if not f.has_cfg:
                continue
            # direct writes and writes through calls of the *other* setter
            reach = {f.id} | {t for t in cg.reachable([f.id]) if t.startswith(NS + "parser::")}
            for fq, setter in SETTERS.items():
                writers = [g for g in (prog.fn(t) for t in reach) if g is not None and g.has_cfg and any(w[0] == fq and w[1] == "this" for w in cg.field_writes(g))]
                if not writers:
                    continue
                if f.name == setter:
                    nset += 1
                    ctx.ok("R12.7", f, "setter:" + short(fq), "%s writes %s" % (f.name, short(fq)), f)
                    continue
                if f.kind in ("ctor", "dtor") or f.flags.get("move_assign") or f.flags.get("copy_assign") or f.name in ("swap",):
                    continue
                # an alias that only forwards its own parameter to the setter (a second spelling of the same setting)
                stm = [e for _, _, e in f.roots() if e["expr"].get("k") != "return" or e["expr"].get("e") is not None]
                if len(stm) == 1 and len(f.params) == 1:
                    c0 = ir.unwrap(stm[0]["expr"].get("e") if stm[0]["expr"].get("k") == "return" else stm[0]["expr"])
                    if isinstance(c0, dict) and c0.get("k") == "call" and short(c0.get("name") or "") == setter and [fmt(ir.unwrap(a)) for a in c0.get("args", [])] == [f.params[0]["name"]] \
                            and (c0.get("this") is None or fmt(ir.unwrap(c0["this"])) in ("this", "(*this)")):
                        ctx.ok("R12.7", f, "setter-alias:" + short(fq), "%s(%s) forwards its parameter to %s()" % (f.name, f.params[0]["name"], setter), f)
                        continue
                ctx.bad("R12.7", f, "foreign-writer:%s" % short(fq),
                        "%s changes %s (through %s): %s, so a parser configured with one setting silently gets another accepted count / mode"
                        % (short(f.qual), short(fq), ", ".join(sorted(short(g.qual) for g in writers)), "only %s() may set it" % setter), f)
        ctx.need("R12.7", "setters of the positional settings", nset, 2)
    # ---- R12.8: a moved parser carries every setting of its source (move construction and move assignment transfer every data member)
    ctx.rule("R12.8", "parser's move operations transfer every data member (accepted count and greedy switch included)")
    if pcls is not None:
        sp = pcls.get("special", {})
        pfields = [fl for fl in pcls["fields"] if not fl.get("static")]
        for op in ("move_ctor", "move_assign"):
            d0 = sp.get(op)
            if d0 is None or d0.get("deleted"):
                continue
            if not d0.get("user_provided"):
                ctx.ok("R12.8", NS + "parser", op + "-member-wise", "compiler-generated (member-wise)", "%s:%d" % (pcls["file"], pcls["line"]))
                continue
            mf = prog.fn(d0["id"])
            if mf is None or not mf.has_cfg:
                ctx.broken("R12.8", NS + "parser", op + "-transfers", "user-provided %s has no analysable body" % op, "-")
                continue
            src = mf.params[0]["name"] if mf.params else "other"
            # members written from the source's member of the same name: directly, in the initialiser list, by swap with a
            # temporary built from the source (A0 has inlined helpers the tables do not know)
            taken = set()
            tmp_from_src = set()
            for bid, i, e in mf.all_elems():
                x = e.get("expr")
                if x is None:
                    continue
                if e["kind"] == "init" and e.get("field") and re.search(r"\b%s\.%s\b" % (re.escape(src), re.escape(short(e["field"]))), fmt(x)):
                    taken.add(short(e["field"]))
                if e["kind"] == "init" and (e.get("delegating") or e.get("base")) and re.search(r"\bmove\(%s\)" % re.escape(src), fmt(x)):
                    taken |= {fl["name"] for fl in pfields}
                xs = ir.unwrap(x)
                if isinstance(xs, dict) and xs.get("k") == "decl":
                    for v in xs.get("vars", []):
                        if "parser" in (v.get("type") or "") and v.get("init") is not None and re.search(r"\bmove\(%s\)" % re.escape(src), fmt(v["init"])):
                            tmp_from_src.add(v["name"])
                for n in walk(x, into_sc=False):
                    if n.get("k") == "bin" and n["op"] == "=":
                        l, r = fmt(ir.unwrap(n["l"])), fmt(ir.unwrap(n["r"]))
                        for fl in pfields:
                            if l == fl["name"] and re.search(r"\b(%s)\.%s\b" % ("|".join(map(re.escape, [src] + sorted(tmp_from_src))), re.escape(fl["name"])), r):
                                taken.add(fl["name"])
                    if n.get("k") == "call" and (n.get("op") == "=" ) and n.get("this") is not None and n.get("args"):
                        l, r = fmt(ir.unwrap(n["this"])), fmt(ir.unwrap(n["args"][0]))
                        for fl in pfields:
                            if l == fl["name"] and re.search(r"\b(%s)\.%s\b" % ("|".join(map(re.escape, [src] + sorted(tmp_from_src))), re.escape(fl["name"])), r):
                                taken.add(fl["name"])
                    if n.get("k") == "call" and short(n.get("name") or "") == "swap" and len(n.get("args", [])) == 2:
                        a, b = fmt(ir.unwrap(n["args"][0])), fmt(ir.unwrap(n["args"][1]))
                        for fl in pfields:
                            for own, oth in ((a, b), (b, a)):
                                if own == fl["name"] and re.fullmatch(r"(%s)\.%s" % ("|".join(map(re.escape, [src] + sorted(tmp_from_src))), re.escape(fl["name"])), oth):
                                    taken.add(fl["name"])
            for fl in pfields:
                ctx.check(fl["name"] in taken, "R12.8", mf, "%s-transfers:%s" % (op, fl["name"]),
                          "the %s of parser does not take `%s` from the source: the target keeps its own value, so a configuration that reaches its object by a move parses with a different "
                          "setting than it was given" % (op.replace("_", " "), fl["name"]), mf)
    # ---- R12.6
    pa = prog.fn(PARSE_ARGV)
    if ctx.anchor("R12.6", PARSE_ARGV, pa is not None and pa.has_cfg):
        loops = cfg.loop_blocks(pa)
        found = 0
        for h, body in loops:
            for b in body:
                for e in pa.elems(b):
                    for n in elem_calls(e):
                        tg = cg.targets_of(n)
                        ctor = [t for t in tg if t.startswith(UI + "::user_input(")]
                        direct = n.get("k") == "construct" and (n.get("ctor") or "").startswith(UI + "::user_input(")
                        if not ctor and not direct:
                            continue
                        found += 1
                        # does that constructor have a reachable raise?
                        can_raise = False
                        for cid in (ctor or [n.get("ctor")]):
                            c = prog.fn(cid)
                            if c is not None and c.has_cfg and any(c.is_noreturn(bb) for bb in c.reachable_blocks()):
                                can_raise = True
                        # unconditional for every element = the call is in a block that dominates the latch
                        dom = cfg.dominators(pa)
                        latch = [x for x in body if any(to == h for to, _ in pa.succs(x))]
                        uncond = all(b in dom.get(l, ()) for l in latch)
                        # ... unless the loop is LEFT as soon as the token just built is `--` (the rest is handled elsewhere)
                        leaves_on_dd = False
                        is_dd_call = lambda c: ir.unwrap(c).get("k") == "call" and short(ir.unwrap(c).get("name") or "") == "is_double_dash"
                        for xb in body:
                            for to, lab in pa.succs(xb):
                                if to not in body and xb != h:
                                    # the exit edge itself is the `--` edge, or it is only reachable through one
                                    c0 = pa.term(xb).get("cond")
                                    if c0 is not None:
                                        c1, neg = cfg.strip_not(c0)
                                        if is_dd_call(c1) and lab == ("false" if neg else "true"):
                                            leaves_on_dd = True
                                    if cfg.dominated_by_edge(pa, xb, is_dd_call):
                                        leaves_on_dd = True
                        if leaves_on_dd:
                            uncond = False
                        ctx.check(not (can_raise and uncond), "R12.6", pa, "eager-token-validation",
                                  "parse(argc, argv) constructs a user_input (whose constructor rejects malformed dash tokens) for every argv[i] "
                                  "before the token loop runs: tokens after `--` such as `-`, `---x`, `-=x` are rejected instead of becoming positionals",
                                  (pa, n.get("ln")))
        ctx.need("R12.6", "token construction sites in parse(argc, argv)", found, 1)
        # the skip condition: raising construction only while no `--` has been seen; the flag is set only on a `--` token
        fe3 = facts.FactsEngine(prog, cg)
        IN3, before3 = fe3.analyse(pa)
        flags = set()
        for bid, i, e in pa.roots():
            for eff, lv, n in tree_effects(e["expr"], into_sc=False):
                if eff == "write" and lv is not None:
                    kind, key, _ = lvalue_root(lv)
                    if kind == "local" and (ir.unwrap(lv).get("type") or "") in ("bool", "_Bool") and n.get("k") == "bin":
                        flags.add(key)
                        st = before3.get((bid, i)) or frozenset()
                        dd = [a for f0 in st for a in logic.atoms_of(f0) if a.endswith('.arg_ == "--")')]
                        okdd = literal_value(n["r"]) == ("bool", True) and any(logic.entails(st, ("a", a), fe3.lg.axioms)[0] is True for a in dd)
                        ctx.check(okdd, "R12.6", pa, "raw-mode-only-after-double-dash", "the flag `%s` that switches token validation off is set at line %s although the token just read is not known to be `--`"
                                  % (key, e.get("ln")), (pa, e.get("ln")))
        for h, body in loops:
            for b in body:
                for i, e in enumerate(pa.elems(b)):
                    for n in elem_calls(e):
                        tg = cg.targets_of(n)
                        raising = False
                        for cid in [t for t in tg if t.startswith(UI + "::user_input(")] + ([n.get("ctor")] if n.get("k") == "construct" and (n.get("ctor") or "").startswith(UI + "::user_input(") else []):
                            c = prog.fn(cid)
                            if c is not None and c.has_cfg and any(c.is_noreturn(bb) for bb in c.reachable_blocks()):
                                raising = True
                        if raising and flags:
                            st = before3.get((b, i)) or frozenset()
                            ok = any(logic.entails(st, Not(("a", fl)), fe3.lg.axioms)[0] is True for fl in flags)
                            ctx.check(ok, "R12.6", pa, "validation-only-before-double-dash", "a syntax-checking token construction at line %s can run after `--` was seen" % n.get("ln"), (pa, n.get("ln")))
    ctx.assume("the arithmetic of 'at most n' beyond the comparison's presence and position is not decided")


def _rel(f, e):
    return "+%d" % ((e.get("ln") or f.line) - f.line)


def _path_sig(fn, path, end):
    """position-free signature of an iteration path: the sequence of branch decisions"""
    sig = []
    for a, b in zip(path, path[1:]):
        t = fn.term(a)
        if t.get("cond") is not None and len(fn.succs(a)) == 2:
            for to, lab in fn.succs(a):
                if to == b:
                    sig.append(("+" if lab == "true" else "-") + fmt(t["cond"])[:28])
    return "/".join(sig)[:160] + ">" + end


def _is_limit_raise(fn, b, lst):
    preds = fn.preds().get(b, [])
    for p, lab in preds:
        c = fn.term(p).get("cond")
        if c is not None and "allowed_positionals_" in fmt(c) and lst in fmt(c):
            return True
    return False


def _show_lin(lin):
    parts = []
    for k in ("i", "S"):
        c = lin.get(k, 0)
        if c:
            parts.append(("%s" if c == 1 else "%d*%%s" % c) % {"i": "i", "S": "size()"}[k])
    if lin.get("1", 0) or not parts:
        parts.append(str(lin.get("1", 0)))
    return " + ".join(parts)


def _psig(f):
    return "(" + ",".join((p0.get("type") or "?").replace(" ", "") for p0 in f.params) + ")"


def _index_by_sign(g, p, ats):
    """[(sign, linear form, line)] of the argument of every at() call over all paths of the loop-free function g;
    sign in neg/nonneg/any says what the path knows about the parameter p. str = reason it cannot be evaluated."""
    if cfg.loop_blocks(g):
        return "the function has a loop"

    def lin_add(a, b, k=1):
        out = dict(a)
        for key, v in b.items():
            out[key] = out.get(key, 0) + k * v
        return {key: v for key, v in out.items() if v}

    def meet(s1, s2):
        if s1 == "any":
            return s2
        if s2 == "any" or s1 == s2:
            return s1
        return None  # contradictory

    def ev(n, env):
        """alternatives [(sign, lin)] or None"""
        n = ir.unwrap(n)
        if not isinstance(n, dict):
            return None
        k = n.get("k")
        if k == "lit" and n.get("t") == "int":
            return [("any", {"1": n["v"]} if n["v"] else {})]
        if k == "cast":
            return ev(n["e"], env)
        if k == "ref":
            d = n.get("decl", "")
            nm = d.split(":", 1)[1] if ":" in d else d
            return env.get(nm)
        if k == "call" and short(n.get("name") or "") in ("size", "length") and "positionals" in fmt(n.get("this")):
            return [("any", {"S": 1})]
        if k == "un" and n["op"] == "-":
            a = ev(n["e"], env)
            return None if a is None else [(sg, lin_add({}, l, -1)) for sg, l in a]
        if k == "bin" and n["op"] in ("+", "-"):
            a, b = ev(n["l"], env), ev(n["r"], env)
            if a is None or b is None:
                return None
            out = []
            for s1, l1 in a:
                for s2, l2 in b:
                    m = meet(s1, s2)
                    if m is not None:
                        out.append((m, lin_add(l1, l2, 1 if n["op"] == "+" else -1)))
            return out
        if k == "cond":
            st = sign_test(n["c"], env)
            if st is None:
                return None
            t, f = ev(n["t"], env), ev(n["f"], env)
            if t is None or f is None:
                return None
            out = []
            for (sg, arm) in ((st, t), ({"neg": "nonneg", "nonneg": "neg"}[st], f)):
                for s1, l1 in arm:
                    m = meet(sg, s1)
                    if m is not None:
                        out.append((m, l1))
            return out
        return None

    def sign_test(c, env):
        """'neg' if c is true exactly for a negative parameter, 'nonneg' if exactly for a non-negative one, else None"""
        c = ir.unwrap(c)
        u = ir.as_unop(c)
        if u and u[0] == "!":
            r = sign_test(u[1], env)
            return None if r is None else {"neg": "nonneg", "nonneg": "neg"}[r]
        bo = ir.as_binop(c)
        if not bo:
            return None
        op, l, r = bo
        a, b = ev(l, env), ev(r, env)
        if a is None or b is None or len(a) != 1 or len(b) != 1:
            return None
        d = lin_add(a[0][1], b[0][1], -1)  # l - r
        flip = False
        if d.get("i", 0) == -1:
            d = lin_add({}, d, -1)
            flip = True
        if d.get("i", 0) != 1 or d.get("S", 0):
            return None
        c0 = d.get("1", 0)
        if flip:
            op = {"<": ">", ">": "<", "<=": ">=", ">=": "<="}.get(op)
        # i + c0 op 0
        if (op == "<" and c0 == 0) or (op == "<=" and c0 == 1):
            return "neg"
        if (op == ">=" and c0 == 0) or (op == ">" and c0 == 1):
            return "nonneg"
        return None

    at_ids = {id(a[3]): a for a in ats}
    results = []
    err = []

    def run(b, sign, env, depth=0):
        if depth > 64:
            err.append("path too long")
            return
        env = dict(env)
        for e in g.elems(b):
            x = e.get("expr")
            if x is None:
                continue
            for n in walk(x, into_sc=False):
                if id(n) in at_ids:
                    args = n.get("args", [])
                    v = ev(args[0], env) if args else None
                    if v is None:
                        err.append("index expression %s" % fmt(args[0] if args else n))
                        continue
                    for sg, l in v:
                        m = meet(sign, sg)
                        if m is not None:
                            results.append((m, l, n.get("ln")))
            xs = ir.unwrap(x)
            if isinstance(xs, dict) and xs.get("k") == "decl":
                for v in xs.get("vars", []):
                    if v.get("init") is not None and re.search(r"int|size_t|long|ptrdiff_t|size_type|difference_type|short", v.get("type") or ""):
                        env[v["name"]] = ev(v["init"], env)
            for eff, lv, n in tree_effects(x, into_sc=False):
                if eff in ("write", "maybe_write") and lv is not None:
                    kind, key, _ = lvalue_root(lv)
                    if kind in ("local", "param") and key in env:
                        if n.get("k") == "bin" and n["op"] in ("=", "+=", "-="):
                            if n["op"] == "=":
                                env[key] = ev(n["r"], env)
                            else:
                                env[key] = ev({"k": "bin", "op": n["op"][0], "l": n["l"], "r": n["r"]}, env)
                        else:
                            env[key] = None
        if g.is_noreturn(b):
            return
        ss = g.succs(b)
        t = g.term(b)
        if len(ss) == 2 and t.get("cond") is not None and t.get("kind") not in ("cond",):
            st = sign_test(t["cond"], env)
            for to, lab in ss:
                if st is None:
                    run(to, sign, env, depth + 1)
                else:
                    sg = st if lab == "true" else {"neg": "nonneg", "nonneg": "neg"}[st]
                    m = meet(sign, sg)
                    if m is not None:
                        run(to, m, env, depth + 1)
        elif len(ss) == 2 and t.get("kind") == "cond":
            # the arms of ?: are evaluated inside the expression (ev handles the node); follow one arm only to reach the join
            run(ss[0][0], sign, env, depth + 1)
        else:
            for to, lab in ss:
                run(to, sign, env, depth + 1)

    run(g.entry, "any", {p: [("any", {"i": 1})]})
    if err:
        return "; ".join(sorted(set(err)))
    # one entry per (sign, form, line)
    uniq = []
    for r in results:
        if r not in uniq:
            uniq.append(r)
    return uniq


def _head_reachable_without(fn, head, pred):
    """can the loop head be reached from the entry without passing an element satisfying pred?"""
    seen = set()
    st = [fn.entry]
    while st:
        b = st.pop()
        if b in seen:
            continue
        seen.add(b)
        if b == head:
            return True
        if any(pred(e) for e in fn.elems(b)):
            continue
        if fn.is_noreturn(b):
            continue
        for to, _ in fn.succs(b):
            st.append(to)
    return False
