"""Shared recogniser for the token loop of parser::parse (used by C01, C02, C12)."""
from sa import ir, cfg, logic, facts
from sa.ir import fmt, walk, short
from sa.callgraph import tree_effects, lvalue_root
from .common import NS, PARSE_VEC, callgraph, elem_calls, literal_value

POSITIONAL_APPENDS = ("push_back", "emplace_back")


class ParseLoop:
    def __init__(self, ctx, rule):
        self.ok = False
        prog = ctx.prog
        self.fn = prog.fn(PARSE_VEC)
        if not ctx.anchor(rule, PARSE_VEC, self.fn is not None and self.fn.has_cfg):
            return
        fn = self.fn
        self.cg = callgraph(ctx)
        self.fe = facts.FactsEngine(prog, self.cg)
        self.IN, self.before = self.fe.analyse(fn)
        loops = cfg.loop_blocks(fn)
        # the token loop: the loop whose head tests an iterator over the argument vector parameter
        self.argp = fn.params[0]["name"] if fn.params else "args"
        cand = []
        for h, body in loops:
            t = fn.term(h)
            c = fmt(t.get("cond")) if t.get("cond") is not None else ""
            bo = ir.as_binop(ir.unwrap(t.get("cond"))) if t.get("cond") is not None else None
            if bo:
                # `it != end` with `const auto end = args.end()`: a local defined once stands for its initialiser
                from sa.valueflow import local_defs
                for side in (bo[1], bo[2]):
                    su = ir.unwrap(side)
                    if isinstance(su, dict) and su.get("k") == "ref" and su.get("decl", "").startswith("local:"):
                        defs = local_defs(fn, su["decl"][6:])
                        if len(defs) == 1 and defs[0][0] == "init" and defs[0][1] is not None:
                            c += " ~ " + fmt(defs[0][1])
            if self.argp in c and "end()" in c:
                cand.append((h, body))
        if len(cand) > 1:
            # the token loop is the one that classifies tokens (calls try_parse_* / matches); others are checked as "outside"
            def classifies(body):
                for b in body:
                    for e in fn.elems(b):
                        for n in elem_calls(e):
                            if short(n.get("name") or "").startswith("try_parse"):
                                return True
                return False
            cand = [c for c in cand if classifies(c[1])]
        if len(cand) != 1:
            ctx.broken(rule, fn, "token-loop", "expected exactly one classifying loop over `%s` in parse(), found %d" % (self.argp, len(cand)), fn)
            return
        self.head, self.body = cand[0]
        # the iterator variable
        self.it = None
        bo = ir.as_binop(ir.unwrap(fn.term(self.head)["cond"]))
        if bo:
            for side in (bo[1], bo[2]):
                s = ir.unwrap(side)
                if isinstance(s, dict) and s.get("k") == "ref" and s["decl"].startswith("local:"):
                    from sa.valueflow import local_defs
                    defs = local_defs(fn, s["decl"][6:])
                    if len(defs) == 1 and defs[0][0] == "init" and defs[0][1] is not None and "end()" in fmt(defs[0][1]):
                        continue  # the cached end iterator, not the loop variable
                    self.it = s["decl"][6:]
        if not self.it:
            ctx.broken(rule, fn, "token-loop", "cannot identify the loop iterator", fn)
            return
        # the positional list: a local vector<string> handed to the arguments constructor / appended with it->data()
        self.positionals = None
        self.positionals_member = None
        self.appends = []  # (bid, idx, elem, call node)
        for bid in self.body:
            for i, e in enumerate(fn.elems(bid)):
                if e.get("expr") is None:
                    continue
                for n in walk(e["expr"], into_sc=False):
                    if n.get("k") == "call" and short(n.get("name") or "") in POSITIONAL_APPENDS + ("insert", "emplace") and n.get("this") is not None:
                        recv = ir.unwrap(n["this"])
                        if isinstance(recv, dict) and recv.get("k") == "ref" and recv["decl"].startswith("local:") and "vector" in (recv.get("type") or ""):
                            self.appends.append((bid, i, e, n, recv["decl"][6:]))
                        elif isinstance(recv, dict) and recv.get("k") == "member" and not recv.get("method") and ir.unwrap(recv.get("base")).get("k") == "this" and "vector<std::string>" in (recv.get("type") or "").replace("basic_string<char>", "string"):
                            # the list kept as a member of the parser (must then be emptied before the loop: positionals_member)
                            self.appends.append((bid, i, e, n, short(recv["field"])))
                            self.positionals_member = recv["field"]
        names = {a[4] for a in self.appends}
        if len(names) != 1:
            ctx.broken(rule, fn, "positional-list", "expected one local list receiving positionals in the loop, found %s" % sorted(names), fn)
            return
        self.positionals = names.pop()
        # the spelling of the list inside canonical atoms
        self.positionals_atom = ("this." + self.positionals) if self.positionals_member else self.positionals
        # the mode flag: a bool local assigned in the loop and tested first
        self.mode = None
        self.mode_writes = []
        for bid in self.body:
            for i, e in enumerate(fn.elems(bid)):
                if e.get("expr") is None:
                    continue
                for eff, lv, n in tree_effects(e["expr"], into_sc=False):
                    if eff == "write" and lv is not None:
                        kind, key, _ = lvalue_root(lv)
                        if kind == "local" and key not in (self.it,) and n.get("k") == "bin" and n["op"] == "=":
                            t = (ir.unwrap(lv).get("type") or "")
                            if t in ("bool", "_Bool"):
                                self.mode_writes.append((bid, i, e, n, key))
        modes = {w[4] for w in self.mode_writes}
        if len(modes) < 1:
            ctx.broken(rule, fn, "mode-flag", "no boolean mode flag is assigned inside the token loop", fn)
            return
        self.modes = sorted(modes)
        self.mode = self.modes[0]
        self.ok = True

    # ---- paths through one iteration
    def body_entry(self):
        for to, lab in self.fn.succs(self.head):
            if lab == "true":
                return to
        return None

    def iteration_paths(self, limit=5000):
        """acyclic block paths from the body entry to (a) the loop latch/head again ('next'), (b) a noreturn block ('raise'),
        (c) a block outside the loop ('leave'). Only feasible blocks (must-facts pruning)."""
        fn = self.fn
        out = []
        start = self.body_entry()
        st = [(start, (start,))]
        while st:
            b, path = st.pop()
            if b not in self.IN:
                continue
            if fn.is_noreturn(b):
                out.append((list(path), "raise"))
                continue
            for to, lab in fn.succs(b):
                if to == self.head:
                    out.append((list(path), "next"))
                elif to not in self.body:
                    if to in self.IN:
                        out.append((list(path) + [to], "raise" if fn.is_noreturn(to) else "leave"))
                elif to in path:
                    continue
                else:
                    if to in self.IN:
                        st.append((to, path + (to,)))
            if len(out) > limit:
                raise RuntimeError("too many paths")
        return out

    def edge_label(self, a, b):
        for to, lab in self.fn.succs(a):
            if to == b:
                return lab
        return None
