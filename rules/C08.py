"""C08 - format substitutes placeholders positionally, verbatim, with exact arity.

R08.1 (A5/A6 taint) the subject of every regex search / iterator / find-replace in formatter::str derives from format_ only;
      nothing derived from args_ or from the partially built result is ever searched or replaced (no rescan possible).
R08.2 (A8) the placeholder regex literal denotes exactly { "{}" }.
R08.3 (A1/A2) both arity errors guard the result: inside the argument loop the 'more arguments' raise sits on the
      `placeholder == end` edge; after the loop the 'less arguments' raise on `placeholder != end`; `return result` is only
      reached through their false edges.
R08.4 (A6/A1) operator% renders its argument once through a FRESH local stream and appends the text at the end of args_;
      args(a, rest...) applies % to a before recursing on the rest; the loop appends the format slice up to the match,
      resumes at position + length, then appends the argument text; the tail of the format is appended after the loop.
R08.5 (A1) make_exception streams its first argument before recursing; except::exception's message is make_string of the
      forwarded arguments.
"""
import re

from sa import ir, cfg, logic, facts, regexlang
from sa.ir import fmt, walk, short
from sa.logic import Not
from sa.callgraph import tree_effects, lvalue_root
from .common import callgraph, elem_calls
from . import C04

FMT = "nitro::detail::formatter"


def run(ctx):
    prog = ctx.prog
    cg = callgraph(ctx)
    for r, d in (("R08.1", "searches run over the format string only"), ("R08.2", "placeholder pattern is exactly {}"), ("R08.3", "both arity errors guard the result"),
                 ("R08.4", "arguments rendered once, stored in order, inserted verbatim at the match"), ("R08.5", "exception message = concatenation in argument order")):
        ctx.rule(r, d)
    strs = [f for f in prog.fns.values() if f.has_cfg and f.is_pattern and f.cls == FMT and f.name == "str"]
    if not strs:
        # a dependent range-for makes clang refuse a CFG for the pattern: fall back to the instantiations
        strs = [f for f in prog.fns.values() if f.has_cfg and f.name == "str" and (f.cls or "").startswith(FMT + "<")]
        ctx.note("formatter::str pattern has no CFG; analysing %d instantiation(s)" % len(strs))
    ctx.need("R08.1", "formatter::str bodies", len(strs), 1)
    for f in strs:
        # ---- R08.1
        nsearch = 0
        for bid, i, e in f.roots():
            nodes = list(walk(e["expr"]))
            # direct-initialisation with a dependent type, `std::sregex_iterator it(a, b, re)`, shows up as a parenthesised list
            if e["expr"].get("k") == "decl":
                for v in e["expr"].get("vars", []):
                    iu = ir.unwrap(v.get("init")) if v.get("init") is not None else None
                    if isinstance(iu, dict) and iu.get("k") in ("paren_list", "init_list") and "regex_iterator" in (v.get("type") or ""):
                        nodes.append({"k": "construct", "name": v.get("type"), "args": list(iu.get("elems", iu.get("kids", []))), "ln": e.get("ln")})
            for n in nodes:
                subj = None
                k = n.get("k")
                nm = n.get("name") or n.get("type") or ""
                if k == "construct" and "regex_iterator" in nm and n.get("args"):
                    subj = n["args"][:2]
                    if len(n["args"]) == 1:
                        subj = None  # copy of another iterator
                elif k == "call" and short(nm) in ("regex_search", "regex_match", "regex_replace"):
                    subj = n.get("args", [])[:2]
                elif k == "call" and short(nm) in ("find", "rfind", "find_first_of", "replace", "erase", "insert") and n.get("this") is not None and not n.get("op"):
                    recv = fmt(n["this"])
                    if recv != "format_":
                        nsearch += 1
                        ctx.bad("R08.1", f, "search-outside-format:%s.%s" % (recv, short(nm)),
                                "formatter::str searches/edits `%s` with %s(): text that came from an argument (or was already substituted) is scanned again, so a `{}` inside an argument is treated as a placeholder" % (recv, short(nm)), (f, n.get("ln")))
                    else:
                        nsearch += 1
                        ctx.ok("R08.1", f, "search-on-format:" + short(nm), "%s on format_" % short(nm), (f, n.get("ln")))
                    continue
                if subj is None:
                    continue
                nsearch += 1
                srcs = [fmt(ir.unwrap(a)) for a in subj]
                ok = all(re.fullmatch(r"format_(\.(begin|end|cbegin|cend)\(\))?", s0) for s0 in srcs)
                ctx.check(ok, "R08.1", f, "search-subject:" + short(nm), "a regex search runs over %s instead of the format string only: substituted text can be rescanned" % srcs, (f, n.get("ln")))
        ctx.need("R08.1", "search sites in formatter::str", nsearch, 1)
        # ---- R08.2
        nlit = 0
        for bid, i, e in f.roots():
            for n in walk(e["expr"]):
                if n.get("k") == "construct" and "basic_regex" in (n.get("name") or "") and n.get("args"):
                    a0 = ir.unwrap(n["args"][0])
                    if isinstance(a0, dict) and a0.get("k") == "lit":
                        nlit += 1
                        try:
                            A = regexlang.compile(a0["v"])
                            S = regexlang.compile("\\x7b\\x7d")
                            okr, w = regexlang.equal(A, S)
                            ctx.check(okr, "R08.2", f, "placeholder-language", "the placeholder pattern %r does not denote exactly \"{}\" (%s)" % (a0["v"], w), (f, n.get("ln")), why_ok=a0["v"])
                        except regexlang.Unsupported as ex:
                            ctx.broken("R08.2", f, "placeholder-language", "pattern outside the modelled subset: %s" % ex, (f, n.get("ln")))
                        except regexlang.SyntaxError_ as ex:
                            ctx.bad("R08.2", f, "placeholder-language", "malformed placeholder pattern %r: %s" % (a0["v"], ex), (f, n.get("ln")))
                    else:
                        ctx.bad("R08.2", f, "placeholder-language", "the placeholder pattern is not a literal: %s" % fmt(a0), (f, n.get("ln")))
        ctx.need("R08.2", "placeholder regex literal", nlit, 1)
        # ---- R08.3
        fe = facts.FactsEngine(prog, cg)
        IN, before = fe.analyse(f)
        loops = cfg.loop_blocks(f)
        if len(loops) != 1:
            # two phases (collect the placeholders, compare the counts, then assemble) or any other shape with more than the one argument loop:
            # the arity guards and the assembly equation are read off the single loop over (argument, regex match) pairs - another shape is
            # not a verdict about the code, it is outside what these rules recognise
            ctx.broken("R08.3", f, "one-argument-loop", "formatter::str has %d loops, not the one loop that walks arguments and placeholder matches together: idiom not recognised" % len(loops), f)
            continue
        ctx.ok("R08.3", f, "one-argument-loop", "one loop over (argument, placeholder match) pairs", f)
        body = loops[0][1] if loops else set()
        # `match iterator == past-the-end iterator`: an equality atom over two locals of regex_iterator type
        rit = {v["name"] for _, _, e in f.roots() if e["expr"].get("k") == "decl" for v in e["expr"]["vars"] if "regex_iterator" in (v.get("type") or "")}
        at_end = [a for b in IN for g in IN[b] for a in logic.atoms_of(g) if "==" in a and sum(1 for nm in rit if re.search(r"\b%s\b" % re.escape(nm), a)) >= 2]
        atom = ("a", at_end[0]) if at_end else None
        rb = [b for b in IN if f.is_noreturn(b)]
        more = less = 0
        for b in rb:
            st = IN[b]
            in_loop = any(p in body for p, _ in f.preds().get(b, []))
            if atom and logic.entails(st, atom, fe.lg.axioms)[0] is True and in_loop:
                more += 1
            elif atom and logic.entails(st, Not(atom), fe.lg.axioms)[0] is True and not in_loop:
                less += 1
        if not rit:
            # placeholders are not walked with a regex iterator (a hand-written search): the arity guards cannot be read off the iterator
            # comparison - not a verdict about the code, the idiom is outside what this rule recognises
            ctx.broken("R08.3", f, "arity-guards", "formatter::str does not walk the placeholders with a std::regex_iterator: the arity guards are not in a recognised form", f)
            continue
        ctx.check(more == 1, "R08.3", f, "more-arguments-raises", "no raise guards the loop when the placeholders are exhausted (`placeholder == end` inside the argument loop): surplus arguments are dropped silently", f)
        ctx.check(less == 1, "R08.3", f, "less-arguments-raises", "no raise guards the result when placeholders remain after the last argument: partial output is returned", f)
        for bid, i, e in f.roots():
            x = e["expr"]
            if x.get("k") == "return" and bid in IN and atom:
                ok = logic.entails(before[(bid, i)], atom, fe.lg.axioms)[0] is True
                ctx.check(ok, "R08.3", f, "result-only-when-arity-matches", "`return result` is reachable while placeholders remain", (f, e.get("ln")))
        # ---- R08.4 loop shape: symbolic execution of the code before the loop, of one generic iteration, and of the code after it
        _loop_equation(ctx, f, loops)
    # ---- R08.4 operator% / args
    pct = [f for f in prog.fns.values() if f.has_cfg and f.is_pattern and f.cls == FMT and f.op == "%"]
    ctx.need("R08.4", "formatter::operator% (pattern)", len(pct), 1)
    for f in pct:
        body = [fmt(e["expr"]) for _, _, e in f.roots()]
        p = f.params[0]["name"]
        streams = [v for _, _, e in f.roots() if e["expr"].get("k") == "decl" for v in e["expr"]["vars"] if "stream" in (v.get("type") or "")]
        fresh = len(streams) == 1 and not streams[0].get("static") and not streams[0].get("ref")
        ctx.check(fresh, "R08.4", f, "renders-through-fresh-stream", "operator%% does not render through one fresh local stream (found %s): formatting state or text of an earlier argument can leak into this one"
                  % [(v["name"], v.get("type")) for v in streams], f)
        sn = streams[0]["name"] if streams else "str"
        ins = [b for b in body if re.fullmatch(r"\(%s << (forward\(%s\)|%s)\)" % (sn, p, p), b)]
        ctx.check(len(ins) == 1, "R08.4", f, "inserts-argument-once", "the argument is inserted %d times (%s)" % (len(ins), body), f)
        # the finished text may be named before it is appended (`string_type text = str.str(); args_.push_back(std::move(text));`): a local whose
        # only definition is the stream's text and whose only other use is the append
        texts = [v["name"] for _, _, e in f.roots() if e["expr"].get("k") == "decl" for v in e["expr"]["vars"]
                 if v.get("init") is not None and fmt(ir.unwrap(v["init"])) == "%s.str()" % sn and sum(len(re.findall(r"\b%s\b" % re.escape(v["name"]), b)) for b in body) == 2]
        app_re = r"args_\.(emplace_back|push_back)\((%s\.str\(\)%s)\)" % (sn, "".join("|%s|move\(%s\)" % (re.escape(t), re.escape(t)) for t in texts))
        text_decl = [b for b in body if any(re.fullmatch(r".*\b%s = %s\.str\(\)" % (re.escape(t), sn), b) for t in texts)]
        other = [b for b in body if sn in b and b not in ins and b not in text_decl and not b.startswith("nitro::detail::formatter::stream_type") and not re.fullmatch(app_re, b) and "stream" not in b.split("=")[0]]
        from .common import sets_default_flags
        other = [b for b in other if not (fresh and sets_default_flags(b, sn))]
        ctx.check(not other, "R08.4", f, "stream-not-manipulated", "operator%% also does %s with the stream" % other, f)
        ctx.check(any(re.fullmatch(app_re, b) for b in body), "R08.4", f, "appends-text-at-end-of-args_", "the rendered text is not appended to args_ (%s)" % body, f)
        ctx.check(body[-1:] == ["return (*this)"], "R08.4", f, "returns-self", "operator%% returns %s" % body[-1:], f)
    argsf = [f for f in prog.fns.values() if f.has_cfg and f.is_pattern and f.cls == FMT and f.name == "args" and f.params]
    ctx.need("R08.4", "formatter::args(a, rest...) (pattern)", len(argsf), 1)
    for f in argsf:
        a = f.params[0]["name"]
        rest = f.params[1]["name"] if len(f.params) > 1 else "args"
        # evaluation order of the effects: operator%(*this, a) first, then args(rest...) on *this (or on what % returned)
        seq = []

        def order(n):
            if not isinstance(n, dict):
                return
            for ch in ir.children(n, into_sc=False):
                order(ch)
            if n.get("k") == "call" and (n.get("name") or "") not in ("std::forward", "std::move"):
                seq.append(n)
            elif n.get("k") == "bin" and n.get("op") == "%":
                seq.append(n)  # dependent form of operator%
        for _, _, e in f.roots():
            order(e["expr"])

        def on_self(x):
            x = ir.unwrap(x)
            return isinstance(x, dict) and (fmt(x) in ("(*this)", "this") or x.get("k") == "this" or (x.get("k") in ("call", "bin") and any(x is y for y in seq)))
        shape = []
        for n in seq:
            bo = ir.as_binop(n)
            if bo and bo[0] == "%" and on_self(bo[1]) and fmt(ir.unwrap(bo[2])) in ("forward(%s)" % a, a, "move(%s)" % a):
                shape.append("%")
            elif short(n.get("name") or "") == "args" and [fmt(ir.unwrap(x)) for x in n.get("args", [])] == ["forward(%s)..." % rest] and (n.get("this") is None or on_self(n.get("this"))):
                shape.append("args")
            elif short(n.get("name") or "") == "operator%" and n.get("this") is not None and on_self(n["this"]) and [fmt(ir.unwrap(x)) for x in n.get("args", [])] in (["forward(%s)" % a], [a]):
                shape.append("%")
            else:
                shape.append("other:" + fmt(n)[:60])
        ok = shape == ["%", "args"]
        ctx.check(ok, "R08.4", f, "args-applies-percent-in-order", "args(a, rest...) performs %s instead of `(*this) %% a` followed by `args(rest...)`: arguments are not rendered one by one, in order, each through operator%%" % shape, f)
        rets = [fmt(ir.unwrap(e["expr"].get("e"))) for _, _, e in f.roots() if e["expr"].get("k") == "return" and e["expr"].get("e") is not None]
        ctx.check(all(r == "(*this)" or ".args(" in r or r.startswith("args(") or r.startswith("this->args(") or "% " in r for r in rets) and rets, "R08.4", f, "args-returns-self", "args(a, rest...) returns %s" % rets, f)
    # the chaining members hand back the SAME formatter: a by-value return type makes `f.args(a) % b` add b to a temporary copy
    chain = [f for f in prog.fns.values() if f.has_cfg and f.cls == FMT and (f.op == "%" or f.name == "args") and (f.is_pattern or not f.flags.get("instantiation"))]
    ctx.need("R08.4", "chaining members of formatter (operator%, args(...), args())", len(chain), 3)
    for f in chain:
        rt = (f.ret or "").strip()
        ctx.check(rt.endswith("&") and not rt.endswith("&&") and "const" not in rt, "R08.4", f, "chains-by-reference:%s/%d" % (f.name, len(f.params)),
                  "%s returns `%s`: whatever is chained onto its result (`f.args(a) %% b`, `f %% a %% b`) goes to a temporary copy and never reaches the formatter that is rendered" % (f.name, rt), f,
                  why_ok=rt)
    # ---- R08.5: the message is the stream representation of the arguments, one after the other. The walk over the pack may be a
    # recursion through *streamers* (function-object template or overloaded function templates in nitro::except::detail whose first
    # parameter is the stream) or ONE pack expansion inside a braced list (the only place where left-to-right evaluation is guaranteed)
    def is_streamer(f):
        if not (f.has_cfg and (f.is_pattern or not f.flags.get("instantiation")) and f.file.startswith("/repo/") and f.params and "stream" in (f.params[0].get("type") or "") and (f.params[0].get("type") or "").rstrip().endswith("&")):
            return False
        if f.qual == "nitro::except::detail::make_string":
            return False
        return (f.qual.startswith("nitro::except::detail::") and f.kind == "function") or ((f.cls or "").startswith("nitro::except::detail::") and f.op == "()")
    me = [f for f in prog.fns.values() if is_streamer(f)]
    family = {(f.cls or f.qual) for f in me}
    fam_short = {short(x).split("<")[0] for x in family}

    def hands_on(text, m, rest):
        """the statement passes (stream, forward(rest)...) to a streamer of the family / a dependent callee"""
        if not text.endswith("(%s, forward(%s)...)" % (m, rest)):
            return False
        head = text[:-len("(%s, forward(%s)...)" % (m, rest))]
        return head == "?" or short(head.split("(")[0]).split("<")[0] in fam_short or (bool(fam_short) and re.match(r"(%s)<" % "|".join(map(re.escape, fam_short)), head) is not None) or head.endswith("{}")

    def expands_in_list(e, m, rest):
        """the statement is one braced list whose pack expansion streams forward(rest) into m - and nothing else is streamed"""
        x = e["expr"]
        lists = [y for y in walk(x) if isinstance(y, dict) and y.get("k") == "init_list"]
        t = fmt(x)
        return bool(lists) and t.count("<<") == 1 and re.search(r"\{.*\(%s << forward\(%s\)\).*\.\.\.\s*\}" % (re.escape(m), re.escape(rest)), t) is not None

    uses_family = recurses = False
    has_base = has_rec = False
    for f in me:
        els = list(f.roots())
        body = [fmt(e["expr"]) for _, _, e in els]
        m = f.params[0]["name"]
        variadic = any((p0.get("type") or "").rstrip().endswith("...") for p0 in f.params)
        if not variadic:
            has_base = True
            a = f.params[1]["name"] if len(f.params) > 1 else None
            okb = (a is None and not [b0 for b0 in body if b0 not in ("return null", "return")]) or (a is not None and body == ["(%s << forward(%s))" % (m, a)])
            ctx.check(okb, "R08.5", f, "streams-last-argument", "%s does %s instead of streaming exactly what is left (%s)" % (short(f.qual), body, a or "nothing"), f)
        else:
            has_rec = True
            a = f.params[1]["name"] if len(f.params) > 2 or not (f.params[1].get("type") or "").rstrip().endswith("...") else None
            rest = f.params[-1]["name"]
            first = a is None or body[:1] == ["(%s << forward(%s))" % (m, a)]
            tail = els[1:] if a is not None else els
            okr = first and len(tail) == 1 and (hands_on(fmt(tail[0][2]["expr"]), m, rest) or expands_in_list(tail[0][2], m, rest))
            recurses = recurses or (len(tail) == 1 and hands_on(fmt(tail[0][2]["expr"]), m, rest))
            ctx.check(okr, "R08.5", f, "streams-first-then-recurses", "%s does %s instead of streaming the first argument and then the rest in order" % (short(f.qual), body), f)
    ms = [f for f in prog.fns.values() if f.has_cfg and f.is_pattern and f.qual == "nitro::except::detail::make_string"]
    ctx.need("R08.5", "make_string pattern", len(ms), 1)
    for f in ms:
        els = list(f.roots())
        body = [fmt(e["expr"]) for _, _, e in els]
        sv = [v["name"] for _, _, e in els if e["expr"].get("k") == "decl" for v in e["expr"]["vars"] if "stringstream" in (v.get("type") or "")]
        pa = f.params[0]["name"] if f.params else "args"
        mid = [e for _, _, e in els if e["expr"].get("k") not in ("decl", "return") and not (e["expr"].get("k") == "decl")]
        mid = [e for e in mid if "using" not in (e.get("text") or "")[:6]]
        # the pack may be expanded inside the initialiser of a dummy array (`const int expand[] = { (void(msg << forward(args)), 0)... };`) that is then only discarded
        arrs = [(e, v["name"]) for _, _, e in els if e["expr"].get("k") == "decl" for v in e["expr"]["vars"] if "stringstream" not in (v.get("type") or "") and "[" in (v.get("type") or "")]
        if len(arrs) == 1:
            discards = [e for e in mid if re.fullmatch(r"\(?(static_cast<void>|\(void\))\(?%s\)?\)?|void\{%s\}" % (re.escape(arrs[0][1]), re.escape(arrs[0][1])), fmt(e["expr"]))]
            if len(discards) == len(mid):
                mid = [arrs[0][0]]
        fam_call = len(sv) == 1 and len(mid) == 1 and hands_on(fmt(mid[0]["expr"]), sv[0], pa)
        in_list = len(sv) == 1 and len(mid) == 1 and expands_in_list(mid[0], sv[0], pa)
        uses_family = uses_family or fam_call
        ok = len(sv) == 1 and (fam_call or in_list) and body[-1:] == ["return %s.str()" % sv[0]]
        ctx.check(ok, "R08.5", f, "make_string-returns-stream-text", "make_string is %s: not `stream every argument in order into one fresh stream, return its text`" % body, f,
                  why_ok="pack expansion inside a braced list" if in_list else "recursion through %s" % sorted(fam_short))
    if uses_family:
        ctx.need("R08.5", "message streamers", len(me), 2 if recurses else 1)
    if recurses:
        ctx.check(has_base and has_rec, "R08.5", "nitro::except::detail", "recursion-complete", "the pack recursion lacks its %s case" % ("base" if not has_base else "recursive"), "-")
    ex = [f for f in prog.fns.values() if f.has_cfg and f.is_pattern and f.cls == "nitro::except::exception" and f.kind == "ctor"]
    ctx.need("R08.5", "except::exception constructor (pattern)", len(ex), 1)
    for f in ex:
        inits = [fmt(ir.unwrap(e["expr"])) for _, _, e in f.all_elems() if e["kind"] == "init"]
        ctx.check(any("make_string(forward(args)...)" in s0 for s0 in inits), "R08.5", f, "message-is-make_string", "exception is initialised with %s" % inits, f)
    # one way from the arguments of raise(...) to the message: every overload named raise hands its whole pack to the exception's constructor
    rz = [f for f in prog.fns.values() if f.has_cfg and f.is_pattern and f.qual.endswith("except::raise")]
    ctx.need("R08.5", "raise overloads (patterns)", len(rz), 1)
    for f in rz:
        body = [fmt(e["expr"]) for _, _, e in f.roots()]
        packs = [p0 for p0 in f.params if "..." in (p0.get("type") or "")]
        whole = len(f.params) == 1 and len(packs) == 1 and any("forward(%s)..." % packs[0]["name"] in b0 for b0 in body) and len(body) == 1
        ctx.check(whole, "R08.5", f, "raise-forwards-whole-pack:%s" % ",".join((p0.get("type") or "?") for p0 in f.params),
                  "the overload raise(%s) does not hand its complete argument pack to the exception constructor (%s): for the calls it is chosen for - e.g. a formatter as the first argument - the message "
                  "is no longer the concatenation of all arguments" % (", ".join((p0.get("type") or "?") for p0 in f.params), body), f, why_ok=body[0] if body else "")
    ctx.rule("R08.6", "no member of the formatter / exception machinery is declared noexcept and reaches a raise (an arity error has to be catchable whichever way the text is obtained)")
    from .common import rule_fold_keeps_width
    ctx.rule("R08.8", "a std fold in the format code starts from a value as wide as std::size_t (G-fold): a size summed up in int wraps for texts of 2 GiB and the string it "
                      "sizes raises std::length_error although the argument count matches")
    rule_fold_keeps_width(ctx, "R08.8", lambda f: f.file.endswith(("format/format.hpp", "except/exception.hpp", "except/raise.hpp")),
                          "the total length of the argument texts is computed in 32 bits: str() raises (or under-allocates) for arguments of 2 GiB and more", minimum=5)
    from .common import rule_noexcept
    rule_noexcept(ctx, "R08.6", lambda f: f.file.endswith(("format/format.hpp", "except/exception.hpp", "except/raise.hpp")), "an arity mismatch has to raise", minimum=8)
    ctx.rule("R08.7", "no catch handler in the formatter / exception machinery lets an exception vanish: however the text is obtained (str(), conversion, operator<<, as an argument of raise) a wrong argument count reaches the caller")
    from .common import rule_handlers
    rule_handlers(ctx, "R08.7", lambda f: f.file.endswith(("format/format.hpp", "except/exception.hpp", "except/raise.hpp")), ("nitro::except::exception",), "an arity mismatch has to raise", minimum=8)
    ctx.assume("the output equation for all format strings (nested / lone braces) depends on std::regex_iterator's match semantics: not decided")


def _loop_equation(ctx, f, loops):
    from sa import strsym
    from sa.strsym import show, show_lin
    if len(loops) != 1:
        return
    head, body = loops[0]
    ret = None
    for _, _, e in f.roots():
        x = e["expr"]
        if x.get("k") == "return" and x.get("e") is not None:
            r = ir.unwrap(x["e"])
            while isinstance(r, dict) and r.get("k") == "construct" and len(r.get("args", [])) == 1:
                r = ir.unwrap(r["args"][0])
            if isinstance(r, dict) and r.get("k") == "call" and (r.get("name") or "") == "std::move" and r.get("args"):
                r = ir.unwrap(r["args"][0])
            if isinstance(r, dict) and r.get("k") == "ref" and r.get("decl", "").startswith("local:"):
                ret = r["decl"][6:]
    if ret is None:
        ctx.broken("R08.4", f, "result-variable", "formatter::str does not return a local string", f)
        return
    ss = strsym.StrSym(f, "format_", "args_", ret)
    blocks = set(f.reachable_blocks())
    outside = blocks - set(body)
    try:
        pre = ss.paths(f.entry, outside, {head})
        body_entry = [to for to, lab in f.succs(head) if lab == "true"][0]
        after_entry = [to for to, lab in f.succs(head) if lab == "false"][0]
        its = ss.paths(body_entry, set(body) - {head}, {head})
        posts = ss.paths(after_entry, outside - {head}, {f.exit})
    except (strsym.Unknown, IndexError) as ex:
        ctx.broken("R08.4", f, "loop-regions", "cannot cut formatter::str into before/iteration/after: %s" % ex, f)
        return
    ctx.need("R08.4", "paths before the loop", len(pre), 1)
    ctx.need("R08.4", "non-raising iteration paths", len(its), 1)
    ctx.need("R08.4", "non-raising paths after the loop", len(posts), 1)
    # locals written inside the loop
    carried = set()
    for b in body:
        for e in f.elems(b):
            if e.get("expr") is None:
                continue
            for eff, lv, n in tree_effects(e["expr"], into_sc=True):
                if eff in ("write", "maybe_write") and lv is not None:
                    kind, key, _ = lvalue_root(lv)
                    if kind == "local":
                        carried.add(key)
    for pth in pre:
        env0, out0 = ss.run_path(pth + [head], {})
        if out0:
            ctx.broken("R08.4", f, "starts-empty", "text is appended before the argument loop (%s): shape not modelled" % [show(o) for o in out0], f)
            return
        cursors = [k for k, v in env0.items() if v and v[0] == "pos" and k in carried]
        mits = [k for k, v in env0.items() if v and v[0] == "mit" and k in carried]
        aits = [k for k, v in env0.items() if v and v[0] == "ait" and k in carried]
        if len(cursors) != 1 or len(mits) != 1 or len(aits) != 1:
            ctx.broken("R08.4", f, "loop-variables", "expected one format cursor, one match iterator and one argument iterator carried by the loop, found %s / %s / %s"
                       % (cursors, mits, aits), f)
            return
        cur, mit, ait = cursors[0], mits[0], aits[0]
        ctx.check(env0[cur] == ("pos", {}), "R08.4", f, "cursor-starts-at-format-begin", "the copy cursor `%s` starts at %s instead of format_.begin()" % (cur, show(env0[cur])), f, why_ok=cur)
        ctx.check(env0[mit] == ("mit", 0, "fresh"), "R08.4", f, "matches-start-at-first-placeholder", "the match iterator `%s` starts at %s instead of the first match in [format_.begin(), format_.end())" % (mit, show(env0[mit])), f, why_ok=mit)
        ctx.check(env0[ait] == ("ait", 0, "fresh"), "R08.4", f, "arguments-start-at-first", "the argument iterator `%s` starts at %s instead of args_.begin()" % (ait, show(env0[ait])), f, why_ok=ait)
        gen = dict(env0)
        gen[cur] = ("pos", {"I": 1})
        gen[mit] = ("mit", 0)
        gen[ait] = ("ait", 0)
        for k in carried - {cur, mit, ait}:
            if k != ret:
                gen[k] = None
        want = [("slice", {"I": 1}, {"P0": 1}), ("text", 0)]
        for pth in its:
            env1, out1 = ss.run_path(pth, gen)
            sig = "B" + "-".join(map(str, pth))
            unk = [o for o in out1 if o[0] == "unknown"]
            if unk:
                ctx.broken("R08.4", f, "iteration:" + sig, "the iteration appends %s: outside the modelled operations" % [u[1] for u in unk], f)
                continue
            ctx.check(out1[:1] == want[:1] and len(out1) >= 1, "R08.4", f, "appends-format-up-to-match",
                      "an iteration first appends %s (expected subject[I, P0): the format text between the previous placeholder and this one)" % [show(o) for o in out1[:1]], f)
            ctx.check(out1[1:] == want[1:], "R08.4", f, "appends-argument-text-verbatim",
                      "after the format slice an iteration appends %s (expected exactly the current argument's text)" % [show(o) for o in out1[1:]], f)
            ctx.check(env1.get(cur) == ("pos", {"P0": 1, "L0": 1}), "R08.4", f, "resumes-after-the-placeholder",
                      "the copy cursor is %s at the end of an iteration instead of match position + match length" % show(env1.get(cur)), f)
            ctx.check(env1.get(mit) is not None and env1[mit][:2] == ("mit", 1) and env1.get(ait) is not None and env1[ait][:2] == ("ait", 1), "R08.4", f, "advances-argument-and-placeholder",
                      "after one iteration the match iterator is %s and the argument iterator %s (each must advance exactly once)" % (show(env1.get(mit)), show(env1.get(ait))), f)
        for pth in posts:
            env2, out2 = ss.run_path(pth, gen)
            unk = [o for o in out2 if o[0] == "unknown"]
            if unk:
                ctx.broken("R08.4", f, "tail", "after the loop %s is appended: outside the modelled operations" % [u[1] for u in unk], f)
                continue
            ctx.check(out2 == [("slice", {"I": 1}, {"END": 1})], "R08.4", f, "appends-format-tail",
                      "after the loop the result receives %s (expected subject[I, END): the rest of the format)" % [show(o) for o in out2], f)
