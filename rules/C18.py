"""C18 - owning wrappers destroy exactly once and copy deeply.

R18.1 (A7)  quaint_ptr: not copyable, movable, default-constructs empty, built on a private unique_ptr<void, function>;
            optional: copy assignment returns optional&, operator* yields const T&.
R18.2 (AST) make_quaint<T>: the `new` type and the type the deleter casts to before its delete-expression are the same
            template parameter; the deleter uses a (non-array) delete expression on its own parameter.
R18.3 (A5)  zero-expected: no release() on the unique_ptr base anywhere in quaint_ptr; reset() forwards to base::reset.
R18.4 (A1)  optional: copy constructor / copy assignment obtain storage only through a fresh make_unique<T>(*other)
            (never by sharing); copy assignment writes data_ on every path; operator* dereferences only under a
            non-null test whose other edge raises.
R18.5       optional's storage member is std::unique_ptr<T>; a defaulted copy with pointer storage would alias.
"""
import os
import re

from sa import ir, cfg, witness
from sa.ir import fmt, walk, short
from sa.callgraph import tree_effects, lvalue_root
from sa.extract import VERIF
from .common import callgraph, elem_calls, is_empty_temp, is_this

QP = "nitro::lang::quaint_ptr"
OPT = "nitro::lang::optional"


def _scalar(t):
    """arithmetic / pointer payloads have no constructors to choose between"""
    t = t.replace("const ", "").strip()
    return t in ("bool", "int", "unsigned int", "long", "unsigned long", "char", "double", "float", "short") or t.endswith("*")


def run(ctx):
    prog = ctx.prog
    ctx.rule("R18.1", "type-level: quaint_ptr move-only on a private unique_ptr<void,function>; optional assignment/deref types")
    ctx.rule("R18.2", "make_quaint: new-type == deleter cast type; deleter uses a delete expression on its parameter")
    ctx.rule("R18.3", "no release() on the owning base; reset() forwards to base::reset")
    ctx.rule("R18.4", "optional copies through fresh make_unique<T>(*other); copy assignment writes data_ on every path; guarded dereference")
    ctx.rule("R18.5", "optional stores std::unique_ptr<T>")

    # ---- R18.1
    wres = witness.apply(ctx, lambda t: "R18.1", os.path.join(VERIF, "witness", "tl_C18.cpp"), broken_tags=("w6",))
    unique_idiom = "w6" not in wres["failed"] and not wres["broken"]

    # ---- R18.6: moves transfer (destroy the overwritten object now, leave the source empty): the special members are the
    # owning base's own (defaulted), or a user-provided body that hands the source to the base's move operation
    ctx.rule("R18.6", "quaint_ptr's move operations are unique_ptr's (defaulted) or delegate to them: the overwritten object dies at the assignment and the source is left empty")
    qc = prog.cls(QP)
    if ctx.anchor("R18.6", QP, qc is not None):
        where = "%s:%d" % (qc["file"], qc["line"])
        owning_base = any("unique_ptr" in (b.get("name") or "") for b in qc.get("bases", []))
        # the deleter travels with the pointer BY VALUE: a reference/pointer deleter is state shared between owners
        for b in qc.get("bases", []):
            bn = (b.get("name") or "").replace(" ", "")
            if "unique_ptr<" in bn:
                inner = bn[bn.index("unique_ptr<") + len("unique_ptr<"):]
                shared_del = inner.rstrip(">").endswith("&") or inner.rstrip(">").endswith("*") and "void(void*)" not in inner.rstrip(">")[-12:]
                byref = re.search(r"std::function<void\(void\*\)>[&*]", bn) is not None or re.search(r",[^,]*[&]>+$", bn) is not None
                ctx.check(not byref, "R18.6", QP, "deleter-owned-by-value", "quaint_ptr's owner is %s: the deleter is held by reference, i.e. shared by every pointer that refers to the same function object; "
                          "a move assignment between owners of different types rewrites it and objects are then destroyed by the destructor of another type" % b.get("name"), where, why_ok=b.get("name"))
        for fl in qc.get("fields", []):
            if "unique_ptr" in (fl.get("type") or "") and re.search(r"[&]\s*>\s*$", (fl.get("type") or "")):
                ctx.bad("R18.6", QP, "deleter-owned-by-value", "quaint_ptr's owner member %s holds its deleter by reference" % fl.get("type"), where)
        for op in ("move_ctor", "move_assign", "dtor"):
            sp = qc.get("special", {}).get(op)
            if sp is None or sp.get("deleted"):
                ctx.check(op == "dtor" and False, "R18.6", QP, op + "-present", "quaint_ptr has no usable %s" % op.replace("_", " "), where)
                continue
            if not sp.get("user_provided"):
                ctx.check(owning_base, "R18.6", QP, op + "-is-the-owners", "the compiler-generated %s moves members one by one; the owner is not a unique_ptr base" % op, where,
                          why_ok="defaulted on a unique_ptr base")
                continue
            mf = prog.fn(sp["id"])
            if mf is None or not mf.has_cfg:
                ctx.broken("R18.6", QP, op + "-is-the-owners", "user-provided %s without an analysable body" % op, where)
                continue
            pn0 = mf.params[0]["name"] if mf.params else None
            delegates = False
            for _, _, e in mf.all_elems():
                if e.get("expr") is None:
                    continue
                for n in walk(e["expr"]):
                    if n.get("k") in ("call", "construct"):
                        nm = n.get("name") or ""
                        args = [fmt(ir.unwrap(a)) for a in n.get("args", [])]
                        if "unique_ptr" in nm and ((n.get("op") == "=" or n.get("k") == "construct" or e["kind"] == "init") and args[:1] == ["move(%s)" % pn0]):
                            delegates = True
                        if short(nm) == "reset" and args and args[0] == "%s.release()" % pn0:
                            delegates = True
            if op == "dtor":
                ctx.ok("R18.6", mf, "dtor-user-provided", "user-provided destructor (the unique_ptr base still destroys the object)", mf)
                continue
            ctx.check(delegates, "R18.6", mf, op + "-transfers",
                      "the user-provided %s does not hand the source to unique_ptr's own move (%s): with an exchange instead of a transfer the object the target held is not destroyed at the "
                      "assignment and the moved-from pointer is not empty" % (op.replace("_", " "), [fmt(e["expr"]) for _, _, e in mf.roots()]), mf)
    # ---- R18.7: a copy of an optional is made by the copy/move constructor, whatever the payload type (overload resolution witness)
    ctx.rule("R18.7", "copy-initialising an optional<T> from an optional<T> of any value category selects the copy (or move) constructor, also for payloads constructible from optional itself")
    wf = [f for f in prog.find("vwit::optional_copies") if f.has_cfg]
    if ctx.anchor("R18.7", "vwit::optional_copies", bool(wf)):
        nsel = 0
        for bid, i, e in wf[0].roots():
            x = e["expr"]
            if x.get("k") != "decl":
                continue
            for v in x.get("vars", []):
                init = ir.unwrap(v.get("init"))
                while isinstance(init, dict) and init.get("k") == "cast":
                    init = ir.unwrap(init["e"])
                if not (isinstance(init, dict) and init.get("k") == "construct"):
                    continue
                args = [a for a in init.get("args", []) if not (isinstance(a, dict) and a.get("k") == "defarg")]
                if len(args) != 1 or "optional" not in (ir.unwrap(args[0]).get("type") or fmt(args[0])) and v["name"] != "from_rvalue":
                    pass
                nsel += 1
                chosen = prog.fn(init.get("ctor")) if init.get("ctor") else None
                is_copy = bool(init.get("copy") or init.get("move") or (chosen is not None and (chosen.flags.get("copy_ctor") or chosen.flags.get("move_ctor"))))
                ctx.check(is_copy, "R18.7", wf[0], "copy-selects-copy-ctor:" + v["name"],
                          "`optional<bool> %s(...)` from an optional<bool> is built by %s, not by the copy/move constructor: the new object holds a value computed FROM the source object (its engaged-ness) "
                          "instead of a copy of its value; a copy of an empty optional is engaged" % (v["name"], init.get("ctor")), (wf[0], e.get("ln")), why_ok=str(init.get("ctor"))[:90])
        ctx.need("R18.7", "copy-initialisations in the witness", nsel, 3)
    # ---- R18.8: a value of the payload type engages the optional - also nullptr for a pointer-like payload (an added
    # optional(nullptr_t) / operator=(nullptr_t) "clear" overload is an exact match and turns storing that value into emptying)
    ctx.rule("R18.8", "overload-resolution witness: constructing / assigning an optional<const int*> from nullptr selects the value constructor / value assignment (parameter of the payload type)")
    from .common import chosen
    wv = [f for f in prog.find("vwit::optional_values") if f.has_cfg]
    if ctx.anchor("R18.8", "vwit::optional_values", bool(wv)):
        sel = [c0 for c0 in chosen(prog, wv[0]) if c0[2] in ("construct", "assign")][:2]
        ctx.need("R18.8", "value stores in the witness", len(sel), 2)
        for ln, text, kind, g, n in sel:
            if g is None:
                ctx.broken("R18.8", wv[0], "value-engages:" + text, "the selected overload is not in the facts", (wv[0], ln))
                continue
            pt = (g.params[0].get("type") or "") if g.params else ""
            ctx.check("nullptr_t" not in pt and "optional" not in pt, "R18.8", wv[0], "value-engages:" + text,
                      "`%s` runs %s: nullptr, a legitimate value of the payload type, no longer yields an engaged optional holding it - storing a value empties the target"
                      % (text, g.id[:110]), (wv[0], ln), why_ok=short(g.qual) + "(" + pt + ")")
    # ---- R18.10: a copy of an optional builds its payload from the source's value seen as CONST (`*other` on a const optional yields
    # const T&; `*other.data_` - unique_ptr's operator* - yields a mutable T&, and `new T(arg)` then prefers T(T&) or a greedy
    # template<class U> T(U&&) over T's copy constructor: the "copy" is whatever that constructor makes of the source)
    ctx.rule("R18.10", "copy-reads-const-source: in every instantiation of optional's copy constructor / copy assignment the payload is created from a const lvalue of the payload type")
    ncp = 0
    for g in sorted(prog.fns.values(), key=lambda h: h.id):
        if g.cls is None or not g.cls.startswith("nitro::lang::optional<") or g.is_pattern or not g.has_cfg or not (g.flags.get("copy_ctor") or g.flags.get("copy_assign")):
            continue
        for bid, i, e in g.all_elems():
            x = e.get("expr")
            if not isinstance(x, dict):
                continue
            for n in walk(x):
                if not isinstance(n, dict):
                    continue
                created = None
                if n.get("k") == "call" and (n.get("name") or "") in ("std::make_unique", "std::make_shared") and len(n.get("args", [])) == 1:
                    created = n["args"][0]
                elif n.get("k") == "new" and len(n.get("args", []) or []) == 1:
                    created = n["args"][0]
                elif n.get("k") == "new" and isinstance(n.get("init"), dict) and len(n["init"].get("args", []) or []) == 1:
                    created = n["init"]["args"][0]
                if created is None:
                    continue
                a = ir.unwrap(created)
                t = (a.get("type") or "") if isinstance(a, dict) else ""
                ncp += 1
                is_const = t.startswith("const ") or " const" in t or bool(isinstance(a, dict) and a.get("const"))
                pointer_payload = t.endswith("*") and not t.endswith("* const") and "*const" not in t
                if pointer_payload:
                    is_const = " *const" in t or t.endswith("const") or is_const
                ctx.check(is_const or _scalar(t), "R18.10", g, "copy-reads-const-source:%s" % fmt(a)[:40],
                          "%s creates the copy's payload from `%s` of type `%s` - a mutable lvalue: for a payload type with T(T&) or a converting template constructor that one is "
                          "selected instead of the copy constructor, the copy is not a copy" % (short(g.qual), fmt(a), t), (g, e.get("ln")), why_ok=t)
    ctx.need("R18.10", "payload creations in optional's copy operations", ncp, 2)
    # ---- R18.9: reading an empty optional raises - and the exception can leave
    ctx.rule("R18.9", "no member of optional / quaint_ptr is declared noexcept and reaches a raise (`*empty` has to raise an exception the caller can catch, not end in std::terminate); no catch handler lets one vanish")
    from .common import rule_noexcept, rule_handlers
    rule_noexcept(ctx, "R18.9", lambda g: g.file.endswith(("lang/optional.hpp", "lang/quaint_ptr.hpp")), "reading an empty optional has to raise", minimum=10)
    rule_handlers(ctx, "R18.9", lambda g: g.file.endswith(("lang/optional.hpp", "lang/quaint_ptr.hpp")), ("nitro::except::exception",), "reading an empty optional has to raise", minimum=10)
    # ---- R18.2
    mq = [f for f in prog.find("nitro::lang::make_quaint") if f.has_cfg]
    ctx.need("R18.2", "make_quaint bodies (pattern + instantiation)", len(mq), 2)
    for f in mq:
        news, lambdas = [], []
        for bid, i, e in f.roots():
            for n in walk(e["expr"]):
                if n.get("k") == "new":
                    news.append(n)
                elif n.get("k") == "lambda":
                    lambdas.append(n)
        tag = "pattern" if f.is_pattern else "inst<%s>" % f.flags.get("template_args", "")
        if len(lambdas) > 1:
            # several creation branches (e.g. one for over-aligned payloads): each deleter on its own has to run the destructor exactly once -
            # a delete-expression, or an explicit destructor call in front of the raw release
            for li, lam in enumerate(lambdas):
                bodies = [prog.fn(b) for b in lam.get("bodies", [])] or [prog.fn(lam.get("id"))]
                for b in [b for b in bodies if b is not None and b.has_cfg]:
                    nd = nfree = ndtor = 0
                    for bid, i, e in b.roots():
                        for n in walk(e["expr"]):
                            if n.get("k") == "delete":
                                nd += 1
                            elif n.get("k") == "call" and short(n.get("name") or "") in ("free", "operator delete", "aligned_free", "_aligned_free"):
                                nfree += 1
                            elif n.get("k") == "call" and ("~" in (n.get("name") or "") or n.get("dtor") or short(n.get("name") or "") in ("destroy_at",)):
                                ndtor += 1
                            elif n.get("k") in ("pseudo_dtor", "dtor_call"):
                                ndtor += 1
                    okd = (nd == 1 and nfree == 0) or (nd == 0 and nfree == 1 and ndtor == 1)
                    ctx.check(okd, "R18.2", f, "deleter-deletes:%s#%d" % (tag, li),
                              "deleter %d of make_quaint consists of %d delete-expression(s), %d explicit destructor call(s) and %d raw release(s): the object's destructor does not run exactly once "
                              "(storage released without ~T, or destroyed twice)" % (li + 1, nd, ndtor, nfree), b)
            continue
        if not news and len(lambdas) == 1 and any(p0.get("type", "").rstrip().endswith("*") for p0 in f.params):
            # a factory overload that wraps a pointer handed in: the object was created elsewhere, with a type this function never sees
            ptrs = [p0 for p0 in f.params if p0.get("type", "").rstrip().endswith("*")]
            ctx.bad("R18.2", f, "creates-what-it-owns:" + tag,
                    "this make_quaint overload contains no new-expression: it adopts `%s %s` and pairs it with a deleter for the pointer's static type. The owner can no longer "
                    "know the type the object was created with (a Base* to a Derived is destroyed as Base), nothing keeps the same object from being adopted twice, and a "
                    "call with explicit type and one pointer argument - make_quaint<node>(parent), meant to create node(parent) - resolves to this overload (the non-variadic "
                    "template is more specialised): no object is created and `parent` gains a second owner" % (ptrs[0].get("type"), ptrs[0].get("name")), f)
            continue
        if len(news) != 1 or len(lambdas) != 1:
            ctx.broken("R18.2", f, "new/deleter pair:" + tag,
                       "expected exactly one new-expression and one deleter lambda, found %d/%d" % (len(news), len(lambdas)), f)
            continue
        new = news[0]
        ctx.check(not new.get("array") and not new.get("placement"), "R18.2", f, "new-is-plain:" + tag,
                  "object is created with array/placement new", (f, new.get("ln")))
        lam = lambdas[0]
        bodies = [prog.fn(b) for b in lam.get("bodies", [])] or [prog.fn(lam.get("id"))]
        bodies = [b for b in bodies if b is not None and b.has_cfg]
        if not bodies:
            ctx.broken("R18.2", f, "deleter-body:" + tag, "deleter lambda body not found", f)
            continue
        for b in bodies:
            dels = []
            frees = []
            for bid, i, e in b.roots():
                for n in walk(e["expr"]):
                    if n.get("k") == "delete":
                        dels.append(n)
                    elif n.get("k") == "call" and short(n.get("name") or "") in ("free", "operator delete"):
                        frees.append(n)
            pname = b.params[0]["name"] if b.params else None
            if len(dels) != 1 or frees:
                ctx.bad("R18.2", f, "deleter-deletes:" + tag,
                        "the deleter does not consist of exactly one delete-expression (found %d delete, %d raw frees): "
                        "the object's destructor would not run exactly once" % (len(dels), len(frees)), b)
                continue
            d = dels[0]
            target = ir.unwrap(d["e"])
            cast_to = None
            src = target
            if isinstance(target, dict) and target.get("k") == "cast":
                cast_to = target["to"].replace(" ", "")
                src = ir.unwrap(target["e"])
            etype = (d.get("etype") or "").replace(" ", "")
            ntype = new["type"].replace(" ", "")
            same = (etype == ntype) and (cast_to in (ntype + "*", None))
            ctx.check(same and not d.get("array"), "R18.2", f, "deleter-type:" + tag,
                      "object created as `new %s` but destroyed as `delete%s (%s)` - wrong destructor" % (
                          new["type"], "[]" if d.get("array") else "", d.get("etype")), b,
                      why_ok="new %s / delete static_cast<%s*>" % (new["type"], d.get("etype")))
            ctx.check(isinstance(src, dict) and src.get("k") == "ref" and src.get("decl") == "param:%s" % pname,
                      "R18.2", f, "deleter-arg:" + tag, "the deleter deletes %s, not its own parameter" % fmt(src), b)

    # ---- R18.3 (only meaningful for the recognised idiom: ownership delegated to a unique_ptr base)
    qm = [f for f in prog.methods_of(QP) if f.has_cfg] if unique_idiom else []
    if not unique_idiom:
        ctx.note("R18.3 skipped: quaint_ptr is not built on the recognised unique_ptr base (reported as analysis-broken by w6)")
    if unique_idiom:
        ctx.need("R18.3", "quaint_ptr member functions with bodies", len(qm), 2)
    rel = 0
    for f in qm:
        for bid, i, e in f.all_elems():
            for n in elem_calls(e, into_sc=True):
                if short(n.get("name") or "") == "release":
                    rel += 1
                    ctx.bad("R18.3", f, "release-call", "release() drops ownership without running the deleter", (f, n.get("ln")))
    from .common import fx
    g = fx(ctx, "releasing::leak")
    ctx.fixture("R18.3", "releasing::leak", g is not None and any(short(n.get("name") or "") == "release" for _, _, e in g.all_elems() for n in elem_calls(e, into_sc=True)), True, "release() recognised")
    if rel == 0 and unique_idiom:
        ctx.ok("R18.3", QP, "no-release", "no release() in %d member functions" % len(qm), qm[0].site if qm else "-")
    resets = [f for f in qm if f.name == "reset"]
    if unique_idiom and not resets:
        ctx.ok("R18.3", QP, "reset-forwards", "no reset() body in quaint_ptr: the argument-less reset is the base's (w15), the pointer form is not exposed (w14)", "-")
    from .common import delegating_overload
    for f in resets:
        if delegating_overload(prog, f) is not None and delegating_overload(prog, f) in resets:
            ctx.ok("R18.3", f, "reset-forwards:" + ",".join(p0.get("type") or "?" for p0 in f.params), "hands over to %s" % delegating_overload(prog, f).id[:80], f)
            continue
        ok, path = cfg.must_happen_before_exit(
            f, lambda e: any(short(n.get("name") or "") == "reset" and (n.get("name") or "").startswith("std::unique_ptr")
                             for n in elem_calls(e)))
        ctx.check(ok, "R18.3", f, "reset-forwards", "reset() does not call the owning base's reset() on every path", f)

    # ---- R18.4 / R18.5 on the optional pattern and every analysed instantiation
    fam = prog.class_family(OPT)
    ctx.need("R18.4", "optional class (pattern + instantiations)", len(fam), 2)
    for c in fam:
        _optional_rules(ctx, prog, c)
    ctx.trust("std::unique_ptr: moved-from is null, the deleter runs exactly once (Appendix D.3)")
    ctx.assume("user types whose destructors throw are outside the claim")


def _optional_rules(ctx, prog, c):
    CN = c["name"]
    data = [fl for fl in c["fields"] if not fl.get("static")]
    if len(data) != 1:
        # storage plus bookkeeping (an `engaged` flag next to the pointer): the analysis follows the pointer member, and every
        # observer of emptiness must then agree (below: operator bool <=> the test that guards operator*)
        ptrs = [fl for fl in data if "unique_ptr" in (fl.get("type") or "") or "shared_ptr" in (fl.get("type") or "") or fl.get("ptr")]
        if len(ptrs) != 1:
            ctx.broken("R18.5", CN, "storage-member", "expected a single storage member, found %s" % [fl["name"] for fl in data], "-")
            return
        data = ptrs
    dq = data[0]["qual"]
    dtype = data[0]["type"].replace(" ", "")
    is_unique = dtype.startswith("std::unique_ptr<") or dtype.startswith("unique_ptr<")
    sp = c.get("special", {})
    cc = sp.get("copy_ctor")
    if is_unique:
        ctx.ok("R18.5", CN, "storage-is-unique_ptr", data[0]["type"], "%s:%d" % (c["file"], c["line"]))
    else:
        shared = "shared_ptr" in dtype or data[0].get("ptr")
        aliasing_copy = cc is None or cc.get("defaulted") or cc.get("implicit")
        if shared and aliasing_copy:
            ctx.bad("R18.5", CN, "storage-is-unique_ptr",
                    "storage is %s and the copy constructor is compiler-generated: a copy aliases the source's object" % data[0]["type"],
                    "%s:%d" % (c["file"], c["line"]))
        elif shared:
            ctx.ok("R18.5", CN, "storage-is-unique_ptr", "storage %s with user-provided copies (checked by R18.4)" % data[0]["type"],
                   "%s:%d" % (c["file"], c["line"]))
        else:
            ctx.ok("R18.5", CN, "storage-is-unique_ptr", "value storage %s" % data[0]["type"], "%s:%d" % (c["file"], c["line"]))

    methods = [f for f in prog.methods_of(CN) if f.has_cfg]
    copy_ctor = [f for f in methods if f.flags.get("copy_ctor")]
    copy_asg = [f for f in methods if f.flags.get("copy_assign")]
    deref = [f for f in methods if f.op == "*"]
    ctx.need("R18.4", "optional copy constructor", len(copy_ctor), 1 if is_unique else 0)
    ctx.need("R18.4", "optional copy assignment", len(copy_asg), 1)
    ctx.need("R18.4", "optional operator*", len(deref), 1)

    def data_writes(f):
        out = []
        for bid, i, e in f.all_elems():
            if e["kind"] == "init" and e.get("field") == dq:
                out.append((bid, i, e, e["expr"]))
                continue
            if e.get("expr") is None:
                continue
            for eff, lv, n in tree_effects(e["expr"]):
                if eff in ("write", "maybe_write") and lv is not None:
                    kind, key, _ = lvalue_root(lv)
                    if kind == "field" and key[0] == dq and key[1] == "this":
                        rhs = None
                        if n.get("k") == "bin":
                            rhs = n["r"]
                        elif n.get("k") == "call" and n.get("args"):
                            rhs = n["args"][0]
                        elif n.get("k") == "call":
                            rhs = {"k": "call", "name": n.get("name"), "args": []}
                        out.append((bid, i, e, rhs if rhs is not None else n))
        return out

    def fresh(rhs, pname, depth=0):
        """make_unique<T>(*other) / make_unique<T>(other.value...) or an empty temp/reset; a call to a helper of the
        same class counts when every one of its returns is fresh w.r.t. its own parameter (effects modulo summaries)"""
        r = ir.unwrap(rhs)
        if is_empty_temp(r):
            return "empty"
        if isinstance(r, dict) and r.get("k") == "call" and depth < 2 and not (short(r.get("name") or "").startswith("make_")):
            nm = short(r.get("name") or "")
            args = r.get("args", [])
            helpers = [h for h in prog.methods_of(CN) if h.has_cfg and h.name == nm and len(h.params) == len(args) == 1]
            if helpers and fmt(ir.unwrap(args[0])) == pname:
                verdicts = []
                for h in helpers:
                    hp = h.params[0]["name"]
                    for _, _, e in h.roots():
                        x = e["expr"]
                        if x.get("k") == "return" and x.get("e") is not None:
                            verdicts.append(fresh(x["e"], hp, depth + 1))
                if verdicts and all(v in ("fresh", "empty") for v in verdicts) and "fresh" in verdicts:
                    return "fresh"
                if verdicts:
                    return "fresh?" if any(v == "fresh?" for v in verdicts) else None
        if isinstance(r, dict) and r.get("k") == "call" and depth < 2 and not r.get("args") and r.get("this") is not None and fmt(ir.unwrap(r["this"])) == pname:
            # `other.helper()`: a const member of the same class whose every return is fresh w.r.t. its own object
            nm = short(r.get("name") or "")
            helpers = [h for h in prog.methods_of(CN) if h.has_cfg and h.name == nm and not h.params and h.flags.get("const")]
            verdicts = []
            for h in helpers:
                for _, _, e in h.roots():
                    x = e["expr"]
                    if x.get("k") == "return" and x.get("e") is not None:
                        verdicts.append(fresh(x["e"], "this", depth + 1))
            if verdicts and all(v in ("fresh", "empty") for v in verdicts) and "fresh" in verdicts:
                return "fresh"
            if verdicts:
                return "fresh?" if any(v == "fresh?" for v in verdicts) else None
        if isinstance(r, dict) and r.get("k") == "lit" and r.get("t") == "null":
            return "empty"
        if isinstance(r, dict) and r.get("k") == "call":
            nm = short(r.get("name") or "")
            if nm in ("reset", "clear") and not r.get("args"):
                return "empty"
            if nm.startswith("make_unique") or nm.startswith("make_shared"):
                args = r.get("args", [])
                if len(args) == 1:
                    a = ir.unwrap(args[0])
                    # *other  (operator* of optional or builtin deref of other.data_)
                    s = fmt(a)
                    if pname and (s == "(*%s)" % pname or s == "(*%s.%s)" % (pname, short(dq))):
                        return "fresh"
                    if pname == "this" and s in ("(*%s)" % short(dq), "(*this->%s)" % short(dq), "(*(*this))", "(**this)"):
                        return "fresh"
                return "fresh?"
        if isinstance(r, dict) and r.get("k") == "cond":
            a, b = fresh(r["t"], pname, depth), fresh(r["f"], pname, depth)
            if a in ("fresh", "empty") and b in ("fresh", "empty"):
                return "fresh" if "fresh" in (a, b) else "empty"
        return None

    for f in copy_ctor + copy_asg:
        pname = f.params[0]["name"] if f.params else None
        ws = data_writes(f)
        what = "copy-ctor" if f.flags.get("copy_ctor") else "copy-assign"
        if not ws and f.flags.get("copy_ctor"):
            ctx.bad("R18.4", f, "deep-copy:" + what, "the copy constructor never initialises the storage from the source", f)
        for bid, i, e, rhs in ws:
            kind = fresh(rhs, pname)
            if kind in ("fresh", "empty"):
                ctx.ok("R18.4", f, "deep-copy:%s" % what, fmt(rhs), (f, e.get("ln")))
            elif kind == "fresh?":
                ctx.bad("R18.4", f, "deep-copy:%s" % what,
                        "storage is allocated from %s, not from the source's value (*%s)" % (fmt(rhs), pname), (f, e.get("ln")))
            else:
                ctx.bad("R18.4", f, "deep-copy:%s" % what,
                        "storage is assigned %s - not a fresh make_unique<T>(*%s): the copy shares/steals the source's object" % (fmt(rhs), pname),
                        (f, e.get("ln")))
    def _selftest_edge(f):
        """edge filter: the edge on which source and target are known to be the same object (`this == &other`, `data_.get() == std::addressof(value)`) is
        the self-assignment path - nothing has to be written there"""
        pn1 = f.params[0]["name"] if f.params else "?"

        def ok_edge(b, to, lab):
            c = f.term(b).get("cond")
            if c is None:
                return True
            t = fmt(c)
            ident = ("this" in t or "%s.get()" % short(dq) in t) and ("&%s" % pn1 in t.replace("(", "").replace(" ", "") or "addressof(%s)" % pn1 in t)
            if not ident:
                return True
            return not ((t.find("!=") >= 0 and lab == "false") or (t.find("==") >= 0 and lab == "true"))
        return ok_edge
    for f in copy_asg:
        ok, path = cfg.must_happen_before_exit(f, lambda e: any(True for w in _writes_in_elem(e, dq)), edge_ok=_selftest_edge(f))
        ctx.check(ok, "R18.4", f, "path without write to data_",
                  "copy assignment leaves the target untouched on the path B%s (source empty): assigning an empty optional does not empty the target"
                  % "->B".join(str(b) for b in (path or [])), f)
    # self-assignment (a = a through aliases): the source must not be read after the target's storage was released
    for f in copy_asg:
        pname = f.params[0]["name"] if f.params else None
        ws = [(bid, i, e) for bid, i, e, rhs in data_writes(f)]
        def reads_src(e, pname=pname):
            if e.get("expr") is None:
                return False
            return any(n.get("k") == "ref" and n.get("decl") == "param:%s" % pname for n in walk(e["expr"]))
        guarded = lambda b: bool(cfg.dominated_by_edge(f, b, lambda c: "this" in fmt(c) and "&" in fmt(c) and "!=" in fmt(c))) or \
            bool(cfg.dominated_by_edge(f, b, lambda c: "this" in fmt(c) and "&" in fmt(c) and "==" in fmt(c), "false"))
        late = []
        for bid, i, e in ws:
            if guarded(bid):
                continue
            for b2, i2, e2 in cfg.find_elems(f, reads_src):
                if e2 is e:
                    continue
                if cfg.reaches_without(f, (bid, i), lambda x, t=e2: x is t, lambda x: False) is not None:
                    late.append((e, e2))
        ctx.check(not late, "R18.4", f, "source-read-before-release",
                  "the copy assignment changes its own storage (line %s: %s) and reads the source afterwards (line %s) without a self-assignment test: for `a = a` the source is the "
                  "object just emptied, so an engaged optional silently becomes empty"
                  % ((late[0][0].get("ln"), late[0][0].get("text", "")[:40], late[0][1].get("ln")) if late else ("-", "-", "-")), f)
    # every other assignment operator (move assignment, assignment from a value) overwrites the storage on every path
    # except the self-assignment path: "assigning X" makes the target hold X's state, whatever it held before
    other_asg = [f for f in methods if f.op == "=" and not f.flags.get("copy_assign") and f.is_pattern]
    for f in other_asg:
        pn0 = f.params[0]["name"] if f.params else None
        selftest = lambda b, to, lab, f=f: not (f.term(b).get("cond") is not None and "this" in fmt(f.term(b)["cond"]) and "&" in fmt(f.term(b)["cond"])
                                            and ((fmt(f.term(b)["cond"]).find("!=") >= 0 and lab == "false") or (fmt(f.term(b)["cond"]).find("==") >= 0 and lab == "true")))
        ok, path = cfg.must_happen_before_exit(f, lambda e: any(True for w in _writes_in_elem(e, dq)), edge_ok=lambda b, to, lab, f=f: selftest(b, to, lab) and _selftest_edge(f)(b, to, lab))
        what = "move-assign" if f.flags.get("move_assign") else "assign(%s)" % (f.params[0].get("type") if f.params else "")
        ctx.check(ok, "R18.4", f, "assignment-always-overwrites:" + what,
                  "%s leaves the target's old value in place on the path B%s: after `a = b` the target does not hold b's state (an empty source does not empty the target)"
                  % (what, "->B".join(str(b) for b in (path or []))), f)
    # emptiness has ONE meaning: operator bool is true exactly when operator* would return (not raise)
    obool = [f for f in methods if (f.kind == "conversion" or f.name == "operator bool") and f.is_pattern]
    if obool and deref and any(f.is_pattern for f in deref):
        from sa import logic as _lg
        from .common import callgraph as _cgf
        lgc = _lg.Logic(prog, _cgf(ctx))
        fb = lgc.fn_formula(obool[0], {"this": None, "params": {}})
        for f in [x for x in deref if x.is_pattern]:
            # the condition under which operator* reaches its `return`
            guards = []
            for bid, i, e in f.roots():
                if e["expr"].get("k") == "return":
                    g = _lg.T
                    dom = cfg.dominators(f)
                    for d0 in dom.get(bid, ()):
                        cnd = f.term(d0).get("cond")
                        if cnd is None or d0 == bid:
                            continue
                        for to, lab in f.succs(d0):
                            if not cfg.reachable_without_edge(f, d0, to, bid):
                                fc = lgc.truthy(cnd, {"this": None, "params": {}}, 0)
                                g = _lg.And(g, fc if lab == "true" else _lg.Not(fc))
                    guards.append(g)
            if fb is not None and len(guards) == 1:
                ctx.check(_lg.equivalent(fb, guards[0], lgc.axioms), "R18.4", f, "one-notion-of-empty",
                          "operator bool is `%s` but operator* returns under `%s`: an optional that reports itself empty can still be read (stale value instead of the raise), or the reverse"
                          % (_lg.show(fb), _lg.show(guards[0])), f, why_ok="%s <=> %s" % (_lg.show(fb), _lg.show(guards[0])))
    for f in deref:
        # every dereference of data_ dominated by a non-null test; other edge raises
        n_deref = 0
        for bid, i, e in f.roots():
            for n in walk(e["expr"]):
                u = ir.as_unop(n)
                if u and u[0] == "*" and fmt(u[1]) == short(dq):
                    n_deref += 1
                    guarded = _guarded_nonnull(f, bid, short(dq))
                    ctx.check(guarded, "R18.4", f, "guarded-deref", "*%s is reached without a non-null test" % short(dq), (f, n.get("ln")))
        ctx.need("R18.4", "dereference of the storage in operator*", n_deref, 1)
        # the empty case raises: some noreturn block reachable
        raises = [b for b in f.reachable_blocks() if f.is_noreturn(b)]
        ctx.check(bool(raises), "R18.4", f, "empty-raises", "reading an empty optional does not raise", f)


def _writes_in_elem(e, dq):
    if e.get("expr") is None:
        return
    for eff, lv, n in tree_effects(e["expr"]):
        if eff in ("write", "maybe_write") and lv is not None:
            kind, key, _ = lvalue_root(lv)
            if kind == "field" and key[0] == dq and key[1] == "this":
                yield n


def _guarded_nonnull(f, bid, fname):
    """block bid is only reachable through the true edge of a test of `fname` (if (data_) / data_ != nullptr)"""
    dom = cfg.dominators(f)
    preds = f.preds()
    for d in dom.get(bid, ()):
        t = f.term(d)
        if t["kind"] != "if" or t.get("cond") is None:
            continue
        c = fmt(t["cond"])
        pos = c in (fname, "%s.operator bool()" % fname, "(%s != nullptr)" % fname, "static_cast<bool>(%s)" % fname)
        neg = c in ("(!%s)" % fname, "(!%s.operator bool())" % fname, "(%s == nullptr)" % fname)
        if not (pos or neg):
            continue
        want = "true" if pos else "false"
        succ = dict((lab, to) for to, lab in f.succs(d))
        tgt = succ.get(want)
        other = succ.get("false" if want == "true" else "true")
        if tgt is None:
            continue
        # bid must be dominated by tgt and not reachable from `other` without passing tgt
        if tgt in dom.get(bid, ()) or tgt == bid:
            return True
    return False
