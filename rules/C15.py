"""C15 - usage text lists everything once, in declaration order, on any stream.

R15.1 (A5 observation set) from parser::usage(std::ostream& s) the user's stream may flow only into operator<< insertions and
      into callees that do the same with it; any observation (tellp, tellg, seekp, rdbuf, width()/precision()/flags()/fill()
      reads, good()/fail()..., copyfmt from it, passing it to a routine that observes) on an alias of s is a violation, with the
      call chain. Private local streams may be observed freely.
R15.2 (A1/A9) group::usage iterates the creation-order list and calls format once per element; parser::usage emits the default
      group first, then group_order_ in order.
R15.3 (A5) the synopsis covers toggles, options and multi-options (all three collectors are read and each element's
      format_synopsis is emitted / its short name listed).
R15.4 (A6) base::format inserts the short name, format_name() and format_value() directly into its line buffer; description_,
      env_ (under has_env()) and format_default() flow into the text handed to the wrapping routine; the finished line is
      inserted into the target stream.
"""
import re

from sa import ir, cfg, logic, facts
from sa.ir import fmt, walk, short
from .common import NS, KINDS, callgraph, one, elem_calls

OSTREAM = re.compile(r"^std::(basic_)?ostream(<.*>)? &$")


def is_ostream_param(p):
    return bool(OSTREAM.match((p.get("type") or "").strip()))


def stream_uses(f, alias):
    """classify every use of parameter `alias` (an ostream&) in f:
    ('insert', node) | ('pass', call node, param index) | ('return', node) | ('observe', node, what)"""
    out = []
    for bid, i, e in f.roots():
        parents = {}
        for n in walk(e["expr"]):
            for ch in ir.children(n):
                parents[id(ch)] = n
        for n in walk(e["expr"]):
            if not (n.get("k") == "ref" and n.get("decl") == "param:" + alias):
                continue
            # climb through insertion chains: (s << a) << b ...
            cur = n
            while True:
                p = parents.get(id(cur))
                if p is None:
                    out.append(("return" if e["expr"].get("k") == "return" else "discard", n, None, e))
                    break
                if p.get("k") == "return":
                    out.append(("return", n, None, e))
                    break
                bo = ir.as_binop(p)
                if bo and bo[0] == "<<" and ir.unwrap(bo[1]) is ir.unwrap(cur) or (bo and bo[0] == "<<" and bo[1] is cur):
                    out.append(("insert", p, None, e))
                    cur = p
                    continue
                if p.get("k") == "call":
                    if p.get("this") is cur or ir.unwrap(p.get("this")) is cur:
                        nm = short(p.get("name") or "")
                        if nm in ("flush", "put", "write"):
                            out.append(("insert", p, None, e))
                        else:
                            out.append(("observe", p, "%s()" % nm, e))
                        break
                    args = p.get("args", [])
                    idx = None
                    for k, a in enumerate(args):
                        if a is cur or ir.unwrap(a) is cur:
                            idx = k
                    if idx is not None:
                        out.append(("pass", p, idx, e))
                        break
                if p.get("k") in ("cast", "construct", "defarg", "definit", "paren_list"):
                    cur = p
                    continue
                if p.get("k") == "decl":
                    out.append(("observe", p, "bound to a local", e))
                    break
                out.append(("observe", p, p.get("k"), e))
                break
    return out


def run(ctx):
    prog = ctx.prog
    cg = callgraph(ctx)
    for r, d in (("R15.1", "the target stream is only ever written, never observed"), ("R15.2", "creation-order bookkeeping drives the listing"),
                 ("R15.3", "the synopsis covers every kind"), ("R15.4", "an option's line carries its spellings, placeholder, description, env hint and default")):
        ctx.rule(r, d)
    usage = one(ctx, "R15.1", NS + "parser::usage")
    if not usage:
        return
    # ---- R15.1 interprocedural observation set
    work = []
    for k, p in enumerate(usage.params):
        if is_ostream_param(p):
            work.append((usage, p["name"], (usage.id,)))
    ctx.need("R15.1", "target stream parameter of parser::usage", len(work), 1)
    seen = set()
    nins = npass = 0
    while work:
        f, alias, chain = work.pop()
        key = (f.id, alias)
        if key in seen:
            continue
        seen.add(key)
        for (kind, node, extra, e) in stream_uses(f, alias):
            if kind == "insert":
                nins += 1
            elif kind in ("return", "discard"):
                pass
            elif kind == "observe":
                chain_s = " -> ".join(short(c.split("(")[0]) for c in chain)
                ctx.bad("R15.1", f, "observes-target-stream:%s" % extra,
                        "%s applies %s to the caller's stream (reached as %s): the usage text then depends on the stream it is written to and on what that stream already contains"
                        % (short(f.qual), extra, chain_s), (f, node.get("ln") or e.get("ln")), detail={"chain": list(chain)})
            elif kind == "pass":
                npass += 1
                targets = cg.targets_of(node)
                analysed = False
                for t in targets:
                    callee = prog.fn(t)
                    if callee is None or not callee.has_cfg:
                        continue
                    # which parameter receives it
                    args = node.get("args", [])
                    if extra < len(callee.params) and is_ostream_param(callee.params[extra]):
                        analysed = True
                        if callee.file.startswith("/repo/"):
                            work.append((callee, callee.params[extra]["name"], chain + (callee.id,)))
                if not analysed:
                    nm = node.get("name") or "?"
                    # a standard-library routine receiving the stream: insertion helpers are fine, anything else observes
                    if short(nm) in ("endl", "flush", "ends") or (node.get("op") == "<<"):
                        continue
                    ctx.bad("R15.1", f, "observes-target-stream:passed-to-%s" % short(nm),
                            "%s hands the caller's stream to %s, which reads its state (format flags, position or buffer)" % (short(f.qual), nm), (f, node.get("ln")), detail={"chain": list(chain)})
    from .common import fx
    g = fx(ctx, "observing")
    kinds = [(k, x) for (k, n, x, e) in stream_uses(g, "s")] if g is not None else []
    ctx.fixture("R15.1", "observing:tellp", any(k == "observe" and x == "tellp()" for k, x in kinds), True, "tellp() on the target stream recognised")
    ctx.fixture("R15.1", "observing:copyfmt", any(k == "pass" for k, x in kinds), True, "hand-over of the target stream to copyfmt recognised")
    g = fx(ctx, "write_only")
    kinds = [k for (k, n, x, e) in stream_uses(g, "s")] if g is not None else ["missing"]
    ctx.fixture("R15.1", "write_only", any(k in ("observe", "pass", "missing") for k in kinds), False, "pure insertions stay silent")
    ctx.need("R15.1", "functions receiving the target stream", len(seen), 3)
    ctx.need("R15.1", "insertions into the target stream", nins, 8)
    if not any(o.rule == "R15.1" and o.status == "violated" for o in ctx.obs):
        ctx.ok("R15.1", usage, "target-stream-write-only", "%d functions receive the target stream; %d insertions, %d hand-overs, no observation" % (len(seen), nins, npass), usage)
    ctx.tables["functions_with_target_stream"] = sorted(short(k[0].split("(")[0]) + ":" + k[1] for k in seen)

    # private streams whose state is derived from the target stream (copyfmt / rdbuf sharing)
    for fid, alias in sorted(seen):
        f = prog.fn(fid)
        for bid, i, e in f.roots():
            for n in walk(e["expr"]):
                if n.get("k") == "call" and short(n.get("name") or "") in ("copyfmt", "imbue", "rdbuf", "tie", "basic_ios", "init"):
                    if any(fmt(ir.unwrap(a)) in (alias, "%s.getloc()" % alias, "%s.rdbuf()" % alias) for a in n.get("args", [])):
                        pass  # already reported as observation through stream_uses (the alias is an argument)

    # ---- R15.2
    gu = one(ctx, "R15.2", NS + "group::usage")
    if gu:
        loops = cfg.loop_blocks(gu)
        rng = None
        for bid, i, e in gu.roots():
            x = e["expr"]
            if x.get("k") == "decl":
                for v in x.get("vars", []):
                    if v["name"].startswith("__range"):
                        rng = fmt(ir.unwrap(v.get("init")))
        ctx.check(rng == "order_", "R15.2", gu, "iterates-creation-order-list", "group::usage iterates %s instead of the creation-order list order_ (name-sorted maps lose the declaration order)" % rng, gu)
        fcalls = [(b, n) for b, i, e in gu.roots() for n in elem_calls(e) if short(n.get("name") or "") == "format"]
        inloop = [b for b, n in fcalls if any(b in body for h, body in loops)]
        ctx.check(len(fcalls) == 1 and len(inloop) == 1, "R15.2", gu, "formats-each-once", "group::usage calls format %d times (%d inside the loop)" % (len(fcalls), len(inloop)), gu)
    # order_ appended only on successful insertion: R13.1 (re-evaluated)
    from . import C13
    sub = type(ctx)(ctx.prop, ctx.prog, ctx.tier)
    sub._sharing = True
    C13.run(sub)
    n13 = 0
    for o in sub.obs:
        if o.rule == "R13.1" and ("order-list" in o.construct or "inserted-implies-listed" in o.construct):
            o.rule = "R15.2"
            ctx.obs.append(o)
            n13 += 1
    ctx.need("R15.2", "order-list obligations shared with C13", n13, 9)
    # parser::usage: default group, then group_order_
    gcalls = []
    for bid, i, e in usage.roots():
        for n in elem_calls(e):
            if n.get("name") == NS + "group::usage":
                gcalls.append((bid, i, e, fmt(n.get("this"))))
    ctx.check(len(gcalls) == 2, "R15.2", usage, "two-group-listings", "parser::usage lists groups at %d sites (expected: default group, then the loop)" % len(gcalls), usage)
    if len(gcalls) == 2:
        first = [g for g in gcalls if g[3] == "group()"]
        loopg = [g for g in gcalls if g[3] != "group()"]
        okorder = len(first) == 1 and len(loopg) == 1 and cfg.reaches_without(usage, (first[0][0], first[0][1]), lambda el, t=loopg[0][2]: el is t, lambda el: False) is not None \
            and cfg.reaches_without(usage, (loopg[0][0], loopg[0][1]), lambda el, t=first[0][2]: el is t, lambda el: False) is None
        ctx.check(okorder, "R15.2", usage, "default-group-first", "the default group is not listed before the named groups", usage)
        rng = None
        for bid, i, e in usage.roots():
            x = e["expr"]
            if x.get("k") == "decl":
                for v in x.get("vars", []):
                    if v["name"].startswith("__range") and fmt(ir.unwrap(v.get("init"))) in ("group_order_", "groups_"):
                        rng = fmt(ir.unwrap(v.get("init")))
        ctx.check(rng == "group_order_", "R15.2", usage, "groups-in-creation-order", "named groups are listed from %s instead of group_order_" % rng, usage)
    pg = one(ctx, "R15.2", NS + "parser::group", pred=lambda f: len(f.params) == 2)
    if pg:
        fe = facts.FactsEngine(prog, cg)
        IN, before = fe.analyse(pg)
        pushes = [(b, i, e, n) for b, i, e in pg.roots() for n in elem_calls(e) if short(n.get("name") or "") in ("push_back", "emplace_back") and fmt(n.get("this")) == "group_order_"]
        ctx.check(len(pushes) == 1, "R15.2", pg, "group-order-appended-once", "group_order_ is appended at %d sites" % len(pushes), pg)
        for b, i, e, n in pushes:
            ok, _ = fe.proves(pg, b, i, ("a", "res.second"))
            ctx.check(ok, "R15.2", pg, "group-order-iff-inserted", "a group is appended to group_order_ although it may already exist (it would be listed twice)", (pg, n.get("ln")))

    # the default group is found by its key, not by its position: groups_ is ordered by name, "__default" is first only while
    # every user group's name sorts behind it
    dg = [f for f in prog.methods_of(NS + "parser") if f.name == "group" and not f.params and f.has_cfg]
    pctor = [f for f in prog.methods_of(NS + "parser") if f.kind == "ctor" and f.has_cfg and not f.flags.get("move_ctor") and not f.flags.get("copy_ctor")]
    keys = set()
    for f in pctor:
        for _, _, e in f.all_elems():
            if e.get("expr") is None:
                continue
            for n in walk(e["expr"]):
                if n.get("k") == "call" and short(n.get("name") or "") in ("emplace", "insert", "try_emplace", "operator[]") and "groups_" in fmt(n.get("this") or {}):
                    keys |= {y["v"] for y in walk(n) if isinstance(y, dict) and y.get("k") == "lit" and y.get("t") == "str"}
    ctx.need("R15.2", "parser::group() accessor", len(dg), 1)
    for f in dg:
        rets = [ir.unwrap(e["expr"].get("e")) for _, _, e in f.roots() if e["expr"].get("k") == "return"]
        okk = False
        if len(rets) == 1 and isinstance(rets[0], dict):
            r = rets[0]
            lits = {y["v"] for y in walk(r) if isinstance(y, dict) and y.get("k") == "lit" and y.get("t") == "str"}
            by_key = any(y.get("k") == "call" and short(y.get("name") or "") in ("at", "find", "operator[]") and "groups_" in fmt(y.get("this") or {}) for y in walk(r))
            okk = by_key and bool(lits) and lits <= keys
        ctx.check(okk, "R15.2", f, "default-group-by-key", "parser::group() returns %s instead of the element stored under the constructor's key %s: with a group whose name sorts before that key "
                  "(\"Output\", \"1st pass\") top-level declarations land in - and usage() prints - a user group in place of the default group" % ([fmt(x)[:60] for x in rets], sorted(keys)), f,
                  why_ok="by key %s" % sorted(keys))
    # who may write the creation-order lists: the creating functions append (above / R13.1); the move operations hand the
    # whole list over; nothing else reorders, clears or rebuilds them (a rebuild from a name-sorted map loses the order)
    for cls, fld, creators in ((NS + "parser", NS + "parser::group_order_", ("group",)), (NS + "group", NS + "group::order_", ("option", "multi_option", "toggle"))):
        nwr = 0
        # a private helper that only the creating functions call appends on their behalf ("extract method")
        helpers = set()
        changed = True
        while changed:
            changed = False
            for f in prog.methods_of(cls):
                if f.name in creators or f.name in helpers or not f.has_cfg:
                    continue
                cs = [prog.fn(c0) for c0 in cg.callers(f.id)]
                cs += [prog.fn(c0) for g in prog.methods_of(cls) if strip_t(g.qual) == strip_t(f.qual) and g.id != f.id for c0 in cg.callers(g.id)]
                # calls that A0 has already spliced into their callers
                cs += [prog.fn(l0[0]) for l0 in (prog.inline_log or []) if len(l0) == 3 and l0[2] in ("statement", "expression") and strip_t(str(l0[1]).split("(")[0]) == strip_t(f.qual)]
                cs = [c0 for c0 in cs if c0 is not None]
                if cs and all(c0.cls == cls and (c0.name in creators or c0.name in helpers) for c0 in cs):
                    helpers.add(f.name)
                    changed = True
        for f in prog.methods_of(cls):
            if not f.has_cfg:
                continue
            for (w, base, n2, b2, i2, how) in cg.field_writes(f):
                if w != fld or base != "this":
                    continue
                nwr += 1
                txt = fmt(n2.get("expr")) if how == "init" and isinstance(n2, dict) and "expr" in n2 else fmt(n2)
                moved = re.search(r"move\(\w+\.%s\)" % re.escape(short(fld)), txt) is not None or re.search(r"swap\(.*%s" % re.escape(short(fld)), txt) is not None
                if (f.name in creators or f.name in helpers) and re.search(r"\.(push_back|emplace_back)\(", txt):
                    continue
                if (f.kind == "ctor" and (f.flags.get("move_ctor") or f.flags.get("copy_ctor"))) or f.flags.get("move_assign") or f.flags.get("copy_assign"):
                    if moved or re.fullmatch(r"\(?%s = \w+\.%s\)?" % (re.escape(short(fld)), re.escape(short(fld))), txt) or (how == "init" and re.fullmatch(r"\(?\w+\.%s\)?" % re.escape(short(fld)), txt)):
                        continue
                if f.kind == "ctor" and how == "init" and txt in ("vector{}", "{}", ""):
                    continue
                # a swap member: the whole list changes hands with another object of the same class (`swap(list, other.list)` / `list.swap(other.list)`), like a move in both directions
                if f.name == "swap" and len(f.params) == 1 and short(cls) in (f.params[0].get("type") or ""):
                    on = re.escape(f.params[0]["name"])
                    fl0 = re.escape(short(fld))
                    if re.fullmatch(r"\(?(std::)?swap\((this->)?%s, %s\.%s\)\)?|\(?(std::)?swap\(%s\.%s, (this->)?%s\)\)?|\(?(this->)?%s\.swap\(%s\.%s\)\)?|\(?%s\.%s\.swap\((this->)?%s\)\)?"
                                    % (fl0, on, fl0, on, fl0, fl0, fl0, on, fl0, on, fl0, fl0), txt):
                        continue
                ctx.bad("R15.2", f, "order-list-rewritten:%s@%s" % (short(fld), n2.get("ln") if isinstance(n2, dict) else "?"),
                        "%s changes the creation-order list %s with `%s`: only the creating function appends to it and a move hands it over whole; a list that is cleared, rebuilt "
                        "or reordered no longer records the order of creation (usage() lists in a different order after it)" % (short(f.qual), short(fld), txt[:80]), f)
        ctx.need("R15.2", "writes of %s" % short(fld), nwr, 1)
    # ---- R15.5: the line budget of the wrapping routine (necessary conditions of the 80-column clause)
    ctx.rule("R15.5", "format_padded's remaining-width bookkeeping: full width only at the pad column, no wrap-around, every written word is charged")
    fp = one(ctx, "R15.5", "nitro::io::terminal::format_padded")
    if fp:
        from sa.callgraph import tree_effects, lvalue_root
        loops = cfg.loop_blocks(fp)
        inloop = set()
        for h, body in loops:
            inloop |= set(body)
        # the budget: an integral local decremented inside the word loop
        decs = []
        for bid, i, e in fp.roots():
            if bid not in inloop:
                continue
            for n in walk(e["expr"], into_sc=False):
                if n.get("k") == "bin" and n["op"] in ("-=",) and ir.unwrap(n["l"]).get("k") == "ref" and ir.unwrap(n["l"]).get("decl", "").startswith("local:"):
                    decs.append((bid, i, e, n, ir.unwrap(n["l"])["decl"][6:]))
                if n.get("k") == "bin" and n["op"] == "=" and ir.unwrap(n["l"]).get("k") == "ref":
                    r = ir.unwrap(n["r"])
                    if isinstance(r, dict) and r.get("k") == "bin" and r["op"] == "-" and fmt(ir.unwrap(r["l"])) == fmt(ir.unwrap(n["l"])):
                        decs.append((bid, i, e, {"k": "bin", "op": "-=", "l": n["l"], "r": r["r"], "ln": n.get("ln")}, ir.unwrap(n["l"])["decl"][6:]))
        budgets = sorted({d[4] for d in decs})
        if len(budgets) != 1:
            ctx.broken("R15.5", fp, "budget-variable", "expected one local that is decremented per word inside the loop, found %s" % budgets, fp)
        else:
            bud = budgets[0]
            btype = None
            binit = None
            for bid, i, e in fp.roots():
                x = e["expr"]
                if x.get("k") == "decl":
                    for v in x.get("vars", []):
                        if v["name"] == bud:
                            btype, binit = v.get("type") or "", (bid, i, e, v.get("init"))
            pads = [p0["name"] for p0 in fp.params if (p0.get("type") or "") in ("int", "unsigned int", "std::size_t", "size_t", "long", "unsigned long")]
            pad, width = (pads + [None, None])[:2]

            def is_full(x):
                """max_width - left_pad (through casts and explaining variables that A0 has substituted)"""
                x = ir.unwrap(x)
                while isinstance(x, dict) and x.get("k") == "cast":
                    x = ir.unwrap(x["e"])
                return isinstance(x, dict) and x.get("k") == "bin" and x["op"] == "-" and fmt(ir.unwrap(x["l"])) == width and fmt(ir.unwrap(x["r"])) == pad

            def is_zeroish(x):
                return literal_value_(x) == 0
            # (a) the full width is granted only where the column is at most the pad: behind a line break that re-pads, or
            # under a comparison `position <= pad` of the stream's own position
            fulls = []
            if binit and binit[3] is not None and is_full(binit[3]):
                fulls.append((binit[0], binit[1], binit[2]))
            for bid, i, e in fp.roots():
                for n in walk(e["expr"], into_sc=False):
                    if n.get("k") == "bin" and n["op"] == "=" and fmt(ir.unwrap(n["l"])) == bud and is_full(n["r"]):
                        fulls.append((bid, i, e))
            ctx.need("R15.5", "grants of the full line width", len(fulls), 2)
            for bid, i, e in fulls:
                after_break = any(("endl" in fmt(e2["expr"]) or "'\\n'" in fmt(e2["expr"])) and ("setw(%s)" % pad) in fmt(e2["expr"]) for j, e2 in enumerate(fp.elems(bid)) if j < i and e2.get("expr") is not None)
                under_cmp = bool(cfg.dominated_by_edge(fp, bid, lambda c: (lambda bo: bool(bo) and bo[0] == "<=" and fmt(ir.unwrap(bo[2])) == pad and "tellp" in _resolve_text(fp, bo[1]))(ir.as_binop(ir.unwrap(c)))))
                ctx.check(after_break or under_cmp, "R15.5", fp, "full-width-only-at-pad-column@%s" % _rel(fp, e),
                          "the budget `%s` is set to the full width %s - %s at line %s although the output position is not known to be at most %s there (no line break with re-padding before it, "
                          "no `tellp() <= %s` test above it): text already on the line is not charged and the line can exceed the limit" % (bud, width, pad, e.get("ln"), pad, pad), (fp, e.get("ln")))
            # (b) no wrap-around: the budget is signed, or each decrement is dominated by `amount <= budget`
            unsigned = bool(re.search(r"unsigned|size_t|size_type", btype or ""))
            for bid, i, e, n, _ in decs:
                if not unsigned:
                    ctx.ok("R15.5", fp, "budget-cannot-wrap@%s" % _rel(fp, e), "`%s` is %s: a word longer than what is left makes it negative, which forces the next break" % (bud, btype), (fp, e.get("ln")))
                    continue
                amt = fmt(ir.unwrap(n["r"]))
                guarded = bool(cfg.dominated_by_edge(fp, bid, lambda c, amt=amt: (lambda bo: bool(bo) and ((bo[0] == "<=" and fmt(ir.unwrap(bo[1])) == amt and fmt(ir.unwrap(bo[2])) == bud) or (bo[0] == ">=" and fmt(ir.unwrap(bo[2])) == amt and fmt(ir.unwrap(bo[1])) == bud)))(ir.as_binop(ir.unwrap(c)))))
                ctx.check(guarded, "R15.5", fp, "budget-cannot-wrap@%s" % _rel(fp, e),
                          "`%s` has the unsigned type %s and `%s` is subtracted at line %s without `%s <= %s` being established on every path (the over-long-word path writes more than is left): "
                          "the budget wraps to a huge value and every following word is put on the same line" % (bud, btype, amt, e.get("ln"), amt, bud), (fp, e.get("ln")))
            # (c) every word written is charged: after an insertion of the word into the stream, the decrement happens before the next iteration
            is_dec = lambda e: any(e is d[2] for d in decs)
            for h, body in loops:
                for b in body:
                    for i, e in enumerate(fp.elems(b)):
                        if e.get("expr") is None or is_dec(e):
                            continue
                        t = fmt(e["expr"])
                        if "<<" in t and re.search(r"<< \w+\)+$", t) and not t.startswith("(s << setw") and any(v0 in t for v0 in ("word",)) or ("<<" in t and _inserts_loop_var(fp, e, body)):
                            p = cfg.reaches_without(fp, (b, i), lambda x, hh=h: False, is_dec, stop_blocks={h}) if False else None
                            ok = _dec_follows(fp, b, i, h, body, is_dec)
                            ctx.check(ok, "R15.5", fp, "written-word-is-charged@%s" % _rel(fp, e), "a word is written at line %s and the iteration can end without the budget being reduced" % e.get("ln"), (fp, e.get("ln")))
            # (d) a word stays on the current line only when it fits into what is left, or when it would not fit on a line of its
            # own either ("a single unbreakable word forces it"): every no-break path carries a comparison that implies
            #   len + 1 <= budget        or        len + 1 > width - pad
            from sa import linear
            nb = 0
            for h, body in loops:
                entry = [to for to, lab in fp.succs(h) if lab == "true" and to in body]
                if not entry:
                    continue
                for b in sorted(body):
                    for i, e in enumerate(fp.elems(b)):
                        if e.get("expr") is None or not ("<<" in fmt(e["expr"]) and _inserts_loop_var(fp, e, body)):
                            continue
                        m = re.search(r"<< (\w+)\)*$", fmt(e["expr"]))
                        wv = m.group(1) if m else "word"
                        L = "%s.size()" % wv
                        fits = ({L: 1, bud: -1}, -1)
                        forced = ({width: 1, pad: -1, L: -1}, 0)
                        paths = [[(b, None)]] if b == entry[0] else cfg.acyclic_paths(fp, entry[0], b, within=body)
                        for path in paths:
                            brk = False
                            for (pb, _) in path:
                                for j, e2 in enumerate(fp.elems(pb)):
                                    if pb == b and j > i:
                                        break
                                    t2 = fmt(e2["expr"]) if e2.get("expr") is not None else ""
                                    if "endl" in t2 or "'\\n'" in t2 or '"\\n"' in t2:
                                        brk = True
                            if brk:
                                continue
                            # the path condition in disjunctive normal form over half-space literals (a branch condition may be a
                            # whole `a || b` when the test sits in a helper / closure that A0 has inlined as an expression)
                            terms = [[]]
                            for (pb, lab) in path:
                                c = fp.term(pb).get("cond")
                                if c is None or lab not in ("true", "false"):
                                    continue
                                alts = _dnf(c, lab == "true", linear)
                                terms = [t0 + a for t0 in terms for a in alts][:64]
                            construct = "no-break-only-if-fits-or-forced@%s:B%s" % (_rel(fp, e), "-".join(str(pb) for pb, _ in path))
                            nb += len(terms)
                            verdicts = []
                            for t0 in terms:
                                hs = [x for x in t0 if not isinstance(x, str)]
                                if any(linear.implies(x, fits) or linear.implies(x, forced) for x in hs):
                                    verdicts.append(("ok", t0))
                                elif _contradictory(hs, linear):
                                    verdicts.append(("ok", t0))
                                elif any(isinstance(x, str) for x in t0):
                                    verdicts.append(("unknown", t0))
                                else:
                                    verdicts.append(("bad", t0))
                            show = lambda t0: " && ".join(x if isinstance(x, str) else linear.show(x) for x in t0) or "nothing"
                            badv = [t0 for v, t0 in verdicts if v == "bad"]
                            unk = [t0 for v, t0 in verdicts if v == "unknown"]
                            if badv:
                                ctx.bad("R15.5", fp, construct, "the word is written at line %s without a line break although nothing on that path says that it fits into what is left (%s + 1 <= %s) or that it "
                                        "would not fit on a line of its own (%s + 1 > %s - %s) [path knows: %s]: a word that exactly fills a fresh line is appended to the current one, which then "
                                        "exceeds the width although no single word forces it" % (e.get("ln"), L, bud, L, width, pad, show(badv[0])), (fp, e.get("ln")))
                            elif unk:
                                ctx.broken("R15.5", fp, construct, "the word is written without a line break under conditions that are not linear comparisons (%s): idiom not recognised" % show(unk[0]), (fp, e.get("ln")))
                            else:
                                ctx.ok("R15.5", fp, construct, "; ".join(show(t0) for _, t0 in verdicts)[:200], (fp, e.get("ln")))
            ctx.need("R15.5", "no-break paths in the word loop", nb, 2)
    # ---- R15.11: producing the text changes nothing: no data member of the parser, a group or an option is written on the usage path
    # (a cached line, a "dirty" flag, a sorted copy kept for next time make the text depend on earlier calls)
    ctx.rule("R15.11", "no data member of parser / group / option classes is written by a function reachable from usage(): the text is the same whenever and however often it is produced")
    from .common import std_lookup
    uw = []
    ureach = cg.reachable([usage.id])
    for fid in sorted(ureach):
        g = prog.fn(fid)
        if g is None or not g.has_cfg or not (g.cls or "").startswith(NS) or g.kind in ("ctor", "dtor"):
            continue
        for (w, base, n2, b2, i2, how) in cg.field_writes(g):
            if base == "this" and w.startswith(NS) and how == "write":
                # the non-const overload of a standard element accessor hands out a position and changes nothing by itself
                if std_lookup(n2):
                    continue
                uw.append((g, w, n2))
    for g, w, n2 in uw:
        ctx.bad("R15.11", g, "usage-writes-nothing:%s" % short(w), "%s writes %s (`%s`) while the usage text is produced: a later call sees what this one left behind"
                % (short(g.qual), short(w), fmt(n2)[:60] if isinstance(n2, dict) else ""), (g, n2.get("ln") if isinstance(n2, dict) else None))
    if not uw:
        ctx.ok("R15.11", usage, "usage-writes-nothing", "no member of the option classes is written on the usage path", usage)
    # ---- R15.12: what an option prints is what it was declared with
    ctx.rule("R15.12", "the texts an option prints (its name and description) are set when it is constructed: no function of parser / group - a repeated request for the same name, "
                       "a lookup, parse, usage - reaches a write of base::name_ / base::description_ on an existing option")
    TEXTS = (NS + "base::description_", NS + "base::name_")
    nscan = 0
    for g0 in sorted(prog.fns.values(), key=lambda x: x.id):
        if not g0.has_cfg or g0.cls not in (NS + "group", NS + "parser") or g0.kind in ("ctor", "dtor") or not g0.file.startswith("/repo/"):
            continue
        nscan += 1
        hit = None
        for fid in sorted(cg.reachable([g0.id])):
            h = prog.fn(fid)
            if h is None or not h.has_cfg or h.kind in ("ctor", "dtor") or not h.file.startswith("/repo/"):
                continue
            for (w, base, n2, b2, i2, how) in cg.field_writes(h):
                # (a setter spliced into its caller by the normalisation pass writes through the element, not through `this`)
                if w in TEXTS and how == "write":
                    hit = (h, w, n2)
                    break
            if hit:
                break
        if hit:
            ctx.bad("R15.12", g0, "declared-texts-kept:%s" % short(g0.qual), "%s reaches %s, which overwrites %s of an option that already exists (`%s`): the usage text no longer shows what was declared"
                    % (short(g0.qual), short(hit[0].qual), short(hit[1]), fmt(hit[2])[:50] if isinstance(hit[2], dict) else ""), (hit[0], hit[2].get("ln") if isinstance(hit[2], dict) else None))
    ctx.ok("R15.12", NS + "group", "declared-texts-kept", "%d functions of parser / group scanned, none reaches a write of an option's name or description" % nscan, "-") if nscan else None
    ctx.need("R15.12", "functions of parser / group scanned", nscan, 20)
    # ---- R15.10: usage() returns its stream: no standard-library precondition failure (erase / substr / at beyond the end) can throw
    # out of it for some declaration (an empty default list, an empty description, a one-letter name)
    ctx.rule("R15.10", "every std thrower (substr / erase / at / compare ...) reachable from usage() is discharged by the facts of its calling contexts: the text is produced for every declaration")
    from . import C04
    nthr, nctx = C04.std_thrower_obligations(ctx, "R15.10", [usage], "usage", cg,
                                             delegated=lambda g: "position arithmetic of the string helpers: R17.1 / R17.2 (re-evaluated below)" if g.file.endswith("lang/string.hpp") else None)
    if ctx.prop == "C15" and not getattr(ctx, "_sharing", False):
        from .common import share
        share(ctx, "C17", ("R17.1", "R17.2"), "R15.10", "string-helper position obligations shared with C17", 3)
    ctx.note("R15.10: %d std thrower site(s) in %d calling context(s) from usage()" % (nthr, nctx))
    ctx.need("R15.10", "calling contexts walked from usage()", nctx, 5)
    # ---- R15.6: the layout is a function of the declarations alone - fixed width, nothing read from the process environment
    ctx.rule("R15.6", "every call of the wrapping routine on the usage path passes a constant width of at most 80; nothing reachable from usage() reads the environment")
    ureach = cg.reachable([usage.id])
    # ---- R15.9: nothing on the usage path keeps state between calls
    ctx.rule("R15.9", "no function reachable from usage() keeps a function-local static / thread_local object: the text is a function of the declarations alone, also when several usage texts are produced at once")
    from .common import rule_no_static_state
    rule_no_static_state(ctx, "R15.9", lambda f: f.id in ureach and ("/options/" in f.file or f.file.endswith(("io/terminal.hpp", "lang/string.hpp", "format/format.hpp"))),
                         "usage texts produced at the same time (other parsers, other target streams, other threads) are laid out in one shared object", minimum=10)
    nw = 0
    for fid in sorted(ureach):
        g = prog.fn(fid)
        if g is None or not g.has_cfg or not g.file.startswith("/repo/"):
            continue
        for bid, i, e in g.roots():
            for n in walk(e["expr"]):
                if n.get("k") != "call":
                    continue
                nm = n.get("name") or ""
                if nm == "nitro::io::terminal::format_padded":
                    nw += 1
                    args = n.get("args", [])
                    w = args[3] if len(args) > 3 else None
                    wu = ir.unwrap(w.get("e") if isinstance(w, dict) and w.get("k") == "defarg" and w.get("e") is not None else w) if w is not None else None
                    lv = literal_value_(wu) if wu is not None else None
                    if w is None or (isinstance(w, dict) and w.get("k") == "defarg" and w.get("e") is None):
                        lv = 80  # the declared default
                    ctx.check(isinstance(lv, int) and 0 < lv <= 80, "R15.6", g, "constant-width@%s" % _rel(g, e),
                              "format_padded is called with the width `%s` at line %s: the text is laid out for a width that is not the fixed 80 columns (lines longer than 80, or text that differs "
                              "between environments)" % (fmt(w) if w is not None else "?", e.get("ln")), (g, e.get("ln")), why_ok="width %s" % lv)
                if short(nm) in ("getenv", "secure_getenv") or nm.startswith("nitro::env::get"):
                    ctx.bad("R15.6", g, "reads-environment:%s@%s" % (short(nm), _rel(g, e)), "%s calls %s on the usage() path: the text depends on the process environment, not only on the declarations"
                            % (short(g.qual), short(nm)), (g, e.get("ln")))
    ctx.need("R15.6", "calls of the wrapping routine on the usage path", nw, 2)
    ctx.rule("R15.7", "the formatter used for default / environment hints substitutes verbatim and never rescans (R08.1, R08.3, R08.4 re-evaluated): a default containing `{}` does not break usage()")
    if ctx.prop == "C15" and not getattr(ctx, "_sharing", False):
        from .common import share
        share(ctx, "C08", ("R08.1", "R08.3", "R08.4"), "R15.7", "formatter obligations shared with C08", 6)
    ctx.rule("R15.8", "parse() does not alter what usage() prints: declaration state (defaults, names, hints) is not written on the parse path (R14.1/R14.2 re-evaluated)")
    if ctx.prop == "C15" and not getattr(ctx, "_sharing", False):
        from .common import share
        share(ctx, "C14", ("R14.1", "R14.2"), "R15.8", "write-set obligations shared with C14", 6)
        share(ctx, "C13", ("R13.3", "R13.10"), "R15.8", "short-name obligations shared with C13 (a refused short name is not stored: the usage text would list a spelling that was never declared)", 3)
        share(ctx, "C13", ("R13.1", "R13.2"), "R15.8", "uniqueness obligations shared with C13 (a name declared in two groups is listed twice)", 4)
    # ---- R15.3
    used = set()
    for bid, i, e in usage.roots():
        for n in elem_calls(e):
            nm = short(n.get("name") or "")
            if nm in ("get_all_toggles", "get_all_options", "get_all_multi_options"):
                used.add(nm)
    ctx.check(used == {"get_all_toggles", "get_all_options", "get_all_multi_options"}, "R15.3", usage, "synopsis-reads-all-kinds", "the synopsis is built from %s only" % sorted(used), usage)
    syn = [n for bid, i, e in usage.roots() for n in elem_calls(e) if short(n.get("name") or "") == "format_synopsis"]
    ctx.check(len(syn) >= 3, "R15.3", usage, "synopsis-formats-every-kind", "format_synopsis is emitted at %d sites (expected toggles, options, multi-options)" % len(syn), usage)

    # what is collected for the text is kept apart by identity: a set / map with its own comparator, hash or equality on the usage
    # path merges the elements it considers equivalent (letters that differ in case, names that differ in punctuation) - one vanishes
    ncoll = 0
    for fid in sorted(ureach):
        g = prog.fn(fid)
        if g is None or not g.has_cfg or not g.file.startswith("/repo/") or "/options/" not in g.file:
            continue
        for bid, i, e in g.roots():
            x = e["expr"]
            if x.get("k") != "decl":
                continue
            for v in x.get("vars", []):
                t = (v.get("type") or "")
                m = re.match(r"(?:const )?std::(unordered_)?(multi)?(set|map)<(.*)>\s*&?$", t)
                if not m:
                    continue
                ncoll += 1
                depth, args, cur = 0, [], ""
                for ch in m.group(4):
                    if ch == "<":
                        depth += 1
                    elif ch == ">":
                        depth -= 1
                    if ch == "," and depth == 0:
                        args.append(cur)
                        cur = ""
                    else:
                        cur += ch
                args.append(cur)
                base = 1 if m.group(3) == "set" else 2
                extra = [a.strip() for a in args[base:] if not a.strip().startswith("std::allocator") and not re.match(r"std::(less|hash|equal_to)<", a.strip())]
                ctx.check(not extra, "R15.3", g, "collection-keeps-every-element:%s" % v["name"],
                          "%s collects into `%s %s`, a container with its own ordering / equality (%s): elements that compare equivalent under it are merged, so an option or letter is missing from the text"
                          % (short(g.qual), t[:80], v["name"], ", ".join(extra)[:80]), (g, x.get("ln")), why_ok=t[:60])
    ctx.need("R15.3", "associative containers on the usage path", ncoll, 1)
    # ---- R15.4
    bf = one(ctx, "R15.4", NS + "base::format")
    if bf:
        target = bf.params[0]["name"]
        buf = None
        for bid, i, e in bf.roots():
            x = e["expr"]
            if x.get("k") == "decl":
                for v in x.get("vars", []):
                    if "stringstream" in (v.get("type") or ""):
                        buf = v["name"]
        if buf is None:
            ctx.broken("R15.4", bf, "line-buffer", "base::format has no private line buffer: idiom not recognised", bf)
        else:
            txt = " ".join(fmt(e["expr"]) for _, _, e in bf.roots())
            ctx.check("short_name()" in txt and re.search(r"\(%s << \"-\"\) << short_name\(\)" % buf, txt) is not None, "R15.4", bf, "short-spelling-inserted", "the short spelling is not inserted into the line", bf)
            ins_long = lambda e: e.get("expr") is not None and re.search(r"%s\b.*<< format_name\(\)" % re.escape(buf), fmt(e["expr"])) is not None
            okl, pthl = cfg.must_happen_before_exit(bf, ins_long)
            ctx.check(okl, "R15.4", bf, "long-spelling-inserted", "format_name() is not inserted into the line on every path (B%s reaches the exit without it)" % "->B".join(map(str, pthl or [])), bf)
            ctx.check("format_value(%s)" % buf in txt, "R15.4", bf, "value-placeholder-inserted", "format_value is not applied to the line buffer", bf)
            # description parts flow into the wrapped text
            # the container handed to join(): what is appended to it, assigned to its elements or listed in its initialiser
            joined = None
            for _, _, e in bf.roots():
                for n in elem_calls(e):
                    if (n.get("name") or "").endswith("lang::join") and n.get("args"):
                        a0 = ir.unwrap(n["args"][0])
                        while isinstance(a0, dict) and a0.get("k") in ("cast", "construct") and (a0.get("e") is not None or len(a0.get("args", [])) == 1):
                            a0 = ir.unwrap(a0.get("e") if a0.get("e") is not None else a0["args"][0])
                        if isinstance(a0, dict) and a0.get("k") == "call" and short(a0.get("name") or "") in ("begin", "cbegin") and (a0.get("this") is not None or a0.get("args")):
                            a0 = ir.unwrap(a0["this"] if a0.get("this") is not None else a0["args"][0])
                        if isinstance(a0, dict) and a0.get("k") == "ref":
                            joined = fmt(a0)
            parts = [fmt(n["args"][0]) for _, _, e in bf.roots() for n in elem_calls(e) if short(n.get("name") or "") in ("push_back", "emplace_back") and n.get("args") and (joined is None or fmt(n.get("this")) == joined)]
            if joined is not None:
                for _, _, e in bf.roots():
                    for n in walk(e["expr"]):
                        if isinstance(n, dict) and ((n.get("k") == "bin" and n.get("op") == "=") or (n.get("k") == "call" and n.get("op") == "=")):
                            lhs = ir.unwrap(n["l"] if n.get("k") == "bin" else (n.get("this") if n.get("this") is not None else (n.get("args") or [None])[0]))
                            rhs = n["r"] if n.get("k") == "bin" else (n["args"][-1] if n.get("args") else None)
                            if isinstance(lhs, dict) and (lhs.get("k") == "subscript" or (lhs.get("k") == "call" and lhs.get("op") == "[]") or (lhs.get("k") == "call" and short(lhs.get("name") or "") == "at")):
                                basee = lhs.get("base") if lhs.get("k") == "subscript" else (lhs.get("this") if lhs.get("this") is not None else (lhs.get("args") or [None])[0])
                                if basee is not None and fmt(ir.unwrap(basee)) == joined and rhs is not None:
                                    r0 = ir.unwrap(rhs)
                                    while isinstance(r0, dict) and r0.get("k") in ("cast", "construct") and (r0.get("e") is not None or len(r0.get("args", [])) == 1):
                                        r0 = ir.unwrap(r0.get("e") if r0.get("e") is not None else r0["args"][0])
                                    parts.append(fmt(r0))
                    x0 = e["expr"]
                    if x0.get("k") == "decl":
                        for v0 in x0.get("vars", []):
                            if v0["name"] == joined and v0.get("init") is not None:
                                for y0 in walk(v0["init"]):
                                    if isinstance(y0, dict) and y0.get("k") == "init_list":
                                        for el0 in y0.get("elems", []):
                                            r0 = ir.unwrap(el0)
                                            while isinstance(r0, dict) and r0.get("k") in ("cast", "construct") and (r0.get("e") is not None or len(r0.get("args", [])) == 1):
                                                r0 = ir.unwrap(r0.get("e") if r0.get("e") is not None else r0["args"][0])
                                            if isinstance(r0, dict) and r0.get("k") != "init_list":
                                                parts.append(fmt(r0))
            ctx.check(any(p == "description_" for p in parts), "R15.4", bf, "description-present", "description_ does not flow into the text (%s)" % parts, bf)
            ctx.check(any("env_" in p for p in parts), "R15.4", bf, "env-hint-present", "the environment hint does not flow into the text", bf)
            ctx.check(any(p == "format_default()" for p in parts), "R15.4", bf, "default-present", "format_default() does not flow into the text", bf)
            # ... on EVERY way through the function: a line can only show the default / the environment hint / the description if that
            # path asked for it (an early return for "nothing to lay out" that skips format_default() drops the default of such options)
            for what, pred in (("format_default()", lambda e: e.get("expr") is not None and any(n.get("k") == "call" and short(n.get("name") or "") == "format_default" for n in walk(e["expr"]))),
                               ("has_env()", lambda e: e.get("expr") is not None and ("has_env()" in fmt(e["expr"]) or "env_" in fmt(e["expr"]))),
                               ("description_", lambda e: e.get("expr") is not None and "description_" in fmt(e["expr"]))):
                okp, pth = cfg.must_happen_before_exit(bf, pred)
                ctx.check(okp, "R15.4", bf, "consulted-on-every-path:" + what, "base::format can finish (B%s) without consulting %s: on that path the line cannot show it" % ("->B".join(map(str, pth or [])), what), bf)
            # the environment hint is shown for EVERY bound variable: apart from the `has_env()` test itself nothing may stand between the
            # entry and the insertion of the hint (a further condition - "unless the description already mentions it" - hides it for some options)
            def _is_hint(e):
                x = e.get("expr")
                if x is None:
                    return False
                t0 = fmt(x)
                return "env_" in t0 and ("push_back" in t0 or "emplace_back" in t0 or " = " in t0 or "<<" in t0) and "has_env()" not in t0 and "environment" in t0

            def _not_unbound_edge(b, to, lab):
                c = bf.term(b).get("cond")
                if c is None:
                    return True
                c1, neg = cfg.strip_not(c)
                t1 = fmt(ir.unwrap(c1))
                if t1 in ("has_env()", "this->has_env()"):
                    return lab != ("true" if neg else "false")
                if t1 in ("env_.empty()", "this->env_.empty()", "env().empty()"):
                    return lab != ("false" if neg else "true")
                return True
            if cfg.find_elems(bf, _is_hint):
                okh, pth = cfg.must_happen_before_exit(bf, _is_hint, edge_ok=_not_unbound_edge)
                ctx.check(okh, "R15.4", bf, "env-hint-whenever-bound", "base::format can finish (B%s) without the environment hint although a variable is bound: besides `has_env()` a further "
                          "condition guards the hint, so some options that ARE read from their variable no longer say so" % "->B".join(map(str, pth or [])), bf, why_ok="only the has_env() test guards the hint")
            else:
                ctx.broken("R15.4", bf, "env-hint-whenever-bound", "the statement that adds the environment hint was not found: idiom not recognised", bf)
            ctx.check(re.search(r"text = join\(description", txt) is not None and "format_padded(%s, text, 40, 80)" % buf in txt, "R15.4", bf, "text-wrapped-into-line", "the joined description is not handed to the wrapper on the line buffer", bf)
            ctx.check("(%s << %s.str())" % (target, buf) in txt, "R15.4", bf, "line-written-to-target", "the finished line is not inserted into the target stream", bf)
            # the private buffer must stay private: nothing of the target stream's state may be copied into it
            leaks = [fmt(n) for _, _, e in bf.roots() for n in elem_calls(e) if n.get("this") is not None and fmt(n["this"]) == buf and any(fmt(ir.unwrap(a)).startswith(target) for a in n.get("args", []))]
            ctx.check(not leaks, "R15.4", bf, "line-buffer-independent-of-target", "the line buffer takes state from the target stream (%s): padding/fill then depends on the stream the usage is written to" % leaks, bf)
    # the default hint is there for EVERY declared default (the empty string included - such an option is not required)
    from . import C03
    lg15 = logic.Logic(prog, cg)
    for k in ("option", "multi_option"):
        fd = one(ctx, "R15.4", NS + k + "::format_default")
        if not fd:
            continue
        npth = 0
        try:
            paths = cfg.acyclic_paths(fd, fd.entry, fd.exit)
        except RuntimeError:
            ctx.broken("R15.4", fd, "default-hint-for-every-default", "too many paths", fd)
            continue
        for path in paths:
            rets = [e["expr"].get("e") for (b, _) in path for e in fd.elems(b) if e.get("expr") is not None and e["expr"].get("k") == "return"]
            if len(rets) != 1:
                continue
            r = ir.unwrap(rets[0])
            empty = isinstance(r, dict) and ((r.get("k") == "construct" and not [a for a in r.get("args", []) if not (isinstance(a, dict) and a.get("k") == "defarg")])
                                             or (r.get("k") == "lit" and r.get("v") == "") or (r.get("k") == "init_list" and not r.get("elems")))
            if not empty:
                continue
            npth += 1
            conds = [C03.HAS_DEFAULT[k]]
            for (b, lab) in path:
                c = fd.term(b).get("cond")
                if c is None or lab not in ("true", "false"):
                    continue
                t = lg15.truthy(c, {}, 0)
                conds.append(t if lab == "true" else logic.Not(t))
            sat = logic.satisfiable(conds, lg15.axioms)
            ctx.check(not sat, "R15.4", fd, "default-hint-for-every-default:B%s" % "-".join(str(b) for b, _ in path),
                      "%s::format_default() returns no hint although a default is declared (%s): the option section does not show that default, the option reads as a required one"
                      % (k, " && ".join(logic.show(c) for c in conds[1:])[:200]), fd, why_ok="the empty result needs !has_default()")
        ctx.need("R15.4", "hint-less paths of %s::format_default" % k, npth, 1)
    ctx.assume("the 80-column bound, word wrapping and 'no word lost' are string arithmetic on runtime text: not decided beyond the necessary conditions R15.5 (a)-(d)")


def _dnf(c, pol, linear):
    """condition c with polarity pol as a list of conjunctions; a literal is a half-space or the text of an opaque condition"""
    c = ir.unwrap(c)
    while isinstance(c, dict) and c.get("k") == "cast":
        c = ir.unwrap(c["e"])
    if isinstance(c, dict) and c.get("k") == "un" and c.get("op") == "!":
        return _dnf(c["e"], not pol, linear)
    if isinstance(c, dict) and c.get("k") == "bin" and c.get("op") in ("&&", "||"):
        a, b = _dnf(c["l"], pol, linear), _dnf(c["r"], pol, linear)
        conj = (c["op"] == "&&") == pol
        return ([x + y for x in a for y in b] if conj else a + b)[:64]
    hs = linear.halfspace(c)
    if hs is None:
        return [[("!" if not pol else "") + fmt(c)]]
    return [[hs if pol else linear.neg(hs)]]


def _contradictory(hs, linear):
    """two half-spaces of one conjunction exclude each other (d <= c1 and -d <= c2 with c1 + c2 < 0)"""
    for x in hs:
        for y in hs:
            if x is not y and linear.implies(x, linear.neg(y)):
                return True
    return False


def strip_t(q):
    return re.sub(r"<[^<>]*>", "", q or "")


def literal_value_(x):
    from .common import literal_value
    lv = literal_value(x)
    return lv[1] if lv else None


def _resolve_text(fp, n):
    """rendering of n with single-definition locals replaced by their initialisers (one level)"""
    from sa.valueflow import local_defs
    t = fmt(ir.unwrap(n))
    for m in set(re.findall(r"[A-Za-z_]\w*", t)):
        defs = local_defs(fp, m)
        if len(defs) == 1 and defs[0][0] == "init" and defs[0][1] is not None:
            t += " ~ " + fmt(defs[0][1])
    return t


def _inserts_loop_var(fp, e, body):
    """does this element insert the range-for loop variable into a stream?"""
    names = set()
    for b in body:
        for el in fp.elems(b):
            x = el.get("expr")
            if isinstance(x, dict) and x.get("k") == "decl":
                for v in x.get("vars", []):
                    init = fmt(ir.unwrap(v.get("init"))) if v.get("init") is not None else ""
                    if "__begin" in init:
                        names.add(v["name"])
    t = fmt(e["expr"])
    return any(re.search(r"<< %s\b" % re.escape(nm), t) for nm in names)


def _dec_follows(fp, b, i, head, body, is_dec):
    """from (b, i) every path back to the loop head passes a decrement"""
    seen = set()
    st = [(b, i + 1)]
    while st:
        bb, j = st.pop()
        if (bb, j) in seen:
            continue
        seen.add((bb, j))
        hit = False
        for k in range(j, len(fp.elems(bb))):
            if is_dec(fp.elems(bb)[k]):
                hit = True
                break
        if hit:
            continue
        for to, lab in fp.succs(bb):
            if to == head:
                return False
            if to in body:
                st.append((to, 0))
    return True


def _rel(f, e):
    return "+%d" % ((e.get("ln") or f.line) - f.line)
