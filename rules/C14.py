"""C14 - parsing is repeatable: every piece of per-parse state is reset before it is read.

R14.1 (A5)  W_K = fields of K in {option, multi_option, toggle} (+ inherited) written transitively from the parse
            loop and validate_options (call graph from parser::parse, prepare path excluded).
R14.2 (A1)  K::prepare() writes every field of W_K on all normal paths with a clearing idiom / its initial value
            (effects modulo callee summaries).
R14.3 (A1)  parse calls prepare_options after check_parser_consistency, before the loop and before validate_options;
            prepare_options reaches K::prepare for every kind.
R14.4 (A5)  state of the parser object itself (and static-storage objects) written during parse is likewise reset
            at the start of parse on all paths, else a failed or earlier parse leaks into the next one.
"""
from sa import ir, cfg
from sa.ir import fmt, walk, short
from sa.callgraph import tree_effects, lvalue_root
from .common import (NS, KINDS, PARSE_VEC, callgraph, one, class_fields, class_chain, field_class, is_this,
                     receiver_is_this, elem_calls, literal_value, is_empty_temp)

CLEAR_METHODS = ("clear", "reset")


def initial_value(prog, fq):
    """literal initial value of a field: in-class initialiser, else the literal every constructor uses"""
    cname = field_class(fq)
    c = prog.cls(cname)
    if not c:
        return None
    for f in c.get("fields", []):
        if f["qual"] == fq and f.get("init") is not None:
            lv = literal_value(f["init"])
            if lv:
                return lv
    vals = set()
    for fn in prog.methods_of(cname):
        if fn.kind != "ctor" or not fn.has_cfg:
            continue
        for bid, i, e in fn.all_elems():
            if e["kind"] == "init" and e.get("field") == fq:
                vals.add(literal_value(e["expr"]))
    if len(vals) == 1:
        return vals.pop()
    return None


def classify_write(prog, n, fq):
    """for a node n that writes field fq of *this: 'reset' / 'other' plus a description"""
    k = n.get("k")
    init = initial_value(prog, fq)
    if k == "bin" and n["op"] == "=":
        lv = literal_value(n["r"])
        if lv is not None and init is not None and lv[1] == init[1]:
            return "reset", "assigns its initial value %s" % (init[1],)
        if lv is not None and init is None and lv[1] in (0, False):
            return "reset", "assigns %s" % (lv[1],)
        if is_empty_temp(n["r"]):
            return "reset", "assigns a value-initialised temporary"
        return "other", "assigns %s" % fmt(n["r"])
    if k == "call":
        op = n.get("op")
        if op == "=":
            args = n.get("args", [])
            if len(args) == 1 and is_empty_temp(args[0]):
                # the repo's own operator= must really take over the (empty) source on every path
                callee = prog.fn(n.get("callee")) if n.get("callee") else None
                if callee is not None and callee.has_cfg and callee.file.startswith("/repo/"):
                    def writes_field(e):
                        if e.get("expr") is None:
                            return False
                        for eff, lv, x in tree_effects(e["expr"]):
                            if eff in ("write", "maybe_write") and lv is not None:
                                kind, key, _ = lvalue_root(lv)
                                if kind == "field" and key[1] == "this":
                                    return True
                        return False
                    # (the source here is a temporary, never the target itself: the edge on which the operator found `this == &source` is not taken)
                    pn1 = callee.params[0]["name"] if callee.params else "?"

                    def not_self_edge(b, to, lab, callee=callee, pn1=pn1):
                        c = callee.term(b).get("cond")
                        if c is None:
                            return True
                        t = fmt(c)
                        if not (("this" in t or ".get()" in t) and ("&%s" % pn1 in t.replace("(", "").replace(" ", "") or "addressof(%s)" % pn1 in t)):
                            return True
                        return not ((t.find("!=") >= 0 and lab == "false") or (t.find("==") >= 0 and lab == "true"))
                    ok, path = cfg.must_happen_before_exit(callee, writes_field, edge_ok=not_self_edge)
                    if not ok:
                        return "other", "assigns an empty temporary through %s, which leaves the target unchanged on path B%s" % (short(callee.qual), "->B".join(map(str, path or [])))
                return "reset", "assigns a value-initialised temporary"
            return "other", "assigns %s" % fmt(args[0] if args else None)
        nm = short(n.get("name") or "")
        if nm in CLEAR_METHODS:
            args = [a for a in n.get("args", []) if not (isinstance(a, dict) and a.get("k") == "defarg")]
            if not args or all(is_empty_temp(a) for a in args):
                return "reset", "calls %s()" % nm
        return "other", "calls %s" % nm
    if k == "un":
        return "other", n["op"]
    return "other", k


def resets_field(ctx, cg, fn, fq, depth=0, memo=None):
    """does fn reset field fq of *this on every normal path? returns (True, how) / (False, path, other_writes)"""
    prog = ctx.prog
    others = []

    def pred(e):
        if e.get("expr") is None:
            return False
        for eff, lv, n in tree_effects(e["expr"]):
            if eff in ("write", "maybe_write") and lv is not None:
                kind, key, _ = lvalue_root(lv)
                if kind == "field" and key[0] == fq and key[1] == "this":
                    cl, how = classify_write(prog, n, fq)
                    if cl == "reset":
                        return True
                    others.append((n.get("ln"), how))
            if eff == "call" and n.get("k") == "call" and receiver_is_this(n) and depth < 4:
                for t in cg.targets_of(n):
                    callee = prog.fn(t)
                    if callee and callee.has_cfg and callee.id != fn.id:
                        r = resets_field(ctx, cg, callee, fq, depth + 1)
                        if r[0]:
                            return True
        return False

    ok, path = cfg.must_happen_before_exit(fn, pred)
    if ok:
        return (True, None, others)
    return (False, path, others)


def run(ctx):
    prog = ctx.prog
    cg = callgraph(ctx)
    ctx.rule("R14.1", "fields of option/multi_option/toggle written transitively from parse() (prepare path excluded)")
    ctx.rule("R14.2", "K::prepare() resets every such field on all paths with a clearing idiom or its initial value")
    ctx.rule("R14.3", "prepare_options() runs after check_parser_consistency, before the loop and validate_options, for all kinds")
    ctx.rule("R14.4", "parser members / static objects written during parse are reset at the start of parse")

    parse = one(ctx, "R14.3", NS + "parser::parse", pred=lambda f: f.id == PARSE_VEC)
    if not parse:
        return
    # the reset pass / the resolution pass of parse(): the elements whose calls reach every K::prepare() resp. K::check()
    # (today the helpers prepare_options() / validate_options(); the same passes written out inside parse() count as well)
    prep_ids = {f.id for k in KINDS for f in prog.find(NS + k + "::prepare")}
    check_ids = {f.id for k in KINDS for f in prog.find(NS + k + "::check")}
    _reach_memo = {}

    def call_reaches(n, goal):
        tg = tuple(sorted(cg.targets_of(n)))
        if not tg:
            return False
        r = _reach_memo.get(tg)
        if r is None:
            r = cg.reachable(list(tg))
            _reach_memo[tg] = r
        return bool(goal) and goal <= r

    is_prep = lambda e: any(call_reaches(n, prep_ids) for n in elem_calls(e))
    is_val = lambda e: any(call_reaches(n, check_ids) for n in elem_calls(e))
    prep_roots = set()
    for _, _, e in cfg.find_elems(parse, is_prep):
        for n in elem_calls(e):
            if call_reaches(n, prep_ids):
                prep_roots |= set(cg.targets_of(n))
    if not prep_roots:
        ctx.bad("R14.3", parse, "reset-pass-present", "parse(const std::vector<user_input>&) - the entry point that applies the tokens, public in its own right - contains no call that reaches "
                "option/multi_option/toggle::prepare(): values, counts and dirty flags of an earlier parse are carried into this one", parse)
        return
    if not ctx.anchor("R14.3", "resolution pass in parse()", bool(cfg.find_elems(parse, is_val))):
        return
    prep_fns = [prog.fn(t) for t in sorted(prep_roots) if prog.fn(t) is not None]
    prep_opts = prep_fns[0]

    # ---- R14.1: write sets
    reach = cg.reachable([parse.id], stop=set(prep_roots))
    reach -= set(prep_roots)
    kind_fields = {}
    for k in KINDS:
        if not ctx.anchor("R14.1", NS + k, prog.cls(NS + k) is not None):
            return
        kind_fields[k] = class_fields(prog, NS + k)
    W = {k: {} for k in KINDS}  # kind -> field -> [(fn, node)]
    for fid in sorted(reach):
        f = prog.fn(fid)
        if not f or not f.has_cfg or f.kind == "ctor":
            continue
        # which kinds can `this`/the written object be? by the class the function belongs to
        for (fq, base, n, bid, i, how) in cg.field_writes(f):
            for k in KINDS:
                if fq in kind_fields[k]:
                    # a write in a method of class C concerns kind k if C is in k's chain (or outside the hierarchy)
                    chain = class_chain(prog, NS + k)
                    if f.cls and f.cls.startswith(NS) and f.cls not in chain and f.cls in sum(
                            [class_chain(prog, NS + kk) for kk in KINDS], []):
                        continue
                    W[k].setdefault(fq, []).append((f, n))
    total = sum(len(v) for v in W.values())
    ctx.need("R14.1", "per-parse fields written from parse()", total, 6)
    ctx.tables["W"] = {k: sorted(short(f) for f in W[k]) for k in KINDS}
    for k in KINDS:
        for fq, ws in sorted(W[k].items()):
            ctx.ok("R14.1", NS + k, "per-parse-field:" + short(fq),
                   "written by " + ", ".join(sorted({short(f.qual) for f, _ in ws})), ws[0][0].site)

    # ---- R14.2: prepare() resets W_K
    nprep = 0
    for k in KINDS:
        prep = one(ctx, "R14.2", NS + k + "::prepare")
        if not prep:
            continue
        nprep += 1
        for fq in sorted(W[k]):
            ok, path, others = resets_field(ctx, cg, prep, fq)
            writers = ", ".join(sorted({short(f.qual) for f, _ in W[k][fq]}))
            if ok:
                ctx.ok("R14.2", prep, "reset:" + short(fq), "reset on every path", prep)
            elif others:
                ctx.bad("R14.2", prep, "no-reset:" + short(fq),
                        "%s is written during parse (%s) but prepare() only %s - not its initial value/clearing idiom"
                        % (short(fq), writers, "; ".join(h for _, h in others)), prep,
                        detail={"path_without_reset": path})
            else:
                ctx.bad("R14.2", prep, "no-reset:" + short(fq),
                        "%s is written during parse (%s) and %s::prepare() does not reset it (path B%s reaches the exit without a reset): "
                        "a second parse() on the same parser sees the previous value"
                        % (short(fq), writers, k, "->B".join(str(b) for b in (path or []))), prep,
                        detail={"path_without_reset": path})
    ctx.need("R14.2", "prepare() overriders", nprep, 3)

    # ---- R14.3: ordering in parse
    def calls(qual):
        return lambda e: any(n.get("name") == qual for n in elem_calls(e))

    is_cons = calls(NS + "parser::check_parser_consistency")
    preps = cfg.find_elems(parse, is_prep)
    ctx.need("R14.3", "prepare_options() call in parse", len(preps), 1)
    if preps:
        loops = cfg.loop_blocks(parse)
        ctx.need("R14.3", "token loop in parse", len(loops), 1)
        # every path to any loop-body element / validate call passes prepare_options first
        loop_body = set()
        for h, body in loops:
            loop_body |= body

        def in_loop_or_validate(e, _cache={}):
            return is_val(e)

        ok, path = cfg.must_precede(parse, is_prep, is_val)
        ctx.check(ok, "R14.3", parse, "prepare-before-validate", "a path reaches validate_options() without prepare_options()",
                  parse, detail={"path": path})
        # loop head reached only after prepare: emulate by asking whether the loop head block is reachable w/o prepare
        for h, body in loops:
            reach_wo = cfg.reaches_without(parse, (parse.entry, -1), lambda e: False, is_prep)
            # reaches_without with no dst never returns; compute block reachability manually
            seen = _blocks_reachable_without(parse, is_prep)
            ctx.check(h not in seen, "R14.3", parse, "prepare-before-loop",
                      "the token loop is reachable without calling prepare_options()", (parse, None))
        ok, path = cfg.must_precede(parse, is_cons, is_prep)
        ctx.check(ok, "R14.3", parse, "consistency-before-prepare",
                  "prepare_options() can run before check_parser_consistency()", parse)
    # all kinds visited
    preach = cg.reachable(sorted(prep_roots))
    for k in KINDS:
        fs = prog.find(NS + k + "::prepare")
        ctx.check(bool(fs) and fs[0].id in preach, "R14.3", prep_opts, "visits:" + k,
                  "prepare_options() does not reach %s::prepare()" % k, prep_opts)

    # ... unconditionally: in every instantiation of the visiting lambda the call of prepare() happens on all paths
    vis = [g for g in prog.fns.values() if g.kind == "lambda" and g.has_cfg and g.flags.get("instantiation") and g.id in preach
           and any(short(n.get("name") or "") == "prepare" for _, _, e in g.roots() for n in elem_calls(e))]
    ctx.need("R14.3", "instantiations of the visiting lambda in prepare_options()", len(vis), 3)
    for g in vis:
        okp, path = cfg.must_happen_before_exit(g, lambda e: any(short(n.get("name") or "") == "prepare" for n in elem_calls(e)))
        kind = short((g.params[0].get("type") or "?").replace("&", "").strip()) if g.params else "?"
        ctx.check(okp, "R14.3", g, "prepare-unconditional:" + kind, "prepare_options() skips prepare() for some %s objects (path B%s): state that check() stored without marking the option as "
                  "given - a default - is not reset and outranks the environment / blocks the command line in the next parse" % (kind, "->B".join(map(str, path or []))), g)
    # ---- R14.4: parser's own state and statics
    pfields = class_fields(prog, NS + "parser")
    full_reach = cg.reachable([parse.id])
    written = {}
    statics = {}
    for fid in sorted(full_reach):
        f = prog.fn(fid)
        if not f or not f.has_cfg:
            continue
        if f.kind == "ctor" and f.cls == NS + "parser":
            continue
        for (fq, base, n, bid, i, how) in cg.field_writes(f):
            if fq in pfields and how != "init":
                written.setdefault(fq, []).append((f, n))
        for (key, n, bid, i) in cg.static_writes(f):
            statics.setdefault(key, []).append((f, n))
    loops = cfg.loop_blocks(parse)
    for fq, ws in sorted(written.items()):
        # must be reset in parse before the loop on all paths
        ok = False
        if loops:
            def resets(e, fq=fq):
                if e.get("expr") is None:
                    return False
                for eff, lv, n in tree_effects(e["expr"]):
                    if eff in ("write", "maybe_write") and lv is not None:
                        kind, key, _ = lvalue_root(lv)
                        if kind == "field" and key[0] == fq and key[1] == "this" and classify_write(prog, n, fq)[0] == "reset":
                            return True
                    if eff == "call" and n.get("k") == "call" and receiver_is_this(n):
                        for t in cg.targets_of(n):
                            callee = prog.fn(t)
                            if callee and callee.has_cfg and callee.id != parse.id and resets_field(ctx, cg, callee, fq)[0]:
                                return True
                return False
            seen = _blocks_reachable_without(parse, resets)
            ok = all(h not in seen for h, _ in loops)
        ctx.check(ok, "R14.4", parse, "parser-state:" + short(fq),
                  "parser::%s is written during parse (in %s) but not reset at the start of parse() on every path - "
                  "an earlier (possibly failed) parse leaks into the next" % (short(fq), ", ".join(sorted({short(f.qual) for f, _ in ws}))),
                  ws[0][0].site if hasattr(ws[0][0], "site") else parse)
    for key, ws in sorted(statics.items()):
        ctx.bad("R14.4", ws[0][0], "static-write:" + str(key),
                "static-storage object %s is written on the parse path (%s)" % (key, short(ws[0][0].qual)), ws[0][0])
    from .common import fx
    g = fx(ctx, "counts_calls")
    ctx.fixture("R14.4", "counts_calls", g is not None and bool(cg.static_writes(g)), True, "write to a static-storage object recognised")
    if not written and not statics:
        ctx.ok("R14.4", parse, "no-parser-or-static-state",
               "no member of parser and no static-storage object is written on the parse path (%d functions scanned)" % len(full_reach), parse)
    # ---- R14.5: parse() leaves the parser object itself alone. Everything a parse produces lives in the options (reset by the prepare
    # pass) and in locals; a data member of parser that parse() writes - a remembered verdict, an index, a counter - is state that
    # the next call starts from
    ctx.rule("R14.5", "no data member of parser is written on the parse path: the parser object is the same before and after a parse (caches, verdicts and counters kept in it leak into the next call)")
    from .common import PARSE_ARGV, std_lookup
    pwrites = []
    for fid in sorted(cg.reachable([parse.id] + ([PARSE_ARGV] if prog.fn(PARSE_ARGV) is not None else []))):
        g = prog.fn(fid)
        if g is None or not g.has_cfg or g.cls != NS + "parser" or g.kind in ("ctor", "dtor"):
            continue
        for (w, base, n2, b2, i2, how) in cg.field_writes(g):
            if base == "this" and w.startswith(NS + "parser::") and how == "write" and not std_lookup(n2):
                pwrites.append((g, w, n2))
    for g, w, n2 in pwrites:
        ctx.bad("R14.5", g, "parser-unchanged-by-parse:%s" % short(w), "%s writes parser::%s (`%s`) on the parse path: what one parse leaves there is what the next parse on the same object starts from - "
                "a freshly built identical parser would decide differently" % (short(g.qual), short(w), fmt(n2)[:60] if isinstance(n2, dict) else ""), (g, n2.get("ln") if isinstance(n2, dict) else None))
    if not pwrites:
        ctx.ok("R14.5", parse, "parser-unchanged-by-parse", "no parser member is written by the functions reachable from parse()", parse)
    # ---- R14.6: the groups are part of the declaration, not of a parse. A data member of group that the token loop writes - a
    # remembered selection, a counter - is per-parse state like the options' values; it has to be put back for EVERY group the parser
    # owns (parser::groups_, which includes the default group that group_order_ does not list) by the reset pass
    ctx.rule("R14.6", "a data member of group written on the parse path is reset by the reset pass for every element of parser::groups_ (the default group included)")
    import re as _re
    gfields = class_fields(prog, NS + "group")
    ctx.need("R14.6", "data members of group", len(gfields), 4)

    def _range_of(g, n):
        """the member the range-for iterates whose element the written object `n` (the lvalue of the write) belongs to"""
        base = n
        txt = fmt(base)
        m = _re.search(r"__begin(\d+)", txt)
        decls = {v["name"]: v for _, _, e in g.all_elems() if isinstance(e.get("expr"), dict) and e["expr"].get("k") == "decl" for v in e["expr"].get("vars", [])}
        hops = 0
        while m is None and hops < 4:
            hops += 1
            names = [x["decl"].split(":", 1)[1] for x in walk(base) if x.get("k") == "ref" and x["decl"].startswith("local:")]
            nxt = next((decls[x] for x in names if x in decls and decls[x].get("init") is not None), None)
            if nxt is None:
                return None
            base = nxt["init"]
            m = _re.search(r"__begin(\d+)", fmt(base))
        if m is None:
            return None
        rv = decls.get("__range" + m.group(1))
        if rv is None or rv.get("init") is None:
            return None
        kind, key, _ = lvalue_root(rv["init"])
        return key[0] if kind == "field" else None

    gw = {}
    greset = {}
    for fid in sorted(full_reach):
        g = prog.fn(fid)
        if g is None or not g.has_cfg or g.kind in ("ctor", "dtor"):
            continue
        for (w, base, n2, b2, i2, how) in cg.field_writes(g):
            if w not in gfields or how != "write" or std_lookup(n2):
                continue
            if fid in preach and classify_write(prog, n2, w)[0] == "reset":
                lv = n2.get("l") if n2.get("k") == "bin" else (n2.get("this") or (n2.get("args") or [None])[0])
                greset.setdefault(w, []).append((g, n2, base, _range_of(g, lv) if base != "this" else "this"))
            elif fid in reach:
                gw.setdefault(w, []).append((g, n2))
    for w, ws in sorted(gw.items()):
        g0, n0 = ws[0]
        rs = greset.get(w, [])
        whole = [r for r in rs if r[3] == NS + "parser::groups_"]
        # a reset written in a member function of group (base `this`) covers the groups that function is called for
        for g, n2, base, rng in rs:
            if rng != "this":
                continue
            for caller in sorted(cg.callers(g.id)):
                cf = prog.fn(caller)
                if cf is None or caller not in preach:
                    continue
                for st in cg.sites[caller]:
                    if g.id in st["targets"] and st["node"].get("this") is not None and _range_of(cf, st["node"]["this"]) == NS + "parser::groups_":
                        whole.append((g, n2, base, NS + "parser::groups_"))
        if whole:
            ctx.ok("R14.6", g0, "group-state-reset-for-all:" + short(w), "written on the parse path, reset for every element of parser::groups_ by %s" % short(whole[0][0].qual), g0)
        elif rs:
            ctx.bad("R14.6", rs[0][0], "group-state-reset-for-all:" + short(w),
                    "group::%s is written while the tokens are applied (%s, `%s`) and the reset pass puts it back only for the groups in %s: the parser's "
                    "own default group - where parser::option()/toggle() declare - is an element of parser::groups_ only, so what one parse leaves in it "
                    "is what the next parse on the same object starts from" % (short(w), short(g0.qual), fmt(n0)[:50], ", ".join(sorted({short(str(r[3])) for r in rs}))),
                    (rs[0][0], rs[0][1].get("ln")))
        else:
            ctx.bad("R14.6", g0, "group-state-reset-for-all:" + short(w),
                    "group::%s is written while the tokens are applied (%s, `%s`) and nothing the reset pass reaches puts it back: a second parse() on the same "
                    "parser starts from what the first one left" % (short(w), short(g0.qual), fmt(n0)[:50]), (g0, n0.get("ln")))
    if not gw:
        ctx.ok("R14.6", parse, "groups-unchanged-by-parse", "no data member of group (%d members) is written by the %d functions reachable from parse()" % (len(gfields), len(full_reach)), parse)
    # ---- R14.4: the argument strings are read before anything of the previous call is released. argv may point INTO the previous
    # result (`first.get("output").c_str()` forwarded to the next call): the reset pass frees those strings
    ctx.rule("R14.4", "in parse(argc, argv) no read of argv is reachable after the reset pass (the arguments are copied into tokens first, then the previous values are released)")
    from .common import PARSE_ARGV
    pa = prog.fn(PARSE_ARGV)
    if ctx.anchor("R14.4", PARSE_ARGV, pa is not None and pa.has_cfg):
        argv = pa.params[1]["name"] if len(pa.params) > 1 else "argv"
        reads_argv = lambda e: isinstance(e.get("expr"), dict) and any(isinstance(y, dict) and y.get("k") == "ref" and y.get("decl") == "param:" + argv for y in walk(e["expr"]))
        resets = cfg.find_elems(pa, is_prep)
        nreads = len(cfg.find_elems(pa, reads_argv))
        ctx.need("R14.4", "reads of argv in parse(argc, argv)", nreads, 1)
        bad4 = None
        for (b0, i0, e0) in resets:
            if reads_argv(e0):
                continue  # the call that hands the finished tokens on
            p4 = cfg.reaches_without(pa, (b0, i0), reads_argv, lambda e: False)
            if p4 is not None:
                bad4 = (e0, p4)
        ctx.check(bad4 is None, "R14.4", pa, "arguments-read-before-reset",
                  "parse(argc, argv) runs the reset pass (line %s) and reads argv afterwards (B%s): argument strings that point into the previous result of this parser are freed before they are copied - "
                  "the outcome depends on the earlier call" % ((bad4[0].get("ln"), "->B".join(map(str, bad4[1]))) if bad4 else ("-", "-")), pa, why_ok="argv is consumed before any reset")
    ctx.assume("an earlier `arguments` object aliases option state by design (it holds pointers); not covered")


def _blocks_reachable_without(fn, barrier):
    """blocks whose *start* is reachable from the entry without passing an element satisfying barrier"""
    seen = set()
    st = [fn.entry]
    while st:
        b = st.pop()
        if b in seen:
            continue
        seen.add(b)
        if any(barrier(e) for e in fn.elems(b)):
            continue
        if fn.is_noreturn(b):
            continue
        for to, _ in fn.succs(b):
            st.append(to)
    return seen
