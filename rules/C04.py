"""C04 - bad user input always ends in the user-input error (parsing_error); nothing else escapes parse().

R04.1 (A5+A2+A3) every raise/throw site reachable from either parse() overload, in its calling context, either raises
        parsing_error or is proven unreachable: the guard's precondition is established on every path of every call
        chain (context-sensitive must-facts; predicate definitions inlined). Standard-library throwers on the parse path
        (substr, at, stoi, regex from non-literal ...) need a discharged justification from the frozen table.
R04.2 (A2) `*next` and the extra `++it` in try_parse_as_option happen only under `next != end`.
R04.3 (A1/A3) the eight documented rejection conditions each still have a raising guard of type parsing_error.
R04.4 (A8) the token-syntax regex literal is a well-formed ECMAScript regex (no regex_error at construction).
"""
import re

from sa import ir, cfg, logic, facts, context
from sa.ir import fmt, walk, short
from sa.logic import canon, subst, Not
from .common import NS, KINDS, PARSE_VEC, PARSE_ARGV, callgraph, one, elem_calls, bodies_of

ALLOWED = NS + "parsing_error"

# frozen exemption: one named symbol, with the reason (and the reason is *checked* below)
EXEMPT_RAISE = {
    # the duplicate-letter raise: its guard reads only declaration state (base::short_), never the arguments/environment
    "nitro::options::parser::check_parser_consistency": "declaration-state guard",
}

STD_THROWERS = [
    # (regex on callee qualified name, what it throws)
    (r"^std::(__cxx11::)?basic_string<.*>::substr$", "std::out_of_range"),
    (r"^std::(__cxx11::)?basic_string<.*>::(at|insert|erase|replace|compare|copy)$", "std::out_of_range"),
    (r"^std::(vector|deque|array|map|unordered_map|basic_string_view)<.*>::at$", "std::out_of_range"),
    (r"^std::(__cxx11::)?(stoi|stol|stoll|stoul|stoull|stof|stod|stold)$", "std::invalid_argument/std::out_of_range"),
    (r"^std::optional<.*>::value$", "std::bad_optional_access"),
    (r"^std::get$", "std::bad_variant_access"),
    (r"^std::function<.*>::operator\(\)$", "std::bad_function_call"),
    (r"^std::bitset<.*>::(set|reset|flip|test)$", "std::out_of_range"),
    (r"^std::locale::locale$", "std::runtime_error"),
    (r"^std::(__cxx11::)?(vector|basic_string|deque)<.*>::(reserve|resize)$", "std::length_error"),
    (r"^std::basic_ios<.*>::exceptions$", "enables stream exceptions"),
]


def exc_of_raise(n):
    """exception type of a raise<E>(...) call node / throw node"""
    if n.get("k") == "throw":
        return (n.get("type") or "?").replace("class ", "")
    cid = n.get("callee") or ""
    m = re.search(r"#<([^,<>]+(?:<[^<>]*>)?)", cid)
    if m and (n.get("name") or "").endswith("except::raise"):
        return m.group(1).strip()
    return None


def raise_nodes(fn, bid):
    out = []
    for e in fn.elems(bid):
        if e.get("expr") is None:
            continue
        for n in walk(e["expr"], into_sc=False):
            if n.get("k") == "throw":
                out.append((n, exc_of_raise(n), e))
            elif n.get("k") == "call" and (n.get("name") or "") == "nitro::except::raise":
                out.append((n, exc_of_raise(n), e))
    return out


def site_ordinal(fn, bid):
    """position-free index of a raise block within its function: ordinal by source order"""
    rb = sorted([b for b in fn.blocks if fn.is_noreturn(b) and raise_nodes(fn, b)],
                key=lambda b: min([e.get("ln", 0) for e in fn.elems(b)] or [0]))
    return rb.index(bid) if bid in rb else -1


def _rel_line(fn, ln):
    return "+%d" % ((ln or fn.line) - fn.line)


def _developer_text(prog, f, a):
    """the text is a string literal or the pattern text a nitro::format object was built with (a literal on the parse path: R04.1)"""
    from sa.callgraph import lvalue_root
    u = ir.unwrap(a)
    if isinstance(u, dict) and u.get("k") == "lit":
        return True
    while isinstance(u, dict):
        if u.get("k") == "call" and u.get("this") is not None and short(u.get("name") or "") in ("begin", "end", "cbegin", "cend", "c_str", "data"):
            u = ir.unwrap(u["this"])
        elif u.get("k") in ("construct", "cast") and len(u.get("args", [u.get("e")])) == 1:
            u = ir.unwrap(u["args"][0] if u.get("k") == "construct" else u.get("e"))  # iterator -> const_iterator conversion, a copy
        elif u.get("k") == "ref" and str(u.get("decl", "")).startswith("local:"):
            # a local that holds an iterator into / a copy of the pattern text
            nm = u["decl"][6:]
            init = None
            for _, _, e in f.roots():
                x = e["expr"]
                if x.get("k") == "decl":
                    for v in x.get("vars", []):
                        if v["name"] == nm and v.get("init") is not None:
                            init = ir.unwrap(v["init"])
            if init is None:
                break
            u = init
        else:
            break
    kind, key, _ = lvalue_root(u) if isinstance(u, dict) else ("other", None, None)
    return kind == "field" and key[1] == "this" and f.file.endswith("format/format.hpp") and (f.cls or "").split("<")[0].endswith("formatter")


def _rolls_back_own_insertion(g, erase_call, fld):
    """`M.erase(res.first)` where `res` is the local result of `M.emplace(..)` / `M.insert(..)` on the same member in the same function: the
    iterator names the element that call inserted (`res.second` is tested before by the usual shape; an element that existed before is not
    touched by erasing a fresh insertion's iterator only if the insertion happened - when it did not, `res.first` names the OLD element, so
    the erase has to sit under the `res.second` edge or in a handler inside it)"""
    args = [a for a in erase_call.get("args", []) if not (isinstance(a, dict) and a.get("k") == "defarg")]
    if len(args) != 1:
        return False
    a = ir.unwrap(args[0])
    while isinstance(a, dict) and a.get("k") in ("cast", "construct") and (a.get("e") is not None or len(a.get("args", [])) == 1):
        a = ir.unwrap(a.get("e") if a.get("e") is not None else a["args"][0])
    if not (isinstance(a, dict) and a.get("k") == "member" and short(a.get("field") or "") == "first"):
        return False
    base = ir.unwrap(a.get("base"))
    if not (isinstance(base, dict) and base.get("k") == "ref" and str(base.get("decl", "")).startswith("local:")):
        return False
    nm = base["decl"][6:]
    ok_init = False
    for _, _, e in g.all_elems():
        x = e.get("expr")
        if isinstance(x, dict) and x.get("k") == "decl":
            for v in x.get("vars", []):
                if v["name"] == nm and v.get("init") is not None:
                    i0 = ir.unwrap(v["init"])
                    while isinstance(i0, dict) and i0.get("k") in ("cast", "construct") and (i0.get("e") is not None or len(i0.get("args", [])) == 1):
                        i0 = ir.unwrap(i0.get("e") if i0.get("e") is not None else i0["args"][0])
                    ok_init = isinstance(i0, dict) and i0.get("k") == "call" and short(i0.get("name") or "") in ("emplace", "insert", "try_emplace") \
                        and isinstance(ir.unwrap(i0.get("this")), dict) and ir.unwrap(i0["this"]).get("field") == fld
    if not ok_init:
        return False
    # position: inside the source range of an `if (res.second)` true arm - the erase's line lies between the condition and the end of the arm.
    # (handler blocks have no CFG edges; the source range of the guarded statement is what the facts give)
    ln = erase_call.get("ln") or 0
    for bid in g.blocks:
        c = g.term(bid).get("cond")
        if c is not None and fmt(ir.unwrap(c)) == "%s.second" % nm:
            tl = g.term(bid).get("ln") or 0
            arms = [to for to, lab in g.succs(bid) if lab == "true"]
            joins = [to for to, lab in g.succs(bid) if lab == "false"]
            # the first statement line of the false successor (the join / else part) bounds the true arm from below
            after = min([e0.get("ln") for to in joins for e0 in g.elems(to) if e0.get("ln")] or [10 ** 9])
            if arms and tl <= ln < after:
                return True
    return False


def _bounded_stack(ctx, prog, cg, entries):
    """R04.12: libstdc++'s std::regex executor is a backtracking matcher that calls itself once per matched character
    (_M_dfs -> _M_rep_once_more -> _M_dfs ...): a token of some ten thousand characters - well inside what execve() passes in one
    argument - exhausts the stack, the process dies with SIGSEGV instead of returning or raising the user-input error."""
    from .common import regex_runs, fx
    ctx.rule("R04.12", "stack use on the parse path does not grow with the length of an argument: every std::regex run reachable from parse() is over developer-supplied "
                       "text (a literal, the pattern text of nitro::format), never over a token, value or environment word; no library function on the path calls itself")
    reach = cg.reachable([e.id for e in entries])
    scanned = 0
    nruns = 0
    for fid in sorted(reach):
        f = prog.fn(fid)
        if f is None or not f.has_cfg or not f.file.startswith("/repo/"):
            continue
        scanned += 1
        for n, nm, subj in regex_runs(f):
            nruns += 1
            ok = all(_developer_text(prog, f, a) for a in subj)
            ctx.check(ok, "R04.12", f, "regex-over-input:%s:%s" % (short(f.qual), nm),
                      "%s runs std::%s over `%s`, text that comes from the command line or the environment: the matcher recurses once per character, a token of a few ten thousand "
                      "characters overflows the stack (SIGSEGV, no parsing_error)" % (short(f.qual), nm, ", ".join(fmt(ir.unwrap(a))[:40] for a in subj)), (f, n.get("ln")),
                      why_ok="over " + ", ".join(fmt(ir.unwrap(a))[:30] for a in subj))
        # direct or mutual recursion among the library's own functions
        if fid in cg.edges.get(fid, ()):
            ctx.bad("R04.12", f, "recursion:%s" % short(f.qual), "%s calls itself on the parse path: its depth follows the input" % short(f.qual), f)
        else:
            back = [t for t in cg.edges.get(fid, ()) if t != fid and t in reach and prog.fn(t) is not None and prog.fn(t).file.startswith("/repo/") and fid in cg.reachable([t])]
            if back:
                ctx.bad("R04.12", f, "recursion:%s" % short(f.qual), "%s and %s call each other on the parse path: the depth follows the input" % (short(f.qual), short(prog.fn(back[0]).qual)), f)
    ctx.ok("R04.12", entries[0], "no-recursion-on-parse-path", "%d library functions reachable from parse(), none on a call cycle other than those reported" % scanned, entries[0])
    ctx.need("R04.12", "library functions reachable from parse()", scanned, 40)
    g = fx(ctx, "matches_token")
    ctx.fixture("R04.12", "matches_token", g is not None and any(not all(_developer_text(prog, g, a) for a in subj) for n, nm, subj in regex_runs(g)), True, "regex_match over a parameter recognised")
    g = fx(ctx, "pattern_holder::has_hole")
    ctx.fixture("R04.12", "has_hole", g is not None and len(regex_runs(g)) == 1, True, "regex_search over a member recognised as a run")
    g = fx(ctx, "letters")
    ctx.fixture("R04.12", "letters", g is not None and g.id in cg.edges.get(g.id, ()), True, "self-recursion recognised")


def run(ctx):
    prog = ctx.prog
    cg = callgraph(ctx)
    ctx.rule("R04.1", "no exception type other than parsing_error is reachable from parse() in any calling context")
    ctx.rule("R04.2", "*next / ++it in try_parse_as_option only under next != end")
    ctx.rule("R04.3", "each documented rejection condition has a raising guard of type parsing_error")
    ctx.rule("R04.4", "the token syntax check cannot fail in any other way: a regex literal is well-formed; a check written out by hand reads in bounds, ends only in parsing_error and refuses exactly the malformed dash tokens")

    entries = []
    for pid in (PARSE_VEC, PARSE_ARGV):
        f = prog.fn(pid)
        if ctx.anchor("R04.1", pid, f is not None and f.has_cfg):
            entries.append(f)
    if not entries:
        return

    fe = facts.FactsEngine(prog, cg)
    lg = fe.lg
    sites = {}  # (fn id, ordinal) -> dict(exc, reach: [(chain, facts)], unreach: n, fn, bid)
    throwers = {}  # (fn id, callee name, canon(args)) -> dict
    ncontexts = 0
    formats = {}  # nitro::format(...) calls on the parse path

    ctx_inits = {}  # call chain (tuple) -> facts inherited at the entry of its last function

    def on_context(fn, env, envkey, init, chain, IN, before):
        ctx_inits.setdefault(tuple(chain), set()).update(logic.show(f0) for f0 in (init or ()))  # one chain can be walked in several contexts
        if not fn.file.startswith("/repo/"):
            return
        for bid in fn.blocks:
            if not fn.is_noreturn(bid):
                continue
            rn = raise_nodes(fn, bid)
            if not rn:
                continue
            n, exc, e = rn[0]
            key = (fn.id, site_ordinal(fn, bid))
            s = sites.setdefault(key, {"exc": exc, "reach": [], "unreach": 0, "fn": fn, "bid": bid, "ln": e.get("ln"), "text": e.get("text", "")})
            if bid in IN:
                s["reach"].append((chain, sorted(logic.show(f) for f in IN[bid])))
            else:
                s["unreach"] += 1

    def on_call(fn, bid, idx, n, env, envkey, init, chain, st):
        nm = n.get("name") or ""
        if n.get("k") == "construct":
            nm = (n.get("ctor") or "").split("(")[0]
        for rx, what in STD_THROWERS:
            if re.search(rx, nm):
                key = (fn.id, short(nm), fmt(n))
                t = throwers.setdefault(key, {"fn": fn, "node": n, "what": what, "ctxs": []})
                t["ctxs"].append((chain, env, st, bid, idx))
        if nm == "nitro::format" and fn.file.startswith("/repo/"):
            formats.setdefault((fn.id, n.get("ln"), fmt(n)), {"fn": fn, "node": n, "bid": bid, "idx": idx})
        # std::regex built from something that is not a literal
        if n.get("k") == "construct" and "basic_regex" in (n.get("name") or ""):
            a0 = ir.unwrap(n["args"][0]) if n.get("args") else None
            key = (fn.id, "basic_regex", fmt(n))
            lit = isinstance(a0, dict) and a0.get("k") == "lit"
            t = throwers.setdefault(key, {"fn": fn, "node": n, "what": "std::regex_error", "ctxs": [], "regex_literal": a0["v"] if lit else None})
            t["ctxs"].append((chain, env, st, bid, idx))

    for entry in entries:
        w = context.Walk(prog, cg, fe)
        w.run(entry, on_call=on_call, on_context=on_context, skip=lambda fid: fid.startswith("nitro::except::raise("))
        ncontexts += w.contexts
        for ch in w.cut:
            ctx.broken("R04.1", ch[-1], "summary-depth", "call chain cut off by the depth bound: " + " -> ".join(short(c.split("(")[0]) for c in ch), "-")
    ctx.note("contexts analysed: %d; infeasible edges pruned: %d" % (ncontexts, len(set(fe.pruned))))
    ctx.tables["axioms_used"] = sorted(set(lg.used_axioms))

    # ---- R04.1 verdicts per raise site
    n_allowed = n_guard = 0
    for (fid, ordn), s in sorted(sites.items(), key=lambda kv: (kv[0][0], kv[0][1])):
        fn = s["fn"]
        exc = s["exc"] or "?"
        construct = "raise<%s>#%d" % (short(exc), ordn)
        where = (fn, s["ln"])
        if exc == ALLOWED:
            n_allowed += 1
            ctx.ok("R04.1", fn, construct, "user-input error (allowed); reachable in %d context(s)" % len(s["reach"]), where)
            continue
        if not s["reach"]:
            n_guard += 1
            ctx.ok("R04.1", fn, construct, "guard precondition established in all %d calling context(s): `%s` is unreachable from parse()"
                   % (s["unreach"], s["text"][:70]), where)
            continue
        # the exemption holds for the exempt function and for whatever only it calls (its closure, a named function object
        # handed to for_each_option): every chain that reaches the raise has a frame of the exempt function on it
        exempt = [q for q in EXEMPT_RAISE if fn.id.startswith(q + "(") or all(any(c.startswith(q + "(") or c.startswith(q + "::") for c in chain) for chain, _ in s["reach"])]
        if exempt:
            # checked reason: the facts guarding the raise mention no parse input (only declaration state)
            input_free = True
            for chain, fl in s["reach"]:
                # facts the exempt function inherited from its callers are path conditions of parse(), not guards of this raise
                idx = max(i for i, c in enumerate(chain) if any(c.startswith(q + "(") or c.startswith(q + "::") for q in exempt))
                # (the first frame of the exempt function on the chain)
                first = min(i for i, c in enumerate(chain) if any(c.startswith(q + "(") for q in exempt)) if any(any(c.startswith(q + "(") for q in exempt) for c in chain) else idx
                inherited = ctx_inits.get(tuple(chain[:first + 1]), set())
                for f in fl:
                    if f in inherited:
                        continue
                    if re.search(r"args|argv|\(\*it\)|env_value|getenv", f):
                        input_free = False
            if input_free:
                ctx.ok("R04.1", fn, construct, "exempt (%s): guard reads declaration state only" % EXEMPT_RAISE[exempt[0]], where)
                continue
        n_guard += 1
        chain, fl = min(s["reach"], key=lambda r: len(r[0]))
        chain_s = " -> ".join(short(c.split("(")[0].split("#")[0]) for c in chain)
        ctx.bad("R04.1", fn, construct,
                "%s (`%s`) is reachable from parse() through %s: the guard's precondition is not established on that path; "
                "a user-controlled string can make a %s escape instead of parsing_error [facts there: %s]"
                % (short(exc), s["text"][:80], chain_s, short(exc), "; ".join(fl[:6]) or "none"), where,
                detail={"chains": [list(c) for c, _ in s["reach"][:5]], "facts": fl})
    ctx.need("R04.1", "parsing_error raise sites on the parse path", n_allowed, 8)
    ctx.need("R04.1", "guarded developer-error raise sites on the parse path", n_guard, 5)

    # (clang's CFG has no edges into catch handlers, so the context walk never enters them: the format calls that stand inside a handler of a
    # function on the parse path - a caught parsing_error re-raised with a richer message - are collected from the handler blocks directly)
    from .common import handlers_of
    for fid in sorted(cg.reachable([e0.id for e0 in entries])):
        hf = prog.fn(fid)
        if hf is None or not hf.has_cfg or not hf.file.startswith("/repo/"):
            continue
        hbs = handlers_of(hf)
        if not hbs:
            continue
        live = set(hf.reachable_blocks())
        seenb, stb = set(), [hb for hb, _ in hbs]
        while stb:
            xb = stb.pop()
            if xb in seenb or xb in live:
                continue
            seenb.add(xb)
            for i0, e0 in enumerate(hf.elems(xb)):
                for n0 in elem_calls(e0):
                    if (n0.get("name") or "") == "nitro::format":
                        formats.setdefault((hf.id, n0.get("ln"), fmt(n0)), {"fn": hf, "node": n0, "bid": xb, "idx": i0})
            stb.extend(to for to, _ in hf.succs(xb))
    # ---- format strings on the parse path: formatter::str() raises the library's BASE exception when placeholders and
    # arguments disagree, so the format string must be a literal (no user data in it) whose `{}` count equals the % operands
    for key, t in sorted(formats.items(), key=lambda kv: (kv[0][0], kv[0][1] or 0)):
        fn, n = t["fn"], t["node"]
        a0 = ir.unwrap(n["args"][0]) if n.get("args") else None
        where = (fn, n.get("ln"))
        construct = "format-string@%s" % _rel_line(fn, n.get("ln"))
        if not (isinstance(a0, dict) and a0.get("k") == "lit" and isinstance(a0.get("v"), str)):
            ctx.bad("R04.1", fn, construct, "nitro::format is given a computed format string (%s) on the parse path: any `{}` in the data spliced into it counts as a placeholder, and "
                    "the arity mismatch makes formatter::str() raise the library's base exception instead of parsing_error" % fmt(a0)[:120], where)
            continue
        root = fn.elems(t["bid"])[t["idx"]]["expr"]
        depth = 0
        for m in walk(root):
            d, x = 0, m
            while isinstance(x, dict) and x.get("k") == "call" and short(x.get("name") or "") == "operator%":
                d += 1
                x = ir.unwrap(x.get("this") if x.get("this") is not None else (x.get("args") or [None])[0])
            if x is n:
                depth = max(depth, d)
        stored = root.get("k") == "decl"
        k = a0["v"].count("{}")
        ctx.check(stored or k == depth, "R04.1", fn, construct, "the format literal %r has %d placeholder(s) but %d argument(s) are supplied with %%: formatter::str() raises the base exception"
                  % (a0["v"], k, depth), where, why_ok="literal, %d placeholder(s), %d argument(s)" % (k, depth))

    # ---- standard-library throwers
    for (fid, nm, text), t in sorted(throwers.items(), key=lambda kv: kv[0]):
        fn, n = t["fn"], t["node"]
        if not fn.file.startswith("/repo/"):
            continue
        construct = "std-thrower:%s:%s" % (nm, text[:60])
        where = (fn, n.get("ln"))
        if nm == "basic_regex":
            if t.get("regex_literal") is not None:
                ctx.ok("R04.1", fn, construct, "regex built from a literal (well-formedness: R04.4)", where)
            else:
                ctx.bad("R04.1", fn, construct, "std::regex constructed from a non-literal on the parse path: regex_error can escape", where)
            continue
        ok_all, why = True, ""
        for (chain, env, st, bid, idx) in t["ctxs"]:
            ok, why = justify_thrower(ctx, prog, lg, fn, n, nm, env, st)
            if not ok:
                ok_all = False
                break
        if ok_all:
            ctx.ok("R04.1", fn, construct, why, where)
        else:
            chain_s = " -> ".join(short(c.split("(")[0].split("#")[0]) for c in chain)
            ctx.bad("R04.1", fn, construct, "%s can throw %s on the parse path (%s) and no guard discharges it: %s"
                    % (text[:80], t["what"], chain_s, why), where)

    # ---- R04.2
    tpos = bodies_of(prog, NS + "parser::try_parse_as_option")
    ctx.need("R04.2", "try_parse_as_option instantiations", len(tpos), 2)
    for f in tpos:
        IN, before = fe.analyse(f)
        nsites = 0
        # iterator-typed params / locals: the end sentinel is the by-value iterator parameter
        endp = f.params[2]["name"] if len(f.params) >= 3 else "end"
        itp = f.params[1]["name"] if len(f.params) >= 2 else "it"
        for bid in IN:
            for i, e in enumerate(f.elems(bid)):
                x = e.get("expr")
                if x is None:
                    continue
                for n in walk(x, into_sc=False):
                    # dereference / member access through an iterator local other than the loop position
                    tgt = None
                    u = ir.as_unop(n)
                    if u and u[0] == "*":
                        tgt = ir.unwrap(u[1])
                    if n.get("k") == "call" and (n.get("name") or "").endswith("operator->") and n.get("this") is not None:
                        tgt = ir.unwrap(n["this"])
                    if isinstance(tgt, dict) and tgt.get("k") == "ref" and tgt["decl"].startswith("local:") and not tgt["decl"].startswith("local:__"):
                        nm = tgt["decl"][6:]
                        if "iterator" not in (tgt.get("type") or "") and "Iter" not in (tgt.get("type") or ""):
                            continue
                        nsites += 1
                        goal = logic.Not(("a", "(%s == %s)" % tuple(sorted([endp, nm]))))
                        ok, cm = fe.proves(f, bid, i, goal)
                        ctx.check(ok, "R04.2", f, "deref-under-bound:%s" % nm,
                                  "`%s` is dereferenced at line %s without `%s != %s` on every path (reads past the last argument)"
                                  % (nm, n.get("ln"), nm, endp), (f, n.get("ln")))
                    if u and u[0] in ("++pre", "++post") and fmt(u[1]) == itp:
                        # the extra advance: must be under next != end where next = it + 1
                        nsites += 1
                        fl = [logic.show(g) for g in before.get((bid, i), [])]
                        ok = any(re.search(r"!\(.*== .*\)", s) and endp in s for s in fl)
                        ctx.check(ok, "R04.2", f, "advance-under-bound:%s" % itp,
                                  "`++%s` at line %s is not dominated by a comparison with `%s`" % (itp, n.get("ln"), endp), (f, n.get("ln")))
        ctx.need("R04.2", "iterator dereference/advance sites in " + short(f.qual), nsites, 2)

    # ---- R04.3: the documented conditions keep a parsing_error guard (anchors)
    anchors = [
        ("unknown name/letter", PARSE_VEC, 2),  # unexpected positional + could-not-be-parsed
        ("missing value", None, 1),  # in try_parse_as_option (template): checked per instantiation
        ("given twice", NS + "option::update_value(const nitro::options::user_input &)", 1),
        ("=value on a toggle / reversal", NS + "toggle::update_value(const nitro::options::user_input &)", 3),  # the two conflict directions may share one guard
        ("malformed dash token", NS + "user_input::user_input(const std::string &)", 1),
        ("required without source (option)", NS + "option::check()", 1),
        ("required without source (multi_option)", NS + "multi_option::check()", 1),
        ("unknown env word", NS + "toggle::parse_env_value(const std::string &)", 1),
    ]
    for what, fid, minimum in anchors:
        fns = [prog.fn(fid)] if fid else tpos
        for f in fns:
            if not ctx.anchor("R04.3", fid or "try_parse_as_option", f is not None and f.has_cfg):
                continue
            cnt = 0
            for b in f.reachable_blocks():
                if f.is_noreturn(b):
                    for n, exc, e in raise_nodes(f, b):
                        if exc == ALLOWED:
                            cnt += 1
            ctx.check(cnt >= minimum, "R04.3", f, "rejects:" + what,
                      "%s: expected at least %d raise<parsing_error> guard(s) in %s, found %d - a documented rejection was removed or downgraded"
                      % (what, minimum, short(f.qual), cnt), f, why_ok="%d parsing_error guard(s)" % cnt)

    # ---- R04.4
    from sa import regexlang
    ui = prog.fn(NS + "user_input::user_input(const std::string &)")
    nlit = 0
    if ui is not None:
        for bid, i, e in ui.roots():
            for n in walk(e["expr"]):
                if n.get("k") == "construct" and "basic_regex" in (n.get("name") or "") and n.get("args"):
                    a0 = ir.unwrap(n["args"][0])
                    if isinstance(a0, dict) and a0.get("k") == "lit":
                        nlit += 1
                        try:
                            regexlang.parse(a0["v"])
                            ctx.ok("R04.4", ui, "regex-literal-wellformed", a0["v"], (ui, n.get("ln")))
                        except regexlang.Unsupported as ex:
                            ctx.broken("R04.4", ui, "regex-literal-wellformed", "regex uses a construct outside the modelled ECMAScript subset: %s" % ex, (ui, n.get("ln")))
                        except regexlang.SyntaxError_ as ex:
                            ctx.bad("R04.4", ui, "regex-literal-wellformed", "the validation regex %r is malformed (%s): std::regex_error at run time" % (a0["v"], ex), (ui, n.get("ln")))
    if nlit == 0 and ui is not None and any(ui.is_noreturn(b) for b in ui.blocks):
        # the syntax check written out by hand: decided on the finite abstraction of the token space (A10, sa/tokeneval.py)
        from .common import token_syntax_by_hand, show_token, TOKEN_DOC
        nlit += 1
        res, why = token_syntax_by_hand(ctx, ui)
        if res is None:
            ctx.broken("R04.4", ui, "token-syntax-decided", "the token check is outside the finite token abstraction: %s" % why, ui)
        else:
            V = res["verdicts"]
            oob = sorted((t for t, v in V.items() if v[0] == "oob"), key=lambda t: (len(t), t))
            ctx.check(not oob, "R04.4", ui, "token-check-reads-in-bounds",
                      "for the token `%s` the constructor %s: a read beyond the terminating character" % (show_token(oob[0], res["other"]) if oob else "", V[oob[0]][1] if oob else ""),
                      (ui, (V[oob[0]][2] or {}).get("ln") if oob else None), why_ok="no abstract token makes the constructor read beyond its terminator (%d tokens)" % len(V))
            wrong = sorted((t for t, v in V.items() if v[0] == "reject" and v[1] != ALLOWED), key=lambda t: (len(t), t))
            ctx.check(not wrong, "R04.4", ui, "token-check-raises-parsing-error",
                      "for the token `%s` the constructor ends in %s instead of the user-input error" % (show_token(wrong[0], res["other"]) if wrong else "", V[wrong[0]][1] if wrong else ""),
                      (ui, (V[wrong[0]][2] or {}).get("ln") if wrong else None), why_ok="every refusal is %s" % short(ALLOWED))
            D = regexlang.compile(TOKEN_DOC)
            off = []
            for t, v in V.items():
                dash = t[:1] == b"-" and t != b"--"
                want = "accept" if (not dash or D.accepts(t)) else "reject"
                if v[0] in ("accept", "reject") and v[0] != want:
                    off.append(t)
            off.sort(key=lambda t: (len(t), t))
            ctx.check(not off, "R04.4", ui, "token-syntax-boundary",
                      "the token `%s` is %s, the documented syntax (one or two dashes, a name not starting with '-' or '=', optionally '=' and any value) says the opposite"
                      % (show_token(off[0], res["other"]) if off else "", "refused" if off and V[off[0]][0] == "reject" else "accepted"), (ui, (V[off[0]][2] or {}).get("ln") if off and V[off[0]][2] else None),
                      why_ok="refused exactly the dash tokens outside L(%s), %d abstract tokens" % (TOKEN_DOC, len(V)))
    ctx.need("R04.4", "regex literals in user_input's constructor", nlit, 1)
    _bounded_stack(ctx, prog, cg, entries)
    ctx.assume("allocation failure and stack exhaustion inside the standard library other than through std::regex (R04.12) are outside the claim")
    # ---- R04.7: what is raised can propagate
    ctx.rule("R04.7", "no function on the options path (parser, option kinds, token, optional, string helpers, env::get) is declared noexcept and reaches a raise")
    from .common import rule_noexcept
    rule_noexcept(ctx, "R04.7", lambda f: "/options/" in f.file or f.file.endswith(("lang/optional.hpp", "lang/string.hpp", "env/get.cpp", "env/get.hpp")),
                  "bad user input has to surface as parsing_error", minimum=40)
    # ---- R04.13: handlers on the options path
    ctx.rule("R04.13", "a catch handler on the options path neither lets an exception vanish nor turns parsing_error into another class")
    from .common import rule_handlers
    rule_handlers(ctx, "R04.13", lambda f: "/options/" in f.file or f.file.endswith(("lang/optional.hpp", "lang/string.hpp", "env/get.cpp", "env/get.hpp")),
                  (ALLOWED,), "bad user input has to surface as parsing_error", minimum=40)
    # ---- R04.14: tables indexed by a character
    ctx.rule("R04.14", "no table on the options path is indexed with a plain `char`: a byte >= 0x80 in an argument is a negative index where char is signed (out-of-bounds write / read instead of the user-input error)")
    from .common import rule_no_char_index
    rule_no_char_index(ctx, "R04.14", lambda f: "/options/" in f.file or f.file.endswith(("lang/string.hpp", "io/terminal.hpp")), "a non-ASCII byte in an argument reads or writes outside the table", minimum=40)
    # ---- R04.5: no spurious user-input error - two structural necessary conditions of "exactly when a documented condition holds"
    ctx.rule("R04.5", "no spurious error: every parse starts from emptied value state (R14.2) and an option claims a token only under its own name or letter (R01.5, R01.7, R01.8)")
    if ctx.prop == "C04" and not getattr(ctx, "_sharing", False):
        from .common import share
        share(ctx, "C14", ("R14.2", "R14.3", "R14.5"), "R04.5", "reset obligations shared with C14 (incl. no parser member written on the parse path: a lookup table kept across parses outlives the options it points to)", 3)
        share(ctx, "C13", ("R13.9",), "R04.5", "derived-table obligations shared with C13", 1)
        share(ctx, "C14", ("R14.4",), "R04.5", "argument-lifetime obligations shared with C14 (argv is copied before the previous result is released: a well-formed word that points into it is not read after free)", 1)
        share(ctx, "C11", ("R11.4",), "R04.5", "vocabulary obligations shared with C11 (a documented environment word is not refused)", 10)
        share(ctx, "C01", ("R01.5", "R01.7", "R01.8", "R01.11"), "R04.5", "matching obligations shared with C01", 6)
        # ---- R04.6: documented conditions that must raise do raise (positional limit in every mode; syntax check for every token ahead of `--`)
        ctx.rule("R04.6", "the documented rejections `more positionals than accepted` and `malformed dash token ahead of --` are in force on every path (R12.3, R12.6 re-evaluated)")
        share(ctx, "C12", ("R12.3", "R12.6"), "R04.6", "rejection obligations shared with C12", 4)
        # "given twice" and "required without any source" are judged on the *given* flag: an empty value given on the command line counts as given
        share(ctx, "C03", ("R03.1", "R03.3"), "R04.6", "given-ness obligations shared with C03 (the empty string is a value)", 6)
        share(ctx, "C02", ("R02.4",), "R04.5", "token-syntax obligations shared with C02 (a well-formed --name=value token is never rejected for its value)", 1)
    ctx.assume("beyond R04.5 the accept/reject boundary itself (error raised *exactly* under the documented conditions) is not decided")


def _accessor_target(prog, n):
    """for a call to a repo accessor whose every return is the same member, the member expression (this substituted)"""
    if not (isinstance(n, dict) and n.get("k") == "call" and n.get("callee")):
        return None
    callee = prog.fn(n["callee"])
    if callee is None or not callee.has_cfg or not callee.file.startswith("/repo/"):
        return None
    rets = []
    for bid, i, e in callee.roots():
        x = e["expr"]
        if x.get("k") == "return" and x.get("e") is not None:
            rets.append(ir.unwrap(x["e"]))
    if rets and all(isinstance(r, dict) and r.get("k") == "member" for r in rets) and len({r["field"] for r in rets}) == 1:
        return subst(rets[0], {"this": n.get("this"), "params": {}})
    return None


def justify_thrower(ctx, prog, lg, fn, n, nm, env, st):
    """frozen justifications, each *checked* against the facts at the call"""
    facts_s = [logic.show(f) for f in st]
    if nm == "substr":
        args = [a for a in n.get("args", []) if not (isinstance(a, dict) and a.get("k") == "defarg")]
        recv = n.get("this")
        acc = _accessor_target(prog, ir.unwrap(recv))
        recv_c = canon(subst(acc if acc is not None else recv, env))
        pos = ir.unwrap(args[0]) if args else None
        if pos is None or (pos.get("k") == "lit" and pos.get("v") == 0):
            return True, "substr(0, ...) cannot throw"
        if pos.get("k") == "lit" and isinstance(pos.get("v"), int):
            k = pos["v"]
            # needs starts_with(recv, lit) with |lit| >= k among the facts
            for f in st:
                for a in logic.atoms_of(f):
                    m = re.match(r'^starts_with\((.*), basic_string\{"(.*)"\}\)$', a)
                    if m and m.group(1) == recv_c and len(m.group(2)) >= k and logic.entails(st, ("a", a), lg.axioms)[0]:
                        return True, "substr(%d) under starts_with(%s, \"%s\") (length >= %d)" % (k, recv_c, m.group(2), k)
            # ... or a size fact: N < recv.size() with N >= k - 1
            for f in st:
                for a in logic.atoms_of(f):
                    m = re.match(r'^\((\d+) < (.*)\.(size|length)\(\)\)$', a)
                    if m and m.group(2) == recv_c and int(m.group(1)) >= k - 1 and logic.entails(st, ("a", a), lg.axioms)[0]:
                        return True, "substr(%d) under %s" % (k, a)
            # ... or non-emptiness for position 1
            if k == 1 and logic.entails(st, Not(("a", "%s.empty()" % recv_c)), lg.axioms)[0] is True:
                return True, "substr(1) under !%s.empty()" % recv_c
            return False, "position %d is not covered by a known prefix of %s" % (k, recv_c)
        # a position that the facts bound by the receiver's size: `pos < recv.size()` (a scan loop's guard), `pos <= recv.size()`
        if pos.get("k") == "ref":
            pv = canon(subst(pos, env))
            for want in ("(%s < %s.size())" % (pv, recv_c), "(%s < %s.length())" % (pv, recv_c), "(%s <= %s.size())" % (pv, recv_c), "!(%s.size() <= %s)" % (recv_c, pv), "!(%s.size() < %s)" % (recv_c, pv)):
                if any(logic.show(f0) == want for f0 in st):
                    return True, "substr(%s, ...) under %s" % (pv, want)
        # sep / sep + 1 with sep = recv.find(...) and facts |- sep != npos
        base = pos
        if pos.get("k") == "bin" and pos["op"] == "+" and ir.unwrap(pos["r"]).get("k") == "lit" and ir.unwrap(pos["r"]).get("v") == 1:
            base = ir.unwrap(pos["l"])
        if base.get("k") == "ref" and base["decl"].startswith("local:"):
            v = base["decl"][6:]
            init = None
            for bid, i, e in fn.roots():
                x = e["expr"]
                if x.get("k") == "decl":
                    for var in x.get("vars", []):
                        if var["name"] == v:
                            init = ir.unwrap(var.get("init"))
            if isinstance(init, dict) and init.get("k") == "call" and short(init.get("name") or "") in ("find", "find_first_of", "rfind", "find_last_of") \
                    and canon(subst(init.get("this"), env)) == canon(subst(recv, env)):
                vname = canon(subst(base, env))
                for f in st:
                    s = logic.show(f)
                    if s.startswith("!(") and vname in s and "npos" in s and "==" in s:
                        return True, "position is the result of %s.find(...) and `%s != npos` holds (find returns < size())" % (canon(recv), v)
                return False, "`%s != npos` is not established" % v
        return False, "unrecognised position expression %s" % fmt(pos)
    if nm == "at":
        # map::at(K) with a literal key on a data member: a class invariant when every constructor inserts K and nothing removes it
        recv = ir.unwrap(n.get("this"))
        args = [a for a in n.get("args", []) if not (isinstance(a, dict) and a.get("k") == "defarg")]
        lits = [y["v"] for a in args for y in walk(a) if isinstance(y, dict) and y.get("k") == "lit" and y.get("t") == "str"]
        if isinstance(recv, dict) and recv.get("k") == "member" and recv.get("field") and len(lits) == 1 and fn.cls:
            fld = recv["field"]
            ctors = [g for g in prog.methods_of(fn.cls) if g.kind == "ctor" and g.has_cfg and not g.flags.get("move_ctor") and not g.flags.get("copy_ctor")]
            def inserts(g):
                for _, _, e in g.all_elems():
                    if e.get("expr") is None:
                        continue
                    for y in walk(e["expr"]):
                        if isinstance(y, dict) and y.get("k") == "call" and short(y.get("name") or "") in ("emplace", "insert", "try_emplace", "operator[]", "insert_or_assign") \
                                and isinstance(ir.unwrap(y.get("this")), dict) and ir.unwrap(y["this"]).get("field") == fld \
                                and lits[0] in [z["v"] for z in walk(y) if isinstance(z, dict) and z.get("k") == "lit" and z.get("t") == "str"]:
                            return True
                return False
            removers = []
            for g in prog.fns.values():
                if not g.has_cfg or not g.file.startswith("/repo/"):
                    continue
                for _, _, e in g.all_elems():
                    if e.get("expr") is None:
                        continue
                    for y in walk(e["expr"]):
                        if isinstance(y, dict) and y.get("k") == "call" and short(y.get("name") or "") in ("erase", "clear", "extract", "swap") and y.get("this") is not None \
                                and isinstance(ir.unwrap(y["this"]), dict) and ir.unwrap(y["this"]).get("field") == fld:
                            if short(y.get("name") or "") == "erase" and _rolls_back_own_insertion(g, y, fld):
                                continue  # takes back the element this very call inserted (a failed declaration leaves the map as it was)
                            removers.append(short(g.qual))
            if ctors and all(inserts(g) for g in ctors) and not removers:
                return True, "at(\"%s\") on %s: every constructor inserts that key and no function erases from the map" % (lits[0], short(fld))
            return False, "the key \"%s\" of %s is not a class invariant (%s)" % (lits[0], short(fld), "removed in %s" % sorted(set(removers)) if removers else "not inserted by every constructor")
        return False, "no justification known for at() on %s" % fmt(recv)[:40]
    if nm in ("reserve", "resize"):
        # length_error for a request above max_size(): a literal, the size of an existing container, or a value of at most 32 bits is below it
        args = [a for a in n.get("args", []) if not (isinstance(a, dict) and a.get("k") == "defarg")]
        a0 = ir.unwrap(args[0]) if args else None

        def small(x):
            """sums and differences of constants, values of at most 32 bits and sizes of existing containers stay far below max_size()"""
            x = ir.unwrap(x)
            if not isinstance(x, dict):
                return False
            if x.get("k") == "lit":
                return isinstance(x.get("v"), int)
            if x.get("k") in ("cast", "paren"):
                return small(x.get("e"))
            if x.get("k") == "bin" and x.get("op") in ("+", "-"):
                return small(x["l"]) and small(x["r"])
            if x.get("k") == "call" and short(x.get("name") or "") in ("size", "length") and x.get("this") is not None:
                return True
            if x.get("k") == "call" and short(x.get("name") or "") in ("min",) and any(small(a) for a in x.get("args", [])):
                return True
            return x.get("k") in ("ref", "member", "call") and (x.get("bits") or 64) <= 32
        if small(a0):
            return True, "%s(%s): built from constants, values of at most 32 bits and sizes of existing containers - below max_size()" % (nm, fmt(a0)[:40])
        return False, "the amount `%s` is a caller-supplied number: above max_size() it throws std::length_error before a single token is looked at" % (fmt(a0)[:40] if a0 is not None else "?")
    if nm in ("compare", "erase", "replace", "insert", "copy"):
        # basic_string::f(pos, ...) throws out_of_range only for pos > size(): position 0 is always valid
        args = [a for a in n.get("args", []) if not (isinstance(a, dict) and a.get("k") == "defarg")]
        pos = ir.unwrap(args[0]) if args else None
        if nm == "compare" and (len(args) == 1 or (isinstance(pos, dict) and pos.get("k") == "lit" and pos.get("v") == 0)):
            return True, "compare(%s) cannot throw (no position, or position 0 <= size())" % ("0, ..." if len(args) > 1 else "s")
        if nm != "compare" and isinstance(pos, dict) and pos.get("k") == "lit" and pos.get("v") == 0 and nm != "insert":
            return True, "%s(0, ...) cannot throw" % nm
        return False, "position %s of %s() is not known to be within the string" % (fmt(pos) if pos is not None else "?", nm)
    return False, "no justification known for %s" % nm


def std_thrower_obligations(ctx, rule, entries, path_name, cg=None, delegated=None):
    """the standard-library throwers (substr / at / erase / compare / stoi ...) reachable from the entry functions, each
    justified against the facts of every calling context - the thrower part of R04.1 for another entry point"""
    prog = ctx.prog
    cg = cg or callgraph(ctx)
    fe = facts.FactsEngine(prog, cg)
    lg = fe.lg
    throwers = {}

    def on_call(fn, bid, idx, n, env, envkey, init, chain, st):
        nm = n.get("name") or ""
        if n.get("k") == "construct":
            nm = (n.get("ctor") or "").split("(")[0]
        for rx, what in STD_THROWERS:
            if re.search(rx, nm):
                t = throwers.setdefault((fn.id, short(nm), fmt(n)), {"fn": fn, "node": n, "what": what, "ctxs": []})
                t["ctxs"].append((chain, env, st, bid, idx))

    ncontexts = 0
    for entry in entries:
        w = context.Walk(prog, cg, fe)
        w.run(entry, on_call=on_call, on_context=lambda *a, **k: None, skip=lambda fid: fid.startswith("nitro::except::raise("))
        ncontexts += w.contexts
    n = 0
    for (fid, nm, text), t in sorted(throwers.items(), key=lambda kv: kv[0]):
        fn, node = t["fn"], t["node"]
        if not fn.file.startswith("/repo/"):
            continue
        n += 1
        construct = "std-thrower:%s:%s" % (nm, text[:60])
        where = (fn, node.get("ln"))
        dl = delegated(fn) if delegated else None
        if dl:
            ctx.ok(rule, fn, construct, dl, where)
            continue
        ok_all, why, chain = True, "", ()
        for (chain, env, st, bid, idx) in t["ctxs"]:
            ok, why = justify_thrower(ctx, prog, lg, fn, node, nm, env, st)
            if not ok:
                ok_all = False
                break
        if ok_all:
            ctx.ok(rule, fn, construct, why, where)
        else:
            chain_s = " -> ".join(short(c.split("(")[0].split("#")[0]) for c in chain)
            ctx.bad(rule, fn, construct, "%s can throw %s on the %s path (%s) and no guard discharges it: %s" % (text[:80], t["what"], path_name, chain_s, why), where)
    return n, ncontexts
